"""Shared plumbing for the correspondence checks: driver access, result collection, shrinking."""
import hashlib
import json
import os
import random
import subprocess
import sys
import time

VERIF = os.path.dirname(os.path.dirname(os.path.abspath(__file__)))
LEAN = os.path.join(VERIF, "lean")
DRIVER = os.path.join(LEAN, ".lake", "build", "bin", "rnadriver")


class DriverError(Exception):
    pass


class Driver:
    """Batch access to the Lean model through the line protocol."""

    def __init__(self, path=DRIVER):
        self.path = path
        self.lines = 0

    def ask(self, requests, shard=True):
        """requests: list of lists (op, arg1, ...) -> list of response strings.
        Large batches are split into contiguous shards answered by concurrent driver processes (the model is a
        pure function of each line, so the answers do not depend on the sharding)."""
        if not requests:
            return []
        for r in requests:
            for f in r:
                if "\t" in f or "\n" in f:
                    raise DriverError("unescaped separator in request %r" % (r,))
        n = len(requests)
        nshards = min(16, os.cpu_count() or 1, n // 8) if shard and n >= 32 else 1
        if nshards <= 1:
            out = self._ask_one(requests)
        else:
            from concurrent.futures import ThreadPoolExecutor
            size = (n + nshards - 1) // nshards
            chunks = [requests[i:i + size] for i in range(0, n, size)]
            with ThreadPoolExecutor(len(chunks)) as ex:
                parts = list(ex.map(self._ask_one, chunks))
            out = [x for p in parts for x in p]
        self.lines += n
        return out

    def _ask_one(self, requests):
        text = "".join("\t".join(r) + "\n" for r in requests)
        p = subprocess.run([self.path], input=text.encode(), stdout=subprocess.PIPE, stderr=subprocess.PIPE)
        if p.returncode != 0:
            raise DriverError("driver exit %d: %s" % (p.returncode, p.stderr.decode()[-400:]))
        out = p.stdout.decode().split("\n")
        if out and out[-1] == "":
            out.pop()
        if len(out) != len(requests):
            raise DriverError("driver returned %d lines for %d requests" % (len(out), len(requests)))
        return out

    def ask1(self, *req):
        return self.ask([list(req)])[0]


def hexs(s):
    return s.encode("utf-8").hex() if s else "-"


class Result:
    """What one correspondence run covered and what it found."""

    def __init__(self, prop):
        self.prop = prop
        self.evaluations = 0
        self.nontrivial = set()
        self.rule = ""
        self.samples = []
        self.dist = {}
        self.failures = []  # dicts: kind ('spec'|'corr'), signature, input, detail
        self.notes = []
        self.undecided = 0
        self.exhaustive = False

    def count(self, key, n=1):
        self.dist[key] = self.dist.get(key, 0) + n

    def case(self, key=None, nontrivial=False):
        self.evaluations += 1
        if nontrivial and key is not None:
            self.nontrivial.add(key)

    def sample(self, s, cap=8):
        if len(self.samples) < cap:
            self.samples.append(s)

    def fail(self, kind, signature, input, detail):
        assert kind in ("spec", "corr")
        self.failures.append({"kind": kind, "signature": signature, "input": input, "detail": str(detail)[:2000]})


class Ctx:
    def __init__(self, prop, tier, seed):
        self.prop = prop
        self.tier = tier
        self.seed = seed
        self.rng = random.Random(seed * 1000003 + sum(map(ord, prop)))
        self.driver = Driver()
        self.t0 = time.time()
        self.deadline = None
        # change-triggered deepening (see ./check): further search rounds with other seeds
        self.escalated = False
        self.round = 0
        self.changed_source = []

    @property
    def quick(self):
        return self.tier == "quick"

    def pick(self, q, t):
        return q if self.quick else t


def exc_name(e):
    n = type(e).__name__
    if n in ("IndexError", "StopIteration", "ValueError", "TypeError", "KeyError"):
        return n
    return "other:" + n


def call(f, *a, **kw):
    """Run the real code; map exceptions to the protocol enum.  Returns ('ok', value) or ('err', name)."""
    try:
        return ("ok", f(*a, **kw))
    except Exception as e:  # noqa: BLE001
        return ("err", exc_name(e))


class _Slow(Exception):
    pass


def _kill_children():
    me = os.getpid()
    for d in os.listdir("/proc"):
        if d.isdigit():
            try:
                with open("/proc/%s/stat" % d) as f:
                    parts = f.read().rsplit(")", 1)[1].split()
                if int(parts[1]) == me:
                    os.kill(int(d), 9)
            except Exception:  # noqa: BLE001
                pass


def call_timed(f, seconds=None):
    """`call` with a watchdog for calls that hand a MILP to an external solver process: CBC occasionally needs many
    minutes on a degenerate colouring instance.  -> ('ok', v) | ('err', name) | ('slow', '') — a slow instance is
    counted by the harness and never judged.  Only usable in the main thread of a (worker) process."""
    import signal
    if seconds is None:
        seconds = float(os.environ.get("VERIF_SOLVER_PATIENCE", "20"))

    def on_alarm(signum, frame):
        raise _Slow()

    try:
        old = signal.signal(signal.SIGALRM, on_alarm)
    except ValueError:      # not in the main thread
        return call(f)
    signal.setitimer(signal.ITIMER_REAL, seconds)
    try:
        try:
            return ("ok", f())
        finally:
            signal.setitimer(signal.ITIMER_REAL, 0)
    except _Slow:
        _kill_children()
        return ("slow", "")
    except Exception as e:  # noqa: BLE001
        return ("err", exc_name(e))
    finally:
        signal.signal(signal.SIGALRM, old)


def short_hash(obj):
    return hashlib.sha1(json.dumps(obj, sort_keys=True, default=str).encode()).hexdigest()[:12]


def ddmin(items, still_fails, max_steps=400):
    """Delta-debugging minimisation of a list while `still_fails(sublist)` holds."""
    items = list(items)
    n = 2
    steps = 0
    while len(items) >= 2 and steps < max_steps:
        chunk = max(1, len(items) // n)
        reduced = False
        for i in range(0, len(items), chunk):
            cand = items[:i] + items[i + chunk:]
            steps += 1
            if cand and still_fails(cand):
                items = cand
                n = max(n - 1, 2)
                reduced = True
                break
        if not reduced:
            if chunk == 1:
                break
            n = min(len(items), n * 2)
    return items


def _run_sequence(args):
    fn, items = args
    out = []
    for x in items:
        try:
            out.append(repr(fn(x)))
        except Exception as e:  # noqa: BLE001
            out.append("raised " + type(e).__name__)
    return out


def history_probe(ctx, res, fn, items, label, k=None, describe=None):
    """Is what the real code returns for an input a function of that input alone?  A sample of the inputs is
    evaluated twice, each time in ONE fresh process, once in the given order and once in reverse; the two answers for
    the same input must be equal.  A difference means the result depends on what was computed earlier in the process
    (a cache keyed too coarsely, a shared mutable default, a mutated argument): the functional model no longer
    describes the code, reported as a correspondence failure `<prop>:corr:depends-on-earlier-calls:<label>` with the
    input and both answers.  Answers that mention an abandoned solver call ('slow') are not compared."""
    items = list(items)
    if k is None:
        k = 120 if ctx.quick else 600
    if len(items) > k:
        items = ctx.rng.sample(items, k)
    if len(items) < 2:
        return
    fwd, bwd = fork_map(_run_sequence, [(fn, items), (fn, items[::-1])], nproc=2, chunksize=1)
    bwd = bwd[::-1]
    res.count("history-probe:%s:inputs" % label, len(items))
    for x, a, b in zip(items, fwd, bwd):
        if a != b and "'slow'" not in a and "'slow'" not in b:
            res.fail("corr", "%s:corr:depends-on-earlier-calls:%s" % (ctx.prop, label),
                     {"family": "history-probe", "input": describe(x) if describe else x},
                     "evaluated after other inputs: %s ... | evaluated before them: %s ..." % (a[:300], b[:300]))
            break


def fork_map(fn, items, nproc=None, chunksize=None, timeout=None):
    """[fn(x) for x in items] computed in forked worker processes (always forked, also for one worker or one item).

    Deliberately not a `multiprocessing.Pool`: a pool shares task and result queues guarded by cross-process locks, and a
    worker that dies or is killed while it holds one (or a replacement worker forked by the pool's handler thread while
    another thread holds an interpreter lock) leaves the whole pool waiting for ever - observed as checks that never
    returned.  Here every worker gets a fixed share of the items (chunks of `chunksize` dealt round-robin, processed in
    order, so state inside a worker carries from chunk to chunk as it did in a pool), writes its pickled results to its
    own file in the run's scratch directory and exits; nothing is shared.  The parent is single-threaded when it forks.
    A worker that raises makes the call raise; a worker that is killed or outlives `timeout` seconds
    (VERIF_POOL_TIMEOUT, default 3000) makes it raise RuntimeError after all workers have been killed."""
    import pickle
    import signal
    import tempfile
    import time
    import traceback
    items = list(items)
    if not items:
        return []
    if nproc is None:
        nproc = min(16, os.cpu_count() or 1)
    nproc = max(1, min(nproc, len(items)))
    if chunksize is None:
        chunksize = max(1, len(items) // (nproc * 8))
    if timeout is None:
        timeout = float(os.environ.get("VERIF_POOL_TIMEOUT", "3000"))
    chunks = [list(range(i, min(i + chunksize, len(items)))) for i in range(0, len(items), chunksize)]
    shares = [[i for c in chunks[w::nproc] for i in c] for w in range(nproc)]
    shares = [sh for sh in shares if sh]
    sys.stdout.flush()
    sys.stderr.flush()
    outdir = tempfile.mkdtemp(prefix="forkmap-")
    pids = {}
    try:
        for w, share in enumerate(shares):
            path = os.path.join(outdir, "%d.pkl" % w)
            pid = os.fork()
            if pid == 0:
                code = 0
                try:
                    signal.signal(signal.SIGTERM, signal.SIG_DFL)
                    try:
                        payload = ("ok", [(i, fn(items[i])) for i in share])
                    except BaseException as e:  # noqa: BLE001
                        payload = ("raised", "%s: %s" % (type(e).__name__, e), traceback.format_exc())
                    with open(path + ".tmp", "wb") as f:
                        pickle.dump(payload, f, protocol=pickle.HIGHEST_PROTOCOL)
                    os.rename(path + ".tmp", path)
                except BaseException:  # noqa: BLE001
                    code = 1
                    try:
                        traceback.print_exc()
                    except BaseException:  # noqa: BLE001
                        pass
                finally:
                    try:
                        sys.stdout.flush()
                        sys.stderr.flush()
                    except BaseException:  # noqa: BLE001
                        pass
                    os._exit(code)
            pids[pid] = (w, path)
        deadline = time.time() + timeout
        status = {}
        pending = set(pids)
        while pending:
            for pid in list(pending):
                got, st = os.waitpid(pid, os.WNOHANG)
                if got == pid:
                    pending.discard(pid)
                    status[pid] = st
            if pending:
                if time.time() > deadline:
                    raise RuntimeError("fork_map: %d of %d workers still running after %.0f s (%s)" % (len(pending), len(pids), timeout, getattr(fn, "__name__", fn)))
                time.sleep(0.02)
        out = [None] * len(items)
        for pid, (w, path) in pids.items():
            st = status[pid]
            if not (os.WIFEXITED(st) and os.WEXITSTATUS(st) == 0 and os.path.exists(path)):
                raise RuntimeError("fork_map: worker %d of %s ended abnormally (wait status %d)" % (w, getattr(fn, "__name__", fn), st))
            with open(path, "rb") as f:
                payload = pickle.load(f)
            if payload[0] != "ok":
                raise RuntimeError("fork_map: %s raised in a worker: %s\n%s" % (getattr(fn, "__name__", fn), payload[1], payload[2]))
            for i, v in payload[1]:
                out[i] = v
        return out
    finally:
        for pid in pids:
            try:
                os.kill(pid, signal.SIGKILL)
            except OSError:
                pass
        for pid in pids:
            try:
                os.waitpid(pid, 0)
            except OSError:
                pass
        import shutil
        shutil.rmtree(outdir, ignore_errors=True)


def parallel_map(fn, items, nproc=None, chunksize=None):
    """Run fn over items in forked workers (real-code evaluation is CPU bound); few items are evaluated in-process."""
    items = list(items)
    if nproc is None:
        nproc = min(16, os.cpu_count() or 1)
    if len(items) < 64 or nproc <= 1:
        return [fn(x) for x in items]
    return fork_map(fn, items, nproc, chunksize)

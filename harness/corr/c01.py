"""C01 — BPSEQ <-> dot-bracket is lossless for every encoder.

Functional correspondence: regions, FCFS structure line, decoder pairs, from_dotbracket entries,
BPSEQ text.  Relational (spec predicate `ss.lossless`, the Lean definition the theorems are about):
the optimal structure line and every member of all_dot_brackets.
"""
import string

from core import history_probe, call_timed, Result, call, parallel_map
from gen import g1
from corr import cli_annotator

OPEN = "([{<" + string.ascii_uppercase
CLOSE = ")]}>" + string.ascii_lowercase


def stems_of(pairs):
    five = [(i + 1, p) for i, p in enumerate(pairs) if p > i + 1]
    stems = []
    for (i, j) in five:
        if stems and stems[-1][-1] == (i - 1, j + 1):
            stems[-1].append((i, j))
        else:
            stems.append([(i, j)])
    return stems


def component_sizes(pairs, cap=80):
    """sizes of the groups of (transitively) crossing stems; None when there are too many stems"""
    regs = [s[0] for s in stems_of(pairs)]
    n = len(regs)
    if n > cap:
        return None
    adj = {u: set() for u in range(n)}
    for u in range(n):
        k, l = regs[u]
        for v in range(u + 1, n):
            m, nn = regs[v]
            if k < m < l < nn or m < k < nn < l:
                adj[u].add(v)
                adj[v].add(u)
    seen = set()
    sizes = []
    for u in range(n):
        if u in seen:
            continue
        comp = {u}
        stack = [u]
        while stack:
            x = stack.pop()
            for y in adj[x]:
                if y not in comp:
                    comp.add(y)
                    stack.append(y)
        seen |= comp
        sizes.append(len(comp))
    return sizes


def components_ok(pairs, limit, total=40000):
    sizes = component_sizes(pairs)
    if sizes is None:
        return False
    import math
    work = 1
    for s in sizes:
        if s > limit:
            return False
        work *= max(1, math.factorial(s) // 2 if s > 1 else 1)
        if work > total:
            return False
    return True


def real(case):
    """everything the real code says about one structure"""
    seq, pairs, want_all, want_opt, levels = case[:5]
    from rnapolis.common import BpSeq
    b = g1.mk_bpseq(seq, pairs)
    # derivations / queries made on the object BEFORE its notations are asked for (they must not change what it encodes)
    for name in (case[5] if len(case) > 5 else ()):
        if name == "all_dot_brackets":
            if want_all:
                call(lambda: list(b.all_dot_brackets))
        elif name == "paired":
            call(lambda: list(b.paired()))
        elif name == "paired-5to3":
            call(lambda: list(b.paired(only5to3=True)))
        elif name == "paired-5to3-first":
            call(lambda: any(b.paired(only5to3=True)))
        else:
            call(lambda: getattr(b, name)() if name.startswith("without_") else getattr(b, name))
    out = {}
    out["text"] = call(str, b)
    out["regions"] = call(lambda: ";".join("%d:%d:%d" % r for r in b._BpSeq__regions))
    out["fcfs"] = call(lambda: b.fcfs.structure)
    out["opt"] = call_timed(lambda: b.dot_bracket.structure) if want_opt else ("skip", "")
    if out["opt"][0] == "slow":
        out["opt"] = ("skip", "solver-slow")
    if levels is not None:
        out["mk"] = call(lambda: b._BpSeq__make_dot_bracket(b._BpSeq__regions, levels).structure)
    if want_all:
        out["all"] = call(lambda: sorted(d.structure for d in b.all_dot_brackets))
    if out["fcfs"][0] == "ok":
        out["fcfs_seq"] = b.fcfs.sequence
        out["fcfs_pairs"] = ",".join("%d-%d" % p for p in b.fcfs.pairs)
        b2 = BpSeq.from_dotbracket(b.fcfs)
        out["fcfs_back"] = "".join(e.sequence for e in b2.entries) + " " + g1.pstr([e.pair for e in b2.entries])
        t = call(lambda: BpSeq.from_string(str(b)))
        out["reparse"] = ("ok", t[1] == b) if t[0] == "ok" else t
    return out


def balanced_string(rng, n, ntypes=30):
    """random balanced dot-bracket over up to ntypes types (each type non-crossing, types may cross)"""
    s = ["."] * n
    free = list(range(n))
    rng.shuffle(free)
    k = rng.randint(0, n // 2)
    placed = {t: [] for t in range(ntypes)}
    for _ in range(k):
        if len(free) < 2:
            break
        a = free.pop()
        b = free.pop()
        i, j = min(a, b), max(a, b)
        ts = list(range(ntypes))
        rng.shuffle(ts)
        ts = ts[: rng.randint(1, 4)] if rng.random() < 0.8 else ts
        for t in ts:
            if all(not (x < i < y < j or i < x < j < y) for x, y in placed[t]):
                placed[t].append((i, j))
                s[i], s[j] = OPEN[t], CLOSE[t]
                break
    return "".join(s)


def real_db(case):
    seq, st = case
    from rnapolis.common import BpSeq, DotBracket
    out = {}
    d = call(lambda: DotBracket.from_string(seq, st))
    if d[0] != "ok":
        return {"decode": d}
    db = d[1]
    out["decode"] = ("ok", ",".join("%d-%d" % p for p in db.pairs))
    b = BpSeq.from_dotbracket(db)
    out["entries"] = "".join(e.sequence for e in b.entries) + " " + g1.pstr([e.pair for e in b.entries])
    out["pairs"] = [e.pair for e in b.entries]
    # the optimal notation only where the MILP is small (groups of crossing stems of at most 9, at most 16 conflicted
    # stems in all): on long random multi-type strings CBC needs many seconds per instance
    sizes = component_sizes(out["pairs"])
    small = sizes is not None and max(sizes or [0]) <= 9 and sum(x for x in sizes if x > 1) <= 16
    out["opt"] = call_timed(lambda: b.dot_bracket.structure) if small else ("skip", "large crossing groups")
    out["fcfs"] = call(lambda: b.fcfs.structure)
    return out


def build_inputs(ctx, res):
    rng = ctx.rng
    inputs = []
    for c in g1.handmade():
        inputs.append(("hand", c))
    for name, c in g1.corpus():
        inputs.append(("corpus:" + name, c))
    nmax = ctx.pick(8, 10)
    for c in g1.exhaustive(nmax):
        inputs.append(("exh", c))
    res.dist["exhaustive_nmax"] = nmax
    for _ in range(ctx.pick(1200, 20000)):
        inputs.append(("planted", g1.planted(rng, n=rng.randint(10, ctx.pick(160, 400)))))
    for _ in range(ctx.pick(800, 10000)):
        inputs.append(("dense", g1.small_dense(rng)))
    for _ in range(ctx.pick(800, 10000)):
        inputs.append(("tight", g1.tight(rng)))
    for k in list(range(2, 31, ctx.pick(4, 1))) + [30, 31]:
        inputs.append(("ladder%d" % k, g1.ladder(k, stemlen=rng.randint(1, 2), gap=rng.randint(0, 1))))
    return inputs


def run(ctx):
    res = Result("C01")
    res.rule = ("inputs: hand-made + repository corpus + every symmetric pairing on n<=N positions + planted-stem random "
                "+ dense random + k-ladders (k=2..31) + random balanced dot-bracket strings over 30 types; "
                "non-trivial = has at least one pair; distinct by (length, pairing) resp. structure line")
    inputs = build_inputs(ctx, res)
    limit = ctx.pick(6, 8)
    cases = []
    for tag, (seq, pairs) in inputs:
        sizes = component_sizes(pairs)
        want_opt = sizes is not None and max(sizes or [0]) <= ctx.pick(9, 10) and sum(x for x in sizes if x > 1) <= ctx.pick(30, 18)
        nst = len(sizes) if sizes is not None else len(stems_of(pairs))
        # random level vector (any levels 0..31: the writer must follow them or raise IndexError)
        r = ctx.rng.random()
        if r < 0.5:
            levels = [ctx.rng.randrange(0, 4) for _ in range(nst)]
        elif r < 0.9:
            levels = [ctx.rng.randrange(0, 30) for _ in range(nst)]
        else:
            levels = [ctx.rng.randrange(0, 33) for _ in range(nst)]
        pre = ()
        if tag in ("planted", "dense", "tight", "hand") and ctx.rng.random() < 0.3:
            pre = tuple(ctx.rng.sample(["without_isolated", "without_pseudoknots", "elements", "pairs", "all_dot_brackets", "paired",
                                        "paired-5to3", "paired-5to3-first"], ctx.rng.randint(1, 2)))
        cases.append((seq, pairs, components_ok(pairs, limit), want_opt, levels, pre))
    outs = parallel_map(real, cases)
    history_probe(ctx, res, real, cases, "encoders")
    D = ctx.driver
    reqs = []
    idx = []
    for ci, ((tag, (seq, pairs)), (_, _, want_all, want_opt, levels, _pre), o) in enumerate(zip(inputs, cases, outs)):
        ps = g1.pstr(pairs)
        reqs.append(["ss.mkdb", seq, ps, g1.pstr(levels)]); idx.append((ci, "mk"))
        reqs.append(["ss.regions", seq, ps]); idx.append((ci, "regions"))
        reqs.append(["ss.fcfs", seq, ps]); idx.append((ci, "fcfs"))
        if o["opt"][0] == "ok":
            reqs.append(["ss.lossless", seq, ps, o["opt"][1]]); idx.append((ci, "opt"))
        if o["fcfs"][0] == "ok":
            reqs.append(["ss.lossless", seq, ps, o["fcfs"][1]]); idx.append((ci, "fcfs_lossless"))
            reqs.append(["ss.decode", o["fcfs"][1]]); idx.append((ci, "fcfs_pairs"))
            reqs.append(["ss.fromdb", seq, o["fcfs"][1]]); idx.append((ci, "fcfs_back"))
        if want_all:
            reqs.append(["ss.alldb", seq, ps]); idx.append((ci, "all"))
            if o["all"][0] == "ok":
                for s in o["all"][1]:
                    reqs.append(["ss.lossless", seq, ps, s]); idx.append((ci, "all_member"))
    resp = D.ask(reqs)
    for (ci, what), r in zip(idx, resp):
        tag, (seq, pairs) = inputs[ci]
        o = outs[ci]
        inp = {"seq": seq, "pairs": pairs, "family": tag, "calls_before": list(cases[ci][5])}
        if what == "regions":
            if o["regions"] != ("ok", r):
                res.fail("corr", "C01:regions", inp, "impl=%r model=%r" % (o["regions"], r))
        elif what == "mk":
            impl = ("ok " + o["mk"][1]) if o["mk"][0] == "ok" else "err " + o["mk"][1]
            if impl != r:
                res.fail("corr", "C01:make_dot_bracket", inp, "levels=%r impl=%r model=%r" % (cases[ci][4], impl, r))
        elif what == "fcfs":
            impl = ("ok " + o["fcfs"][1]) if o["fcfs"][0] == "ok" else "err " + o["fcfs"][1]
            if impl != r:
                res.fail("corr", "C01:fcfs", inp, "impl=%r model=%r" % (impl, r))
        elif what in ("opt", "fcfs_lossless", "all_member"):
            if r != "ok":
                res.fail("spec", "C01:%s:%s" % (what, r), inp,
                         "structure line produced by the implementation is not lossless: %s" % r)
        elif what == "fcfs_pairs":
            if r != "ok " + o["fcfs_pairs"]:
                res.fail("corr", "C01:decode", inp, "impl=%r model=%r" % (o["fcfs_pairs"], r))
        elif what == "fcfs_back":
            if r != "ok " + o["fcfs_back"]:
                res.fail("corr", "C01:from_dotbracket", inp, "impl=%r model=%r" % (o["fcfs_back"], r))
        elif what == "all":
            impl = ("ok " + ",".join(o["all"][1])) if o["all"][0] == "ok" else "err " + o["all"][1]
            mod = r
            if r.startswith("ok "):
                mod = "ok " + ",".join(sorted(r[3:].split(",")))
            if impl != mod:
                res.fail("corr", "C01:all_dot_brackets", inp, "impl=%r model=%r" % (impl[:300], mod[:300]))
    for (tag, (seq, pairs)), o in zip(inputs, outs):
        n, npairs = g1.stats(seq, pairs)
        res.case((n, tuple(pairs)), nontrivial=npairs > 0)
        res.count("family:" + tag.split(":")[0].rstrip("0123456789"))
        res.count("n<=8" if n <= 8 else "n<=32" if n <= 32 else "n<=128" if n <= 128 else "n>128")
        inp = {"seq": seq, "pairs": pairs, "family": tag, "calls_before": list(cases[ci][5])}
        exp_text = "\n".join("%d %s %d" % (i + 1, c, p) for i, (c, p) in enumerate(zip(seq, pairs)))
        if o["text"] != ("ok", exp_text):
            res.fail("corr", "C01:text", inp, "str(bpseq)=%r" % (o["text"],))
        if o["fcfs"][0] == "ok":
            if o.get("fcfs_seq") != seq:
                res.fail("spec", "C01:fcfs:sequence", inp, "sequence of the FCFS dot-bracket differs")
            if o.get("reparse") != ("ok", True):
                res.fail("spec", "C01:text:reparse", inp, "from_string(str(b)) != b: %r" % (o.get("reparse"),))
        else:
            res.count("err:fcfs:" + o["fcfs"][1])
        if o["opt"][0] == "skip":
            res.count("opt-skipped(large crossing group)")
        elif o["opt"][0] != "ok":
            res.count("err:opt:" + o["opt"][1])
            # more than 30 levels is outside the quantifier; anything else is a violation
            if not tag.startswith("ladder31"):
                res.fail("spec", "C01:opt:raises:" + o["opt"][1], inp, "dot_bracket raised %s" % o["opt"][1])
        if "all" in o and o["all"][0] == "ok":
            res.count("alldb_members", len(o["all"][1]))
            res.count("alldb_cases")
            if len(set(o["all"][1])) != len(o["all"][1]):
                res.fail("spec", "C01:all:repeat", inp, "all_dot_brackets repeats a member")
    both = list(zip(inputs, outs))
    for (tag, c), o in both[:2] + both[len(both) // 2: len(both) // 2 + 2] + both[-2:]:
        res.sample({"family": tag, "seq": c[0][:40], "pairs": c[1][:40],
                    "opt": o["opt"][1][:40] if o["opt"][0] == "ok" else o["opt"]})

    # ---- every dot-bracket the library produces includes those produced when the solver misbehaves
    from corr.c13 import FAULTS, real as real_fault
    fcases = []
    knotted = [(tag, c) for (tag, c), (_, _, _, want_opt, _, _p) in zip(inputs, cases)
               if want_opt and any(x > 1 for x in (component_sizes(c[1]) or []))]
    rng = ctx.rng
    for tag, (seq, pairs) in rng.sample(knotted, min(len(knotted), ctx.pick(150, 2000))):
        fault = rng.choice(FAULTS[1:])
        cfg = rng.choice(["direct", "cbc", "highs", "none"])
        fcases.append((seq, pairs, cfg, fault if cfg != "none" else "ok"))
    fouts = parallel_map(real_fault, fcases)
    reqs, idx = [], []
    for fi, ((seq, pairs, cfg, fault), o) in enumerate(zip(fcases, fouts)):
        res.count("solver-fault:" + (fault if cfg != "none" else "no-solver"))
        if o["res"][0] == "ok":
            reqs.append(["ss.lossless", seq, g1.pstr(pairs), o["res"][1]]); idx.append(fi)
        else:
            res.fail("spec", "C01:solver-fault:raises:" + o["res"][1], {"seq": seq, "pairs": pairs, "cfg": cfg, "fault": fault},
                     "asking for the dot-bracket raised %s" % o["res"][1])
    for fi, r in zip(idx, D.ask(reqs)):
        seq, pairs, cfg, fault = fcases[fi]
        if r != "ok":
            res.fail("spec", "C01:solver-fault:%s" % r, {"seq": seq, "pairs": pairs, "cfg": cfg, "fault": fault},
                     "dot-bracket produced under solver fault %s/%s is not lossless: %s (%r)" % (cfg, fault, r, fouts[fi]["res"][1]))

    # ---- converse direction: balanced dot-bracket -> BPSEQ -> dot-bracket keeps the set of pairs
    rng = ctx.rng
    dbs = []
    for _ in range(ctx.pick(1500, 20000)):
        n = rng.randint(1, ctx.pick(60, 200))
        dbs.append((g1.seq_for(n, rng), balanced_string(rng, n)))
    douts = parallel_map(real_db, dbs)
    reqs, idx = [], []
    for di, ((seq, st), o) in enumerate(zip(dbs, douts)):
        reqs.append(["ss.decode", st]); idx.append((di, "decode"))
        reqs.append(["ss.fromdb", seq, st]); idx.append((di, "entries"))
        if "pairs" in o:
            for k in ("opt", "fcfs"):
                if o[k][0] == "ok":
                    reqs.append(["ss.lossless", seq, g1.pstr(o["pairs"]), o[k][1]]); idx.append((di, "rt_" + k))
    resp = D.ask(reqs)
    for (di, what), r in zip(idx, resp):
        seq, st = dbs[di]
        o = douts[di]
        inp = {"seq": seq, "structure": st, "family": "balanced-db"}
        if what == "decode":
            impl = ("ok " + o["decode"][1]) if o["decode"][0] == "ok" else "err " + o["decode"][1]
            if impl != r:
                res.fail("corr", "C01:decode", inp, "impl=%r model=%r" % (impl, r))
        elif what == "entries":
            if "entries" in o and r != "ok " + o["entries"]:
                res.fail("corr", "C01:from_dotbracket", inp, "impl=%r model=%r" % (o["entries"], r))
        else:
            if r != "ok":
                res.fail("spec", "C01:roundtrip:%s:%s" % (what, r), inp,
                         "dot-bracket -> BPSEQ -> dot-bracket lost or invented pairs: %s" % r)
    for (seq, st), o in zip(dbs, douts):
        res.case(("db", st), nontrivial=any(c != "." for c in st))
        res.count("family:balanced-db")
        if "pairs" in o:
            dec = set()
            if o["decode"][1]:
                dec = {tuple(map(int, x.split("-"))) for x in o["decode"][1].split(",")}
            got = {(i, p - 1) for i, p in enumerate(o["pairs"]) if p - 1 > i}
            if dec != got:
                res.fail("spec", "C01:from_dotbracket:pairs", {"seq": seq, "structure": st},
                         "decoded pairs %r vs BPSEQ pairs %r" % (sorted(dec)[:10], sorted(got)[:10]))
    res.sample({"family": "balanced-db", "structure": dbs[0][1], "opt": douts[0].get("opt")})
    # glue around the core: faithful writer, BPSEQ / dot-bracket / multi-strand text (harness/corr/c01_extra.py)
    from corr.c01_extra import run_extra
    run_extra(ctx, res)
    # the command-line tool as an observation point (harness/corr/cli_annotator.py)
    cli_annotator.judge(res, "C01", cli_annotator.evaluate(ctx))
    return res


def replay(ctx, data):
    """re-run one stored input through implementation, model and spec predicate"""
    if cli_annotator.is_cli(data.get("input")):
        return cli_annotator.replay_cli("C01", data["input"])
    inp = data["input"]
    from corr.c01_extra import replay_extra
    if replay_extra(ctx, inp):
        return
    if "fault" in inp:
        from corr.c13 import real as real_fault
        o = real_fault((inp["seq"], inp["pairs"], inp["cfg"], inp["fault"]))
        print("impl:", o)
        if o["res"][0] == "ok":
            print("spec lossless:", ctx.driver.ask1("ss.lossless", inp["seq"], g1.pstr(inp["pairs"]), o["res"][1]))
        return
    if "structure" in inp:
        o = real_db((inp["seq"], inp["structure"]))
        print("impl:", o)
        print("model decode:", ctx.driver.ask1("ss.decode", inp["structure"]))
    else:
        o = real((inp["seq"], inp["pairs"], components_ok(inp["pairs"], 8), True, None, tuple(inp.get("calls_before", ()))))
        print("impl:", o)
        ps = g1.pstr(inp["pairs"])
        print("model fcfs:", ctx.driver.ask1("ss.fcfs", inp["seq"], ps))
        for k in ("opt", "fcfs"):
            if o[k][0] == "ok":
                print("spec lossless(%s):" % k, ctx.driver.ask1("ss.lossless", inp["seq"], ps, o[k][1]))

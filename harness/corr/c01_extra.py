"""C01 — the glue around the proved core, brought inside the model.

run_extra(ctx, res) adds to a C01 Result:

* C01:writer:*       the REAL private writer `b._BpSeq__make_dot_bracket(regions, orders)` against the
                     write-by-write model `mkDBwZ` (ss.mkdbw) on arbitrary integer region triples and level
                     vectors: overlaps, j or k = 0 (Python negative indexing), out of range, negative /
                     too large / too few orders, negative lengths; plus regions of valid structures.
* C01:text:*         BpSeq.__str__ / from_string against printBpseqS / parseBpseqW (ss.print, ss.parse) on
                     malformed ASCII text streams; DotBracket.from_string / __str__ / from_file against
                     dbFromString / printDB / dbFromFile; SPEC: from_string(str(b)) == b for valid
                     structures; the FCFS dot-bracket has the structure's sequence and length and survives
                     str -> file -> from_file.
* C01:multistrand:*  MultiStrandDotBracket.from_string (regular expression) against parseMulti (the model of
                     the regex scan, ss.multi) on texts printed by the model (ss.printmulti; these are the
                     instances of theorem `multi_roundtrip`) AND on near-malformed mutations of them.

All texts are ASCII by construction, except a small counted family with non-ASCII characters inside header
lines / sequence tokens (positions where neither whitespace nor digits nor line boundaries are recognised).
"""
import os
import tempfile

from core import call, hexs, parallel_map
from gen import g1

# ---------------------------------------------------------------------------------------------- writer


def real_writer(case):
    n, regs, orders = case
    b = g1.mk_bpseq(g1.seq_for(n), [0] * n)
    r = call(lambda: b._BpSeq__make_dot_bracket([tuple(x) for x in regs], list(orders)))
    if r[0] != "ok":
        return r
    d = r[1]
    return ("ok", d.structure, d.sequence == b.sequence and len(d.structure) == n)


def regions_of(pairs):
    from corr.c01 import stems_of
    return [[s[0][0], s[0][1], len(s)] for s in stems_of(pairs)]


def gen_writer_cases(ctx):
    rng = ctx.rng
    out = []
    # (a) regions of valid structures, untouched (theorem mkDBw_eq_mkDB) and perturbed
    base = list(g1.handmade())
    for _ in range(ctx.pick(250, 4000)):
        base.append(g1.small_dense(rng))
    for _ in range(ctx.pick(250, 4000)):
        base.append(g1.planted(rng, n=rng.randint(6, 60), nstems=rng.randint(1, 8), maxlen=4))
    for _ in range(ctx.pick(150, 2000)):
        base.append(g1.tight(rng))
    for seq, pairs in base:
        n = len(pairs)
        regs = regions_of(pairs)
        r = rng.random()
        lv = [rng.randrange(0, 4) if r < 0.6 else rng.randrange(0, 30) if r < 0.9 else rng.randrange(-31, 33)
              for _ in regs]
        out.append(("valid", (n, regs, lv)))
        if not regs:
            continue
        m = [list(x) for x in regs]
        lv2 = list(lv)
        kind = rng.choice(["shift", "zero", "beyond", "longer", "dup", "shuffle", "few", "many", "neg-order",
                           "big-order", "neg-len", "swap", "shorter-seq"])
        t = rng.randrange(len(m))
        nn = n
        if kind == "shift":
            m[t][rng.randrange(2)] += rng.choice([-2, -1, 1, 2])
        elif kind == "zero":
            m[t][rng.randrange(2)] = rng.choice([0, -1, -n, -n - 1])
        elif kind == "beyond":
            m[t][rng.randrange(2)] = rng.choice([n + 1, n + 2, n])
        elif kind == "longer":
            m[t][2] += rng.randint(1, 3)
        elif kind == "dup":
            m.insert(rng.randrange(len(m) + 1), list(m[t]))
            lv2.insert(0, rng.randrange(0, 4))
        elif kind == "shuffle":
            rng.shuffle(m)
        elif kind == "few":
            lv2 = lv2[: rng.randrange(len(lv2))]
        elif kind == "many":
            lv2 = lv2 + [rng.randrange(0, 40)]
        elif kind == "neg-order":
            lv2[t] = rng.choice([-1, -2, -30, -31])
        elif kind == "big-order":
            lv2[t] = rng.choice([29, 30, 31, 100])
        elif kind == "neg-len":
            m[t][2] = rng.choice([0, -1, -5])
        elif kind == "swap":
            m[t][0], m[t][1] = m[t][1], m[t][0]
        elif kind == "shorter-seq":
            nn = rng.randrange(0, n)
        out.append(("perturbed:" + kind, (nn, m, lv2)))
    # (b) arbitrary small
    for _ in range(ctx.pick(2500, 40000)):
        n = rng.randint(0, 10)
        k = rng.randint(0, 4)
        regs = [[rng.randint(-n - 2, n + 2), rng.randint(-n - 2, n + 2), rng.randint(-1, 4)] for _ in range(k)]
        ln = max(0, k + rng.choice([0, 0, 0, 0, -1, 1]))
        lv = [rng.randrange(0, 3) if rng.random() < 0.85 else rng.randrange(-32, 33) for _ in range(ln)]
        out.append(("arbitrary", (n, regs, lv)))
    return out


def zstr(xs):
    return ",".join(map(str, xs)) if xs else "-"


def rstr(regs):
    return ";".join("%d:%d:%d" % tuple(r) for r in regs) if regs else "-"


def run_writer(ctx, res):
    cases = gen_writer_cases(ctx)
    outs = parallel_map(real_writer, [c for _, c in cases])
    resp = ctx.driver.ask([["ss.mkdbw", str(c[0]), rstr(c[1]), zstr(c[2])] for _, c in cases])
    for (fam, c), o, r in zip(cases, outs, resp):
        impl = ("ok " + o[1]) if o[0] == "ok" else "err " + o[1]
        inp = {"writer": {"n": c[0], "regions": c[1], "orders": c[2]}, "family": fam}
        res.case(("writer", c[0], tuple(map(tuple, c[1])), tuple(c[2])), nontrivial=bool(c[1]))
        res.count("writer:" + fam.split(":")[0])
        res.count("writer:outcome:" + (o[1] if o[0] != "ok" else "ok"))
        if impl != r:
            res.fail("corr", "C01:writer:corr", inp, "impl=%r model=%r" % (impl, r))
        if o[0] == "ok" and not o[2]:
            res.fail("spec", "C01:writer:length", inp, "written dot-bracket does not have the structure's sequence/length")
    res.sample({"family": "writer", "case": cases[-1][1], "impl": outs[-1][:2]})


# ------------------------------------------------------------------------------------------ BPSEQ text

SEPS = [" ", " ", " ", "  ", "\t", " \t ", "\x1f", "\x0b", "\x0c", "\x1c", "   "]
TERMS = ["\n", "\n", "\n", "\r\n", "\r", "\x0b", "\x0c", "\x1c", "\x1d", "\x1e", "\n\n", "\r\r\n", "\n\r", " \n", "\n "]
GOOD_INT = ["0", "1", "7", "12", "007", "+3", "-2", "1_0", "1_2_3", "-0", "00", "4300"]
BAD_INT = ["x", "1.0", "", "--1", "1__0", "_1", "1_", "0x1", "+", "-", "1e3", "+-1", "1-", "N"]
TOKS = ["A", "C", "G", "U", "N", "AC", "a.b", "-", "1", "ACGU", "&", "+1", "_", "x" * 5]


def gen_text(rng, mode):
    """one text stream; mode in well|messy|broken"""
    n = rng.randint(0, 7)
    parts = []
    for i in range(n):
        if mode == "well":
            f = [str(i + 1), rng.choice("ACGU"), str(rng.randint(0, 9))]
            parts.append(" ".join(f) + ("\n" if i + 1 < n or rng.random() < 0.3 else ""))
            continue
        k = 3
        if rng.random() < (0.15 if mode == "messy" else 0.3):
            k = rng.choice([1, 2, 4, 5])
        f = []
        for c in range(k):
            if c in (0, 2):
                bad = mode == "broken" and rng.random() < 0.25
                f.append(rng.choice(BAD_INT) if bad else rng.choice(GOOD_INT + [str(rng.randint(-5, 500))]))
            else:
                f.append(rng.choice(TOKS))
        f = [x for x in f if x != ""] or ["0"]
        line = f[0]
        for x in f[1:]:
            line += rng.choice(SEPS) + x
        if rng.random() < 0.3:
            line = rng.choice([" ", "\t", "  ", "\x1f"]) + line
        if rng.random() < 0.3:
            line += rng.choice([" ", "\t", "  ", "\x1f"])
        if rng.random() < 0.1:
            line = ""
        parts.append(line + (rng.choice(TERMS) if i + 1 < n or rng.random() < 0.5 else ""))
    return "".join(parts)


def real_parse(text):
    import logging
    from rnapolis.common import BpSeq
    cnt = [0]
    orig = logging.warning

    def counting(*a, **k):
        cnt[0] += 1

    logging.warning = counting
    try:
        r = call(lambda: BpSeq.from_string(text))
    finally:
        logging.warning = orig
    if r[0] != "ok":
        return r
    return ("ok", ";".join("%d,%s,%d" % (e.index_, hexs(e.sequence), e.pair) for e in r[1].entries) + "|%d" % cnt[0])


def real_parse_logging(text):
    """the same with the real logging call in place (it must not raise)"""
    import logging
    from rnapolis.common import BpSeq
    old = logging.raiseExceptions
    logging.raiseExceptions = False
    try:
        r = call(lambda: BpSeq.from_string(text))
    finally:
        logging.raiseExceptions = old
    if r[0] != "ok":
        return r
    return ("ok", ";".join("%d,%s,%d" % (e.index_, hexs(e.sequence), e.pair) for e in r[1].entries))


def real_print(entries):
    from rnapolis.common import BpSeq, Entry
    b = BpSeq([Entry(i, s, p) for i, s, p in entries])
    t = call(str, b)
    if t[0] != "ok":
        return {"text": t}
    import logging
    orig = logging.warning
    logging.warning = lambda *a, **k: None
    try:
        back = call(lambda: BpSeq.from_string(t[1]))
    finally:
        logging.warning = orig
    same = back[0] == "ok" and [(e.index_, e.sequence, e.pair) for e in back[1].entries] == [tuple(e) for e in entries]
    return {"text": t, "same": same, "eq": back[0] == "ok" and back[1] == b}


def gen_entries(rng):
    n = rng.randint(0, 6)
    es = []
    for i in range(n):
        r = rng.random()
        tok = rng.choice(TOKS) if r < 0.8 else rng.choice(["", "A B", "A\tB", " A", "A\n", "A\x1fB", "A\x0c"])
        idx = i + 1 if rng.random() < 0.7 else rng.choice([0, -1, -17, 10 ** 6, 123456789012345678901234567890])
        es.append((idx, tok, rng.choice([0, 0, 1, 2, n, -3, 40])))
    return es


def estr(entries):
    return ";".join("%d,%s,%d" % (i, hexs(s), p) for i, s, p in entries) if entries else "-"


def run_bpseq_text(ctx, res):
    rng = ctx.rng
    D = ctx.driver
    texts = []
    for mode, cnt in (("well", ctx.pick(300, 3000)), ("messy", ctx.pick(1500, 20000)), ("broken", ctx.pick(1200, 20000))):
        for _ in range(cnt):
            texts.append((mode, gen_text(rng, mode)))
    texts += [("hand", t) for t in ["", "\n", "\r\n", "1 A 0", "1 A 0\n", "1 A", "1 A 0 0", " 1  A\t0 \r\n2 C 0", "1 A x", "x A 1",
                                    "1 A 0\x0c2 C 0", "1 A 0\x1f2 C 0", "1\x1fA\x1f0", "+1 AC -0", "1_0 A 0_1", "1 A 0\r\r\n2 C 0",
                                    "1 2 3 4\nx\n1 A 0", "1 A\n2 C x\n"]]
    outs = parallel_map(real_parse, [t for _, t in texts])
    resp = D.ask([["ss.parse", hexs(t)] for _, t in texts])
    for (mode, t), o, r in zip(texts, outs, resp):
        assert all(ord(ch) < 128 for ch in t)
        impl = ("ok " + o[1]) if o[0] == "ok" else "err " + o[1]
        res.case(("text", t), nontrivial=len(t.split()) >= 3)
        res.count("text:parse:" + mode)
        res.count("text:parse:outcome:" + ("ok" if o[0] == "ok" else o[1]))
        if o[0] == "ok":
            res.count("text:parse:warnings", int(o[1].rsplit("|", 1)[1]))
        inp = {"bpseq_text": t, "family": "text:" + mode}
        if impl != r:
            res.fail("corr", "C01:text:parse", inp, "impl=%r model=%r" % (impl, r))
        if o[0] != "ok" and o[1] != "ValueError":
            # theorem parse_total: nothing but ValueError
            res.fail("corr", "C01:text:parse:exception", inp, "from_string raised %s" % o[1])
    # the real logging call (not counted, not patched) on the texts that warn
    warn = [t for (_, t), o in zip(texts, outs) if o[0] == "ok" and not o[1].endswith("|0")][: ctx.pick(60, 600)]
    for t, o in zip(warn, [real_parse_logging(t) for t in warn]):
        res.count("text:parse:real-logging-call")
        exp = real_parse(t)
        if o[0] != "ok" or exp[0] != "ok" or o[1] != exp[1].rsplit("|", 1)[0]:
            res.fail("corr", "C01:text:parse:logging", {"bpseq_text": t}, "with the real logging call: %r" % (o,))
    res.sample({"family": "text:broken", "text": texts[-30][1], "impl": outs[-30]})

    # legal records in another layout: the same records with leading / trailing blanks and tabs, tab or multi-blank
    # separators, CRLF line ends and blank lines between them hold the same entries (the statement's "BpSeq.from_string")
    for _ in range(ctx.pick(400, 4000)):
        n = rng.randint(1, 8)
        recs = [(i + 1, rng.choice("ACGUNacgu"), 0) for i in range(n)]
        for _ in range(rng.randint(0, n // 2)):
            a, b = rng.sample(range(n), 2)
            if recs[a][2] == 0 and recs[b][2] == 0:
                recs[a], recs[b] = (a + 1, recs[a][1], b + 1), (b + 1, recs[b][1], a + 1)
        lines = []
        for i, c, p in recs:
            sep1, sep2 = rng.choice([" ", "\t", "   ", " \t"]), rng.choice([" ", "\t", "    "])
            lines.append(rng.choice(["", "", " ", "\t", "   "]) + "%d%s%s%s%d" % (i, sep1, c, sep2, p) + rng.choice(["", "", " ", "  ", "\t", " \t "]))
            if rng.random() < 0.1:
                lines.append(rng.choice(["", "  "]))
        end = rng.choice(["\n", "\r\n"])
        text = end.join(lines) + rng.choice(["", end])
        o = real_parse(text)
        res.count("text:legal-layouts")
        res.case(("layout", text), nontrivial=True)
        want = ";".join("%d,%s,%d" % (i, hexs(c), p) for i, c, p in recs)
        got = o[1].rsplit("|", 1)[0] if o[0] == "ok" else None
        if got != want:
            res.fail("spec", "C01:text:legal-record-not-read", {"bpseq_text": text, "family": "text:legal-layouts"},
                     "records %s laid out with extra blanks / tabs / CRLF are read as %r" % (recs, o[1][:200] if o[0] == "ok" else o))
    # more than 10 000 records: printing writes one line per record, and reading the text back gives the records
    from rnapolis.common import BpSeq, Entry
    for n in ([10001 + rng.randint(0, 30)] if ctx.quick else [10001 + rng.randint(0, 30), 20001 + rng.randint(0, 30), 9999, 10000]):
        ents_big = [Entry(i + 1, "ACGU"[i % 4], 0) for i in range(n)]
        ents_big[0], ents_big[n - 1] = Entry(1, "G", n), Entry(n, "C", 1)
        big = BpSeq(ents_big)
        text = call(lambda: str(big))
        want = "\n".join("%d %s %d" % (e.index_, e.sequence, e.pair) for e in ents_big)
        res.count("text:print:long(>10000 records)")
        res.case(("print-long", n), nontrivial=True)
        if text[0] != "ok" or text[1].strip("\n") != want:
            bad = next((k for k, (a, b) in enumerate(zip(text[1].split("\n"), want.split("\n"))) if a != b), None) if text[0] == "ok" else None
            res.fail("spec", "C01:text:print-long", {"family": "text:print-long", "n": n},
                     "str() of %d records: %s" % (n, ("line %d is %r" % (bad + 1, text[1].split("\n")[bad][:60])) if bad is not None else text[1][:80] if text[0] == "ok" else text))
        else:
            back = call(lambda: BpSeq.from_string(text[1]))
            if back[0] != "ok" or back[1] != big:
                res.fail("spec", "C01:text:reparse-long", {"family": "text:print-long", "n": n}, "from_string(str(b)) != b for %d records" % n)
    # printing + model round trip on arbitrary entries
    ents = [gen_entries(rng) for _ in range(ctx.pick(1500, 20000))]
    pouts = parallel_map(real_print, ents)
    reqs = []
    for e in ents:
        reqs.append(["ss.print", estr(e)])
        reqs.append(["ss.wf", estr(e)])
    resp = D.ask(reqs)
    for k, (e, o) in enumerate(zip(ents, pouts)):
        mtext, wf = resp[2 * k], resp[2 * k + 1]
        res.case(("print", tuple(e)), nontrivial=bool(e))
        res.count("text:print:" + ("wellformed" if wf == "true" else "not-wellformed"))
        inp = {"entries": [list(x) for x in e], "family": "text:print"}
        if o["text"][0] != "ok":
            res.count("text:print:raises:" + o["text"][1])
            continue
        if hexs(o["text"][1]) != mtext:
            res.fail("corr", "C01:text:print", inp, "impl=%r model(hex)=%r" % (o["text"][1], mtext))
        if wf == "true" and not o["same"]:
            # theorem bpseq_text_roundtrip says the MODEL round-trips; the code differing is a model/code gap
            res.fail("corr", "C01:text:roundtrip-wellformed", inp, "from_string(str(b)) differs for well-formed entries")


def real_valid(case):
    """SPEC on valid structures: text round trip, FCFS dot-bracket has the sequence and length, file round trip"""
    seq, pairs = case
    from rnapolis.common import BpSeq, DotBracket
    b = g1.mk_bpseq(seq, pairs)
    out = {}
    t = call(lambda: BpSeq.from_string(str(b)))
    out["reparse"] = t[0] == "ok" and t[1] == b and [tuple(e) for e in t[1].entries] == [tuple(e) for e in b.entries]
    d = call(lambda: b.fcfs)
    if d[0] == "ok":
        d = d[1]
        out["seqlen"] = d.sequence == seq and len(d.structure) == len(pairs) and len(d.sequence) == len(d.structure)
        if len(seq) > 0:
            fd, path = tempfile.mkstemp(prefix="c01x", suffix=".dbn")
            try:
                with os.fdopen(fd, "w") as f:
                    f.write(str(d))
                d2 = call(lambda: DotBracket.from_file(path))
            finally:
                os.unlink(path)
            out["file"] = d2[0] == "ok" and d2[1] == d and d2[1].pairs == d.pairs
            b2 = call(lambda: BpSeq.from_dotbracket(d2[1])) if d2[0] == "ok" else d2
            out["file_back"] = b2[0] == "ok" and b2[1] == b
    return out


def run_valid_spec(ctx, res):
    rng = ctx.rng
    cases = list(g1.handmade()) + [c for _, c in g1.corpus()]
    cases += list(g1.exhaustive(ctx.pick(5, 7)))
    for _ in range(ctx.pick(400, 6000)):
        cases.append(g1.planted(rng, n=rng.randint(2, ctx.pick(80, 300))))
    for _ in range(ctx.pick(300, 4000)):
        cases.append(g1.small_dense(rng))
    outs = parallel_map(real_valid, cases)
    for (seq, pairs), o in zip(cases, outs):
        res.case(("valid-text", len(pairs), tuple(pairs)), nontrivial=any(pairs))
        res.count("text:valid-structure-roundtrips")
        inp = {"seq": seq, "pairs": pairs, "family": "text:valid"}
        if not o["reparse"]:
            res.fail("spec", "C01:text:reparse", inp, "from_string(str(b)) != b for a valid structure")
        if o.get("seqlen") is False:
            res.fail("spec", "C01:text:fcfs-sequence-length", inp, "FCFS dot-bracket: sequence or length differ from the structure's")
        if o.get("file") is False or o.get("file_back") is False:
            res.fail("spec", "C01:text:db-file-roundtrip", inp, "str(dot-bracket) -> file -> from_file -> from_dotbracket lost something: %r" % (o,))


# ------------------------------------------------------------------------------------- dot-bracket text

DBCH = ".....((()))[]{}<>AaBb"


def real_dbstr(case):
    s, t = case
    from rnapolis.common import DotBracket
    r = call(lambda: DotBracket.from_string(s, t))
    if r[0] != "ok":
        return r
    d = r[1]
    return ("ok", "%s %s %s" % (hexs(d.sequence), hexs(d.structure), ",".join("%d-%d" % p for p in d.pairs)), str(d))


def real_dbfile(text):
    from rnapolis.common import DotBracket
    fd, path = tempfile.mkstemp(prefix="c01x", suffix=".dbn")
    try:
        with os.fdopen(fd, "wb") as f:
            f.write(text.encode("ascii"))
        r = call(lambda: DotBracket.from_file(path))
    finally:
        os.unlink(path)
    if r[0] != "ok":
        return r
    d = r[1]
    return ("ok", "%s %s %s" % (hexs(d.sequence), hexs(d.structure), ",".join("%d-%d" % p for p in d.pairs)))


def norm_err(name):
    return "other" if name.startswith("other") else name


def run_db_text(ctx, res):
    rng = ctx.rng
    D = ctx.driver
    from corr.c01 import balanced_string
    pairs = []
    for _ in range(ctx.pick(800, 10000)):
        n = rng.randint(0, 14)
        st = balanced_string(rng, n, 4) if rng.random() < 0.5 else "".join(rng.choice(DBCH) for _ in range(n))
        m = n if rng.random() < 0.75 else max(0, n + rng.choice([-1, 1, 2]))
        pairs.append((g1.seq_for(m, rng), st))
    outs = parallel_map(real_dbstr, pairs)
    reqs = []
    for s, t in pairs:
        reqs.append(["ss.dbstr", hexs(s), hexs(t)])
        reqs.append(["ss.dbprint", hexs(s), hexs(t)])
    resp = D.ask(reqs)
    for k, ((s, t), o) in enumerate(zip(pairs, outs)):
        impl = ("ok " + o[1]) if o[0] == "ok" else "err " + norm_err(o[1])
        res.case(("dbstr", s, t), nontrivial=any(c != "." for c in t))
        res.count("text:dbstr:outcome:" + ("ok" if o[0] == "ok" else o[1]))
        inp = {"db_sequence": s, "db_structure": t, "family": "text:dbstr"}
        if impl != resp[2 * k]:
            res.fail("corr", "C01:text:db-from-string", inp, "impl=%r model=%r" % (impl, resp[2 * k]))
        if o[0] == "ok" and hexs(o[2]) != resp[2 * k + 1]:
            res.fail("corr", "C01:text:db-str", inp, "impl=%r model(hex)=%r" % (o[2], resp[2 * k + 1]))
    # file texts
    texts = []
    for _ in range(ctx.pick(700, 8000)):
        n = rng.randint(0, 10)
        s = g1.seq_for(n, rng)
        t = balanced_string(rng, n, 3) if rng.random() < 0.7 else "".join(rng.choice(DBCH) for _ in range(max(0, n + rng.choice([0, 0, 1, -1]))))
        lines = [s, t]
        r = rng.random()
        if r < 0.35:
            lines = [">" + rng.choice(["x", "strand A", ""])] + lines
        elif r < 0.45:
            lines = lines[:1]
        elif r < 0.55:
            lines = lines + [rng.choice(["", "extra", " "])]
        elif r < 0.6:
            lines = [">h", ">g"] + lines
        nl = rng.choice(["\n", "\n", "\n", "\r\n", "\r"])
        text = ""
        for i, l in enumerate(lines):
            if rng.random() < 0.2:
                l += rng.choice([" ", "\t", "  ", "\x1f", "\x0c"])
            if rng.random() < 0.05:
                l = " " + l
            text += l + (nl if i + 1 < len(lines) or rng.random() < 0.6 else "")
        if rng.random() < 0.05:
            text += nl
        if rng.random() < 0.05:
            text = text.replace(nl, rng.choice(["\n\r", "\r\r\n", "\x0b"]), 1)
        texts.append(text)
    outs = parallel_map(real_dbfile, texts)
    resp = D.ask([["ss.dbfile", hexs(t)] for t in texts])
    for t, o, r in zip(texts, outs, resp):
        impl = ("ok " + o[1]) if o[0] == "ok" else "err " + norm_err(o[1])
        res.case(("dbfile", t), nontrivial=True)
        res.count("text:dbfile:outcome:" + ("ok" if o[0] == "ok" else o[1]))
        if impl != r:
            res.fail("corr", "C01:text:db-from-file", {"db_file_text": t, "family": "text:dbfile"}, "impl=%r model=%r" % (impl, r))
    res.sample({"family": "text:dbfile", "text": texts[0], "impl": outs[0]})


# ---------------------------------------------------------------------------------------- multi-strand

def real_multi(text):
    from rnapolis.common import MultiStrandDotBracket
    r = call(lambda: MultiStrandDotBracket.from_string(text))
    if r[0] != "ok":
        return r
    m = r[1]
    strands = ";".join("%d:%d:%s:%s" % (s.first, s.last, hexs(s.sequence), hexs(s.structure)) for s in m.strands)
    joined = (m.sequence == "".join(s.sequence for s in m.strands) and m.structure == "".join(s.structure for s in m.strands)
              and len(m.sequence) == len(m.structure))
    consecutive = all(a.last + 1 == b.first for a, b in zip(m.strands, m.strands[1:])) and (not m.strands or m.strands[0].first == 1)
    return ("ok", strands, joined and consecutive, m.sequence, m.structure)


MUT_CH = "x >\n\r\t;(aA.-N)]*1" + "é"


def mutate(rng, text):
    k = rng.choice(["del", "ins", "dropnl", "dupline", "crlf", "trail", "lead", "swapcase", "cut", "two"])
    if k == "two":
        return mutate(rng, mutate(rng, text))
    if not text:
        return rng.choice(MUT_CH)
    p = rng.randrange(len(text))
    if k == "del":
        return text[:p] + text[p + 1:]
    if k == "ins":
        return text[:p] + rng.choice(MUT_CH) + text[p:]
    if k == "dropnl":
        q = text.find("\n", p)
        return text if q < 0 else text[:q] + text[q + 1:]
    if k == "dupline":
        ls = text.split("\n")
        i = rng.randrange(len(ls))
        return "\n".join(ls[: i + 1] + ls[i:])
    if k == "crlf":
        return text.replace("\n", "\r\n")
    if k == "trail":
        return text + rng.choice(["\n", "\n\n", " ", "\r\n", "\n>"])
    if k == "lead":
        return rng.choice(["\n", " ", ">", ">>", "#c\n"]) + text
    if k == "swapcase":
        return text[:p] + text[p:].swapcase()
    return text[:p]


def run_multi(ctx, res):
    rng = ctx.rng
    D = ctx.driver
    SEQCH = "ACGUacguTNRY.-"
    recsets = []
    base = list(g1.handmade())
    for _ in range(ctx.pick(500, 8000)):
        base.append(g1.planted(rng, n=rng.randint(2, 50), nstems=rng.randint(0, 6), maxlen=4))
    for _ in range(ctx.pick(300, 4000)):
        base.append(g1.tight(rng))
    from rnapolis.common import BpSeq  # noqa: F401
    fc = parallel_map(_fcfs_of, base)
    valid_sets = []
    for (seq, pairs), st in zip(base, fc):
        if st is None or len(seq) == 0:
            continue
        k = rng.randint(1, min(4, len(seq)))
        cuts = sorted(rng.sample(range(1, len(seq)), k - 1)) if k > 1 else []
        recs = []
        for a, b in zip([0] + cuts, cuts + [len(seq)]):
            hdr = None if rng.random() < 0.4 else rng.choice(["strand_%d" % len(recs), "", "A B", ">x", "1abc:A|PDBID"])
            recs.append((hdr, seq[a:b], st[a:b]))
        valid_sets.append((seq, pairs, st, recs))
        recsets.append(("from-structure", recs))
    for _ in range(ctx.pick(400, 5000)):
        recs = []
        for _ in range(rng.randint(0, 4)):
            n = rng.randint(1, 8)
            s = "".join(rng.choice(SEQCH) for _ in range(n))
            t = "".join(rng.choice("..()[]{}<>AaBb") for _ in range(n if rng.random() < 0.9 else n + 1))
            hdr = None if rng.random() < 0.5 else rng.choice(["h", "", "a b", "é"])
            recs.append((hdr, s, t))
        recsets.append(("random-records", recs))

    def recstr(recs):
        return ";".join("%s,%s,%s" % ("*" if h is None else hexs(h), hexs(s), hexs(t)) for h, s, t in recs) if recs else "-"

    pr = D.ask([["ss.printmulti", recstr(r)] for _, r in recsets])
    texts = []   # (family, text, expected strands or None)
    for (fam, recs), p in zip(recsets, pr):
        hx, wf, exp = (p.split(" ") + [""])[:3]
        text = "" if hx == "-" else bytes.fromhex(hx).decode("utf-8")
        texts.append((fam + (":wf" if wf == "true" else ":not-wf"), text, exp if wf == "true" else None))
        for _ in range(2):
            texts.append(("mutated", mutate(rng, text), None))
    texts += [("hand", t, None) for t in ["", "\n", ">", ">\n", "ACGU", "ACGU\n", "ACGU\n....", "ACGU\n....\n", "xxACGU\n....yy", ">h\nACGU\n(..)",
                                          ">h\n>g\nACGU\n(..)", "ACGU\nACGU\n(..)", "ACGU\n(.)", "ACGU\nacgu", "AC\n()\nGU\n)(", ">ACGU\n....",
                                          "AC GU\n.. ..", "ACGU\r\n....", "ACGU\n\n....", "-.\n.."]]
    outs = parallel_map(real_multi, [t for _, t, _ in texts])
    resp = D.ask([["ss.multi", hexs(t)] for _, t, _ in texts])
    nonascii = 0
    for (fam, t, exp), o, r in zip(texts, outs, resp):
        if any(ord(ch) >= 128 for ch in t):
            nonascii += 1
        impl = ("ok " + o[1]) if o[0] == "ok" else "err " + norm_err(o[1])
        res.case(("multi", t), nontrivial="\n" in t)
        res.count("multistrand:" + fam)
        res.count("multistrand:outcome:" + ("ok" if o[0] == "ok" else o[1]))
        inp = {"multistrand_text": t, "family": "multistrand:" + fam}
        if impl != r:
            res.fail("corr", "C01:multistrand:corr", inp, "impl=%r model=%r" % (impl, r))
        if exp is not None and o[0] == "ok" and o[1] != exp:
            # instance of theorem multi_roundtrip: the printed well-formed records come back, numbered consecutively
            res.fail("corr", "C01:multistrand:roundtrip", inp, "impl=%r expected=%r" % (o[1], exp))
        if o[0] == "ok" and not o[2]:
            res.fail("spec", "C01:multistrand:joined", inp, "joined sequence/structure differ from the strands' or numbering is not consecutive")
    res.dist["multistrand:texts-with-non-ascii"] = nonascii
    # SPEC: a valid structure's dot-bracket cut into strands is read back as that dot-bracket
    k = 0
    for (fam, t, exp), o in zip(texts, outs):
        if fam.startswith("from-structure"):
            seq, pairs, st, recs = valid_sets[k]
            k += 1
            if o[0] != "ok" or o[3] != seq or o[4] != st:
                res.fail("spec", "C01:multistrand:valid-structure", {"seq": seq, "pairs": pairs, "multistrand_text": t},
                         "multi-strand text of a valid structure's dot-bracket is not read back: %r" % (o[:2],))
    res.sample({"family": "multistrand:mutated", "text": texts[5][1], "impl": outs[5][:2]})


def _fcfs_of(case):
    seq, pairs = case
    r = call(lambda: g1.mk_bpseq(seq, pairs).fcfs.structure)
    return r[1] if r[0] == "ok" else None


# ------------------------------------------------------------------------------------------------ entry

def run_extra(ctx, res):
    run_writer(ctx, res)
    run_bpseq_text(ctx, res)
    run_valid_spec(ctx, res)
    run_db_text(ctx, res)
    run_multi(ctx, res)
    res.rule += (" || glue: writer = integer region triples/level vectors (valid, perturbed, arbitrary), non-trivial = has a region; "
                 "text = ASCII BPSEQ streams (well/messy/broken), entry lists, dot-bracket strings and file texts; "
                 "multistrand = model-printed records + two mutations each + hand-made; distinct by the text itself")
    return res


def replay_extra(ctx, inp):
    """re-run one stored glue input; returns True when the input belonged to this module"""
    D = ctx.driver
    if inp.get("family") == "text:print-long":
        from rnapolis.common import BpSeq, Entry
        n = inp["n"]
        es = [Entry(i + 1, "ACGU"[i % 4], 0) for i in range(n)]
        es[0], es[n - 1] = Entry(1, "G", n), Entry(n, "C", 1)
        t = str(BpSeq(es)).split("\n")
        print("%d records printed as %d lines; longest line %r" % (n, len([x for x in t if x]), max(t, key=len)[:80]))
    elif "writer" in inp:
        w = inp["writer"]
        print("impl:", real_writer((w["n"], w["regions"], w["orders"])))
        print("model:", D.ask1("ss.mkdbw", str(w["n"]), rstr(w["regions"]), zstr(w["orders"])))
    elif "bpseq_text" in inp:
        print("impl:", real_parse(inp["bpseq_text"]))
        print("model:", D.ask1("ss.parse", hexs(inp["bpseq_text"])))
    elif "entries" in inp:
        e = [tuple(x) for x in inp["entries"]]
        print("impl:", real_print(e))
        print("model(hex):", D.ask1("ss.print", estr(e)), "wf:", D.ask1("ss.wf", estr(e)))
    elif "db_sequence" in inp:
        print("impl:", real_dbstr((inp["db_sequence"], inp["db_structure"])))
        print("model:", D.ask1("ss.dbstr", hexs(inp["db_sequence"]), hexs(inp["db_structure"])))
    elif "db_file_text" in inp:
        print("impl:", real_dbfile(inp["db_file_text"]))
        print("model:", D.ask1("ss.dbfile", hexs(inp["db_file_text"])))
    elif "multistrand_text" in inp:
        print("impl:", real_multi(inp["multistrand_text"]))
        print("model:", D.ask1("ss.multi", hexs(inp["multistrand_text"])))
    elif inp.get("family") == "text:valid":
        print("impl:", real_valid((inp["seq"], inp["pairs"])))
    else:
        return False
    return True

"""C02 — pseudoknot order assignment is a proper and optimal level assignment.

(i)  Formulation (functional): a spy `pulp.LpSolver` handed to `convert_to_dot_bracket` captures the
     LpProblem; after canonicalisation (variables by (region, level), constraints as sets, both
     orientations of an adjacency constraint identified, duplicates ignored) it must equal the Lean
     `milp` of the same regions (`ss.milp`) — the program the theorem `milp_optimal_is_global` is about.
(ii) Result (relational): the levels read off `dot_bracket.structure` must be proper and reach the exact
     optimum computed by the model's independent branch-and-bound (`ss.check_levels`); this also guards
     the solver assumption and the `varValue == 1` read-back.  Consequences stated in the property are
     checked directly: knot-free => round brackets only, Grundy (no stem can move down), >= FCFS.
"""
import pulp

from core import history_probe, call_timed, Result, call, parallel_map
from gen import g1
from corr import cli_annotator
from corr.c01 import component_sizes, stems_of


class Capture(pulp.LpSolver):
    name = "CAPTURE"

    def __init__(self):
        super().__init__(msg=False)
        self.form = None

    def available(self):
        return True

    def actualSolve(self, lp, **kw):
        f = {"sense": lp.sense, "vars": [], "obj": {}, "eq": [], "le": [], "other": []}
        for v in lp.variables():
            f["vars"].append((v.getName(), v.lowBound, v.upBound, v.cat))
        for v, c in lp.objective.items():
            f["obj"][v.getName()] = c
        f["obj_const"] = lp.objective.constant
        for _, con in lp.constraints.items():
            terms = sorted((v.getName(), c) for v, c in con.items())
            rec = (terms, con.sense, -con.constant)
            if con.sense == pulp.LpConstraintEQ:
                f["eq"].append(rec)
            elif con.sense == pulp.LpConstraintLE:
                f["le"].append(rec)
            else:
                f["other"].append(rec)
        self.form = f
        return pulp.PULP_CBC_CMD(msg=False).actualSolve(lp)


def canon_impl(f):
    """canonical text of the captured program, comparable with ss.milp"""
    def key(name):
        _, i, o = name.split("_")
        return (int(i), int(o))
    problems = []
    if f["sense"] != pulp.LpMaximize:
        problems.append("sense")
    for name, lo, up, cat in f["vars"]:
        if (lo, up, cat) != (0, 1, pulp.LpInteger):
            problems.append("var-domain:%s" % name)
    if f["other"] or f["obj_const"]:
        problems.append("unexpected-constraint-or-constant")
    n = 1 + max(key(v[0])[0] for v in f["vars"])
    mo = 1 + max(key(v[0])[1] for v in f["vars"])
    obj = {key(k): v for k, v in f["obj"].items()}
    for name, *_ in f["vars"]:
        obj.setdefault(key(name), 0)
    eq = set()
    for terms, _, rhs in f["eq"]:
        if rhs != 1 or any(c != 1 for _, c in terms):
            problems.append("eq-shape")
        eq.add(frozenset(key(v) for v, _ in terms))
    le = set()
    for terms, _, rhs in f["le"]:
        if rhs != 1 or any(c != 1 for _, c in terms) or len(terms) != 2:
            problems.append("le-shape")
        le.add(frozenset(key(v) for v, _ in terms))
    return {"n": n, "mo": mo, "obj": obj, "eq": eq, "le": le, "problems": problems}


def canon_model(r):
    if r == "none":
        return None
    n, mo, obj, one, adj = (r.split(" ") + ["", "", ""])[:5]

    def key(s):
        i, o = s.split("_")
        return (int(i), int(o))
    objd = {}
    for t in obj.split(","):
        k, c = t.split(":")
        objd[key(k)] = int(c)
    eq = {frozenset(key(x) for x in row.split(",")) for row in one.split(";") if row}
    le = {frozenset(key(x) for x in t.split("+")) for t in adj.split(";") if t}
    return {"n": int(n), "mo": int(mo), "obj": objd, "eq": eq, "le": le}


def real(case):
    seq, pairs = case
    b = g1.mk_bpseq(seq, pairs)
    cap = Capture()
    out = {}
    out["spy"] = call_timed(lambda: b.convert_to_dot_bracket(cap).structure)
    out["form"] = canon_impl(cap.form) if cap.form is not None else None
    out["opt"] = call_timed(lambda: g1.mk_bpseq(seq, pairs).dot_bracket.structure)
    out["fcfs"] = call(lambda: g1.mk_bpseq(seq, pairs).fcfs.structure)
    # 'the' notation of an object that was first asked through the other public entry points: the conversion without a
    # solver (documented: first-come-first-served), the FCFS notation, a conversion whose solver fails
    def after(first):
        o = g1.mk_bpseq(seq, pairs)
        call(lambda: first(o))
        return call_timed(lambda: o.dot_bracket.structure)
    import pulp

    class Failing(pulp.LpSolver):
        name = "FAILING"

        def available(self):
            return True

        def actualSolve(self, lp, **kw):
            raise pulp.PulpSolverError("injected")
    out["opt_after_none"] = after(lambda o: o.convert_to_dot_bracket(None))
    out["opt_after_fcfs"] = after(lambda o: o.fcfs)
    out["opt_after_fault"] = after(lambda o: o.convert_to_dot_bracket(Failing(msg=False)))
    return out


HISTORY_KEYS = ("opt_after_none", "opt_after_fcfs", "opt_after_fault")
CLIQUE_LENGTHS = {}


def clique_optimum(lengths):
    srt = sorted(lengths, reverse=True)
    return srt[0] - sum(k * L for k, L in enumerate(srt) if k >= 1)


def clique_score(lengths, levels):
    return sum(L if lv == 0 else -lv * L for L, lv in zip(lengths, levels))


def real_plain(case):
    o = real(case)
    return {k: o[k] for k in ("spy", "opt", "fcfs") + HISTORY_KEYS}


def real_derived(case):
    """'the' notation of objects that are RESULTS of derivations of an object whose own notation was computed before"""
    seq, pairs = case
    b = g1.mk_bpseq(seq, pairs)
    call_timed(lambda: b.dot_bracket.structure)
    out = []
    for name in ("without_isolated", "without_pseudoknots"):
        d = call(lambda: getattr(b, name)())
        if d[0] != "ok":
            out.append((name, None, None, ("err", d[1])))
            continue
        d = d[1]
        out.append((name, "".join(e.sequence for e in d.entries), [e.pair for e in d.entries], call_timed(lambda: d.dot_bracket.structure)))
    return out


def derived_objects(ctx, res, inputs):
    """a derived object (isolated pairs removed, pseudoknots removed) is a structure of its own: its notation must be
    optimal for the pairs IT holds, whatever was computed for its parent"""
    rng = ctx.rng
    pool = [c for tag, c, sizes in inputs if any(x > 1 for x in sizes) and not tag.startswith("clique")]
    pool = rng.sample(pool, min(len(pool), ctx.pick(400, 4000)))
    outs = parallel_map(real_derived, pool)
    reqs, idx = [], []
    for (seq, pairs), o in zip(pool, outs):
        for name, dseq, dpairs, r in o:
            res.count("derived:" + name)
            inp = {"seq": seq, "pairs": pairs, "family": "derived:" + name}
            if r[0] == "slow":
                continue
            if r[0] != "ok":
                res.fail("spec", "C02:derived:%s:raises:%s" % (name, r[1]), inp, "raised %s" % r[1])
                continue
            sizes = component_sizes(dpairs)
            if sizes is None or max(sizes or [0]) > 9:
                continue
            reqs.append(["ss.levels", dseq, g1.pstr(dpairs), r[1]]); idx.append((inp, name, dseq, dpairs, r[1]))
    lv = ctx.driver.ask(reqs)
    reqs2, idx2 = [], []
    for (inp, name, dseq, dpairs, text), l in zip(idx, lv):
        if "-" in l.split(","):
            res.fail("spec", "C02:derived:%s:stem-without-bracket" % name, inp, "notation %r of the derived object" % text)
            continue
        reqs2.append(["ss.check_levels", dseq, g1.pstr(dpairs), l or "-"]); idx2.append((inp, name, dpairs, text))
    for (inp, name, dpairs, text), r in zip(idx2, ctx.driver.ask(reqs2)):
        d = dict(x.split("=") for x in r.split(" "))
        res.case(("derived", name, tuple(dpairs)), nontrivial=any(dpairs))
        if d["proper"] != "true":
            res.fail("spec", "C02:derived:%s:improper" % name, inp, "crossing stems of the derived object share a level in %r" % text)
        elif int(d["score"]) != int(d["opt"]):
            res.fail("spec", "C02:derived:%s:not-optimal" % name, inp,
                     "the object returned by %s() holds pairs %s; its notation %r has objective %s, the optimum is %s" % (name, g1.pstr(dpairs)[:80], text, d["score"], d["opt"]))


def build_inputs(ctx):
    rng = ctx.rng
    inputs = [("hand", c) for c in g1.handmade()] + [("corpus:" + n, c) for n, c in g1.corpus()]
    nmax = ctx.pick(8, 10)
    inputs += [("exh", c) for c in g1.exhaustive(nmax)]
    for _ in range(ctx.pick(1200, 20000)):
        inputs.append(("planted", g1.planted(rng, n=rng.randint(10, ctx.pick(160, 400)))))
    for _ in range(ctx.pick(1200, 15000)):
        inputs.append(("dense", g1.small_dense(rng)))
    for _ in range(ctx.pick(800, 10000)):
        inputs.append(("tight", g1.tight(rng)))
    for k in range(2, ctx.pick(7, 9)):
        inputs.append(("ladder%d" % k, g1.ladder(k, stemlen=rng.randint(1, 3), gap=rng.randint(0, 1))))
    # stems of unequal lengths in small dense conflict graphs (where the objective's weights matter)
    for _ in range(ctx.pick(600, 8000)):
        inputs.append(("weighted", g1.planted(rng, nstems=rng.randint(3, 8), maxlen=7, n=rng.randint(16, 60))))
    out = []
    for tag, (seq, pairs) in inputs:
        sizes = component_sizes(pairs)
        if sizes is not None and max(sizes or [0]) <= ctx.pick(8, 9):
            out.append((tag, (seq, pairs), sizes))
    # large groups of mutually crossing stems of distinct lengths (10-12 levels needed): the exact optimum of a
    # complete conflict graph has a closed form (longest stem on level 0, next on level 1, ...), so these are judged
    # without the model's branch and bound
    for k in ([10, 11] if ctx.quick else [10, 11, 12, 12]):
        lengths = rng.sample(range(1, 3 * k), k)
        out.append(("clique%d" % k, g1.clique(lengths, gap=rng.randint(0, 1), rng=rng), [k]))
        CLIQUE_LENGTHS[tuple(out[-1][1][1])] = lengths
    return out, nmax


def run(ctx):
    res = Result("C02")
    res.rule = ("inputs: hand-made + corpus + every symmetric pairing on n<=N + planted-stem random + dense random + ladders + "
                "weighted small knots; groups of crossing stems of at most 8 (quick) / 9 stems so that the exact optimum is cheap; "
                "non-trivial = at least one crossing (the MILP is actually built and solved); distinct by (length, pairing)")
    inputs, nmax = build_inputs(ctx)
    res.dist["exhaustive_nmax"] = nmax
    outs = parallel_map(real, [c for _, c, _ in inputs])
    history_probe(ctx, res, real_plain, [c for _, c, _ in inputs], "convert")
    reqs, idx = [], []
    for ci, ((tag, (seq, pairs), sizes), o) in enumerate(zip(inputs, outs)):
        ps = g1.pstr(pairs)
        reqs.append(["ss.milp", seq, ps]); idx.append((ci, "milp"))
        for k in ("opt", "spy", "fcfs") + HISTORY_KEYS:
            if o[k][0] == "ok":
                reqs.append(["ss.levels", seq, ps, o[k][1]]); idx.append((ci, "lv_" + k))
    resp = ctx.driver.ask(reqs)
    levels = {}
    for (ci, what), r in zip(idx, resp):
        tag, (seq, pairs), sizes = inputs[ci]
        o = outs[ci]
        inp = {"seq": seq, "pairs": pairs, "family": tag}
        if what == "milp":
            m = canon_model(r)
            f = o["form"]
            if (m is None) != (f is None):
                res.fail("corr", "C02:milp:early-return", inp, "model milp=%r, solver consulted=%r" % (r[:80], f is not None))
            elif m is not None:
                if f["problems"]:
                    res.fail("corr", "C02:milp:shape", inp, "captured program has unexpected shape: %r" % f["problems"][:5])
                for k in ("n", "mo", "obj", "eq", "le"):
                    if m[k] != f[k]:
                        res.fail("corr", "C02:milp:%s" % k, inp, "formulation differs in %s: impl=%r model=%r" % (k, str(f[k])[:300], str(m[k])[:300]))
                        break
        else:
            levels[(ci, what[3:])] = r
    reqs, idx = [], []
    for (ci, k), lv in levels.items():
        tag, (seq, pairs), sizes = inputs[ci]
        if "-" in lv.split(","):
            res.fail("spec", "C02:%s:stem-without-bracket" % k, {"seq": seq, "pairs": pairs}, "levels=%r" % lv)
            continue
        if tag.startswith("clique"):
            continue        # judged by the closed form below (the model's exact optimiser is exponential here)
        reqs.append(["ss.check_levels", seq, g1.pstr(pairs), lv or "-"]); idx.append((ci, k, lv))
    resp = ctx.driver.ask(reqs)
    score = {}
    for (ci, k, lv), r in zip(idx, resp):
        d = dict(x.split("=") for x in r.split(" "))
        score[(ci, k)] = d
    for ci, ((tag, (seq, pairs), sizes), o) in enumerate(zip(inputs, outs)):
        knotted = any(s > 1 for s in sizes)
        n, npairs = g1.stats(seq, pairs)
        res.case((n, tuple(pairs)), nontrivial=knotted)
        res.count("family:" + tag.split(":")[0].rstrip("0123456789"))
        res.count("maxgroup=%d" % max(sizes or [0]))
        inp = {"seq": seq, "pairs": pairs, "family": tag}
        for k in ("opt", "spy") + HISTORY_KEYS:
            if o[k][0] == "slow":
                res.count("solver-slow:" + k)       # the external solver needed longer than the harness waits: not judged
                continue
            if o[k][0] != "ok":
                res.fail("spec", "C02:%s:raises:%s" % (k, o[k][1]), inp, "raised %s" % o[k][1])
                continue
            if tag.startswith("clique"):
                lens = CLIQUE_LENGTHS[tuple(pairs)]
                lv = levels.get((ci, k))
                if lv is None or "-" in lv.split(","):
                    continue
                lvs = [int(x) for x in lv.split(",")]
                if len(set(lvs)) != len(lvs):
                    res.fail("spec", "C02:%s:improper" % k, inp, "mutually crossing stems share a level in %r" % o[k][1])
                elif clique_score(lens, lvs) != clique_optimum(lens):
                    res.fail("spec", "C02:%s:not-optimal" % k, inp, "objective %d of %r; %d mutually crossing stems of lengths %r have optimum %d"
                             % (clique_score(lens, lvs), o[k][1], len(lens), lens, clique_optimum(lens)))
                continue
            d = score.get((ci, k))
            if d is None:
                continue
            if d["proper"] != "true":
                res.fail("spec", "C02:%s:improper" % k, inp, "crossing stems share a level in %r" % o[k][1])
            elif int(d["score"]) != int(d["opt"]):
                res.fail("spec", "C02:%s:not-optimal" % k, inp, "objective %s of %r, exact optimum over all proper assignments is %s" % (d["score"], o[k][1], d["opt"]))
            elif d["grundy"] != "true":
                res.fail("spec", "C02:%s:stem-could-move-down" % k, inp, "%r" % o[k][1])
            fd = score.get((ci, "fcfs"))
            if fd is not None and int(d["score"]) < int(fd["score"]):
                res.fail("spec", "C02:%s:worse-than-fcfs" % k, inp, "%s < %s" % (d["score"], fd["score"]))
            if not knotted and set(o[k][1]) - set("().") :
                res.fail("spec", "C02:%s:knot-free-not-round" % k, inp, "%r" % o[k][1])
    both = list(zip(inputs, outs))
    for (tag, c, sizes), o in both[::max(1, len(both) // 6)][:6]:
        res.sample({"family": tag, "seq": c[0][:40], "pairs": c[1][:40], "opt": o["opt"][1][:40] if o["opt"][0] == "ok" else o["opt"]})
    derived_objects(ctx, res, inputs)
    # the command-line tool as an observation point (harness/corr/cli_annotator.py)
    cli_annotator.judge(res, "C02", cli_annotator.evaluate(ctx))
    return res


def replay(ctx, data):
    if cli_annotator.is_cli(data.get("input")):
        return cli_annotator.replay_cli("C02", data["input"])
    inp = data["input"]
    if str(inp.get("family", "")).startswith("derived:"):
        for name, dseq, dpairs, r in real_derived((inp["seq"], inp["pairs"])):
            print(name, "->", dseq, g1.pstr(dpairs) if dpairs else None, r)
            if r[0] == "ok":
                lv = ctx.driver.ask1("ss.levels", dseq, g1.pstr(dpairs), r[1])
                print("   levels", lv, ctx.driver.ask1("ss.check_levels", dseq, g1.pstr(dpairs), lv or "-"))
        return
    o = real((inp["seq"], inp["pairs"]))
    print("impl:", {k: v for k, v in o.items() if k != "form"})
    ps = g1.pstr(inp["pairs"])
    for k in ("opt", "spy", "fcfs"):
        if o[k][0] == "ok":
            lv = ctx.driver.ask1("ss.levels", inp["seq"], ps, o[k][1])
            print(k, "levels", lv, ctx.driver.ask1("ss.check_levels", inp["seq"], ps, lv or "-"))

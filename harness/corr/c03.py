"""C03 — reported base pairs are geometrically justified, edge-exclusive and maximal.

Relational correspondence.  For every structure the Lean model computes in exact rational arithmetic the
set of DISTINCT qualifying donor-acceptor contacts (contacts through O2' marked "support only", contacts
within 1e-6 of a threshold "undecided") and evaluates the property's decidable form `Pairs.specPairs` on
the REAL output of `extract_base_interactions` / `find_pairs`:
  * every reported pair joins two different residues, has >= 2 distinct qualifying contacts on the two
    edges of its LW class, and its c/t letter matches the C1'-N1/N9...N1/N9-C1' torsion;
  * no (residue, edge) is used by two reported pairs;
  * every residue pair with >= 2 decided base-to-base contacts on an edge combination is reported with
    that class or has one of the two edges taken by a reported pair.
Functional part: where the implementation has no freedom (`det`: nothing undecided, O2' contacts do not
change any candidate's count, no tied competitors) the model's own greedy annotation must equal the
implementation's.
"""
import json

from core import Result, call, ddmin
from gen import g3pairs as G
from corr import cli_annotator


# ------------------------------------------------------------------------------------------------
# (de)serialisation of structures for replay files

def dump_residues(residues):
    out = []
    for r in residues:
        out.append({
            "label": None if r.label is None else [r.label.chain, r.label.number, r.label.name],
            "auth": None if r.auth is None else [r.auth.chain, r.auth.number, r.auth.icode, r.auth.name],
            "model": r.model, "base": r.one_letter_name,
            "atoms": [[a.name, a.x, a.y, a.z] for a in r.atoms]})
    return out


def load_residues(data):
    from rnapolis.common import ResidueAuth, ResidueLabel
    from rnapolis.tertiary import Atom, Residue3D
    out = []
    for d in data:
        label = None if d["label"] is None else ResidueLabel(*d["label"])
        auth = None if d["auth"] is None else ResidueAuth(*d["auth"])
        atoms = tuple(Atom(None, label, auth, d["model"], n, float(x), float(y), float(z), None) for n, x, y, z in d["atoms"])
        out.append(Residue3D(label, auth, d["model"], d["base"], atoms))
    return out


# ------------------------------------------------------------------------------------------------
# one evaluation

def index_map(residues, model):
    idx = {}
    for i, r in enumerate(residues):
        if model is not None and r.model != model:
            continue
        idx.setdefault((r.label, r.auth), i)
    return idx


AFTER = "@after-whole-pipeline"
_history = {"pipeline": False}


def set_history(family):
    """inputs of the '@after-whole-pipeline' families: the Structure3D object has already been through the whole pipeline
    (interactions, secondary structure) when find_pairs is asked; what it returns must be what a fresh object gives"""
    _history["pipeline"] = str(family or "").split(":")[0].endswith(AFTER)


def real_pairs(residues, model):
    """('ok', [(i, j, lw)], missing) from the real code, indices into `residues`"""
    from rnapolis.annotator import find_pairs
    s = G.structure(residues)
    if _history["pipeline"]:
        from rnapolis.annotator import extract_base_interactions, extract_secondary_structure
        call(extract_base_interactions, s, model)
        call(extract_secondary_structure, s, model)
    if model is not None:
        # the same Structure3D object is first asked for every OTHER model it holds (what is returned for `model`
        # must not depend on earlier calls with another argument)
        for other in dict.fromkeys(r.model for r in residues):
            if other != model:
                call(find_pairs, s, other)
    st, val = call(find_pairs, s, model)
    if st != "ok":
        return ("err", val, [])
    idx = index_map(residues, model)
    out, missing = [], []
    for p in val[0]:
        i = idx.get((p.nt1.label, p.nt1.auth))
        j = idx.get((p.nt2.label, p.nt2.auth))
        if i is None or j is None:
            missing.append("%s-%s" % (p.nt1.full_name, p.nt2.full_name))
            continue
        out.append((i, j, p.lw.value))
    return ("ok", out, missing)


def model_residues(residues, model):
    """what the model is shown: the residues `find_pairs` looks at for this model argument"""
    return [r for r in residues if model is None or r.model == model]


def reported_arg(pairs):
    return ",".join("%d-%d-%s" % p for p in pairs) or "-"


def parse_verdict(text):
    parts = text.split(";")
    fails = [p[2:] for p in parts if p.startswith("F:")]
    und = 0
    notes = {}
    for p in parts[1:]:
        if p.startswith("und="):
            und = int(p[4:])
        elif "=" in p and not p.startswith("F:"):
            k, v = p.split("=", 1)
            notes[k] = v
    return parts[0], fails, und, notes


def signature_of(fail):
    return "C03:" + fail.split(" ")[0]


def evaluate(driver, residues, model):
    """(real, verdict text, model annotation text) for one structure"""
    real = real_pairs(residues, model)
    shown = model_residues(residues, model)
    if real[0] != "ok":
        return real, None, None
    # indices refer to `residues`; re-index to `shown`
    pos = {id(r): k for k, r in enumerate(shown)}
    remap = {i: pos[id(r)] for i, r in enumerate(residues) if id(r) in pos}
    pairs = [(remap[i], remap[j], lw) for i, j, lw in real[1]]
    enc = G.encode(shown)
    v, m = driver.ask([["pairs.check", enc, reported_arg(pairs)], ["pairs.model", enc]])
    return ("ok", pairs, real[2]), v, m


# ------------------------------------------------------------------------------------------------
# inputs

def build_inputs(ctx, res):
    rng = ctx.rng
    inputs = []  # (tag, residues, model argument)
    files = G.QUICK_FILES if ctx.quick else G.THOROUGH_FILES + G.BIG_FILES
    templates = []
    for name in files:
        try:
            models = G.models_of(name)
        except Exception as e:  # noqa: BLE001
            res.notes.append("cannot read %s: %s" % (name, type(e).__name__))
            continue
        small = name in G.SMALL_FILES
        big = name in G.BIG_FILES
        for m in models[: (2 if ctx.quick or big else 6)]:
            s = G.load(name, m)
            rs = s.residues
            if not G.finite(rs):
                continue
            inputs.append(("corpus:%s#%d" % (name, m), rs, m))
            if m == models[0]:
                inputs.append(("corpus-nomodel:%s" % name, rs, None))
                nts = G.nucleotides(rs)
                try:
                    from rnapolis.annotator import find_pairs
                    templates += G.template_pairs(s, find_pairs(s, m)[0])[:40]
                except Exception:  # noqa: BLE001
                    pass
                nvar = 1 if ((ctx.quick and not small) or big) else 3
                for k in range(nvar):
                    R = G.random_rotation(rng) if k != 1 else G.AXIS_PERMS[rng.randrange(24)]
                    t = [rng.uniform(-500, 500) for _ in range(3)]
                    inputs.append(("rigid:%s" % name, G.moved(rs, R, t), m))
                # file order different from the (chain, number, icode) order: reversed and shuffled residue lists
                if not big:
                    inputs.append(("reversed:%s" % name, list(reversed(rs)), m))
                    sh = list(rs)
                    rng.shuffle(sh)
                    inputs.append(("shuffled-residues:%s" % name, sh, m))
                if small:
                    # one Structure3D object holding two models (the second a jittered copy), each requested in turn
                    import dataclasses
                    from rnapolis.tertiary import Residue3D
                    second = [Residue3D(r.label, r.auth, m + 1, r.one_letter_name,
                                        tuple(dataclasses.replace(a, model=m + 1) for a in r.atoms)) for r in G.jittered(rng, rs, 0.4)]
                    both = list(rs) + second
                    inputs.append(("two-models-one-object:%s" % name, both, m))
                    inputs.append(("two-models-one-object:%s" % name, both, m + 1))
                    # the same two conformers numbered 1 and 0 (model numbers are names; 0 is one of them), each requested
                    renum = lambda res, k: Residue3D(res.label, res.auth, k, res.one_letter_name,  # noqa: E731
                                                     tuple(dataclasses.replace(a, model=k) for a in res.atoms))
                    zero = [renum(r, 1) for r in rs] + [renum(r, 0) for r in G.thinned(rng, second, 0.3, 0.0)]
                    inputs.append(("two-models-one-object:numbered-1-and-0:%s" % name, zero, 0))
                    inputs.append(("two-models-one-object:numbered-1-and-0:%s" % name, zero, 1))
                    # nucleotides reduced to the base and a stub of the sugar (C1', C2', O4'): still nucleotides with every
                    # atom the definition uses
                    from rnapolis.tertiary import BASE_ATOMS
                    keep = lambda r: set(BASE_ATOMS.get(r.one_letter_name, [])) | {"C1'", "C2'", "O4'"}  # noqa: E731
                    stubs = [G.rebuild(r, keep=(lambda a, names=keep(r): a.name in names)) if rng.random() < 0.5 else r for r in nts]
                    inputs.append(("base-and-sugar-stub:%s" % name, stubs, m))
                if big:
                    inputs.append(("jitter0.05:%s" % name, G.jittered(rng, nts, 0.05), m))
                elif small or not ctx.quick:
                    for sigma in (0.01, 0.05, 0.2):
                        inputs.append(("jitter%g:%s" % (sigma, name), G.jittered(rng, nts, sigma), m))
                    for _ in range(2):
                        inputs.append(("thin:%s" % name, G.thinned(rng, rs), m))
    # unmodified two-residue cuts of reported pairs (thinning down to the pair itself)
    for ri, rj in templates[: ctx.pick(120, 2000)]:
        lo, hi = (ri, rj) if ri < rj else (rj, ri)
        inputs.append(("cut", [lo, hi], None))
        if rng.random() < 0.34:
            inputs.append(("cut-reversed", [hi, lo], None))
        if rng.random() < 0.25 and (ri.auth is None or rj.auth is None or ri.auth.name != rj.auth.name) \
                and (ri.label is None or rj.label is None or ri.label.name != rj.label.name) and (ri.icode or None) == (rj.icode or None):
            # two different nucleotides at the same (chain, number, insertion code) - strands numbered alike in a file
            # without chain identifiers; they differ in the residue name only, and neither is "lower" than the other
            twin = G.rebuild(rj, relabel=(ri.chain, ri.number))
            inputs.append(("cut-same-position", [ri, twin] if rng.random() < 0.5 else [twin, ri], None))
    n_place = ctx.pick(600, 20000)
    for tag, rs in G.placements(rng, templates, n_place):
        fam = "place:" + tag.split(":")[0].rstrip("+-.0123456789e")
        if rng.random() < 0.3:
            # the same placement far from the origin (PDB coordinates reach +-9999.999)
            t = [rng.choice([-1, 1]) * rng.uniform(2000, 9000) for _ in range(3)]
            rs = G.moved(rs, G.AXIS_PERMS[0], t)
            fam = fam + "@far"
        inputs.append((fam, rs, None))
    res.dist["templates"] = len(templates)
    return inputs


def run(ctx):
    res = Result("C03")
    res.rule = ("inputs: corpus files of /repo/tests (every model; with and without the model argument), rigidly moved "
                "(random SO(3), axis permutations, translations <= 500 A), jittered (sigma 0.01/0.05/0.2 A), residue/atom "
                "thinned variants, synthetic 2-3 residue placements cut from reported corpus pairs with a donor-acceptor "
                "distance, a normal angle or the glycosidic torsion moved to threshold +-{1e-3,1e-2,0.1}, free perturbations "
                "and overlapping copies competing for an edge; non-trivial = the exact model finds a qualifying contact; "
                "distinct by (family, reported pairs, contact statistics)")
    inputs = build_inputs(ctx, res)
    reals = []
    reqs = []
    where = []
    for k, (tag, rs, m) in enumerate(inputs):
        if k % 6 == 3 and len(rs) <= 120:
            fam, _, rest = tag.partition(":")
            tag = fam + AFTER + (":" + rest if rest else "")
            inputs[k] = (tag, rs, m)
        set_history(tag)
        real = real_pairs(rs, m)
        set_history(None)
        shown = model_residues(rs, m)
        reals.append(real)
        if real[0] != "ok":
            continue
        pos = {id(r): q for q, r in enumerate(shown)}
        remap = {i: pos[id(r)] for i, r in enumerate(rs) if id(r) in pos}
        pairs = [(remap[i], remap[j], lw) for i, j, lw in real[1]]
        enc = G.encode(shown)
        reqs.append(["pairs.check", enc, reported_arg(pairs)]); where.append((k, "check", pairs))
        reqs.append(["pairs.model", enc]); where.append((k, "model", pairs))
        if len(shown) <= 25:
            reqs.append(["pairs.prefilter", enc]); where.append((k, "prefilter", pairs))
    resp = G.ask_parallel(ctx.driver, reqs)
    n_pairs = 0
    for k, (tag, rs, m) in enumerate(inputs):
        real = reals[k]
        fam = tag.split(":")[0]
        res.count("family:" + fam)
        if real[0] != "ok":
            res.fail("spec", "C03:raises:" + real[1], {"family": tag, "model": m, "residues": dump_residues(rs)},
                     "find_pairs raised %s" % real[1])
            res.case((tag, "err"), nontrivial=True)
        elif real[2]:
            res.fail("spec", "C03:participant-not-in-model", {"family": tag, "model": m, "residues": dump_residues(rs)},
                     "reported pairs join residues outside the analysed model: %s" % real[2][:5])
    for (k, what, pairs), r in zip(where, resp):
        tag, rs, m = inputs[k]
        inp = lambda: {"family": tag, "model": m, "residues": dump_residues(rs)}  # noqa: E731
        if what == "check":
            head, fails, und, notes = parse_verdict(r)
            res.undecided += und
            n_pairs += len(pairs)
            ncont = int(notes.get("contacts", "0"))
            res.case((tag.split(":")[0], tuple(pairs), r), nontrivial=ncont > 0)
            res.count("reported-pairs", len(pairs))
            res.count("contacts", ncont)
            res.count("support-only-contacts", int(notes.get("support-only", "0")))
            res.count("undecided-contacts", int(notes.get("undecided-contacts", "0")))
            if pairs:
                res.count("structures-with-pairs")
            if head not in ("ok", "fail"):
                res.fail("corr", "C03:driver", inp(), "driver answered %r" % r[:200])
            for f in fails:
                res.fail("spec", signature_of(f), inp(), f)
        elif what == "model":
            parts = dict(p.split("=", 1) for p in r.split(";") if "=" in p)
            if parts.get("det") == "true":
                res.count("functional-comparisons")
                mine = sorted(x for x in parts.get("pairs", "").split(",") if x)
                theirs = sorted("%d-%d-%s" % p for p in pairs)
                if mine != theirs:
                    res.fail("corr", "C03:functional", inp(), "model=%s impl=%s" % (mine[:12], theirs[:12]))
            else:
                res.count("functional-skipped(undecided/tie/O2')")
        elif what == "prefilter":
            if not r.startswith("same"):
                res.fail("corr", "C03:prefilter", inp(), "pre-filtered and exhaustive contact lists differ: %s" % r)
    # the second observation point: extract_base_interactions hands on exactly what find_pairs returns; when it
    # raises although find_pairs reports pairs, those pairs are not reported at this observation point
    from rnapolis.annotator import extract_base_interactions
    for k, (tag, rs, m) in enumerate(inputs):
        if reals[k][0] != "ok":
            continue
        s3 = G.structure(rs)
        a = call(lambda: extract_base_interactions(s3, m))
        if a[0] == "ok":
            res.count("extract_base_interactions-compared")
            idx = index_map(rs, m)
            raw = [(idx.get((p.nt1.label, p.nt1.auth)), idx.get((p.nt2.label, p.nt2.auth)), p.lw.value) for p in a[1].basePairs]
            if any(x is None or y is None for x, y, _ in raw):
                res.fail("spec", "C03:participant-not-in-model", {"family": tag, "model": m, "residues": dump_residues(rs), "observe": "extract_base_interactions"},
                         "extract_base_interactions names participants that are not residues of the analysed model")
                continue
            got = sorted(raw)
            if got != sorted(reals[k][1]) and not reals[k][2]:
                res.fail("corr", "C03:extract-vs-find_pairs", {"family": tag, "model": m, "residues": dump_residues(rs)},
                         "extract_base_interactions does not hand on the base pairs of find_pairs")
        else:
            res.count("extract_base_interactions-raised:" + str(a[1]))
            if reals[k][1]:
                res.fail("spec", "C03:extract_base_interactions:raises:" + str(a[1]),
                         {"family": tag, "model": m, "residues": dump_residues(rs), "observe": "extract_base_interactions"},
                         "extract_base_interactions raised %s on a structure for which find_pairs reports %d base pair(s): "
                         "none of them is reported at this observation point" % (a[1], len(reals[k][1])))
    # functional correspondence of the whole loop (three lists, in order) with Lean FindPairs.findPairs
    from corr import c03_loop
    c03_loop.run_loop(ctx, res, inputs)
    both = list(zip(inputs, reals))
    for (tag, rs, m), real in both[:3] + both[-3:]:
        res.sample({"family": tag, "residues": len(rs), "model": m,
                    "pairs": real[1][:6] if real[0] == "ok" else real[1]})
    __import__("corr.fn_common", fromlist=["run_fn"]).run_fn(ctx, res, "C03")  # regenerated functions vs the real ones (tools/py2lean.py)
    # the command-line tool as an observation point (harness/corr/cli_annotator.py)
    cli_annotator.judge(res, "C03", cli_annotator.evaluate(ctx))
    return res


# ------------------------------------------------------------------------------------------------

def extract_raises(residues, model):
    from rnapolis.annotator import extract_base_interactions
    s3 = G.structure(residues)
    a = call(lambda: extract_base_interactions(s3, model))
    return a[1] if a[0] != "ok" else None


def fails_with(ctx, residues, model, signature):
    if signature.startswith("C03:extract_base_interactions:raises:"):
        real = real_pairs(residues, model)
        e = extract_raises(residues, model)
        return real[0] == "ok" and bool(real[1]) and e is not None and signature.endswith(":" + str(e))
    real, v, _ = evaluate(ctx.driver, residues, model)
    if real[0] != "ok":
        return signature == "C03:raises:" + real[1]
    if real[2] and signature == "C03:participant-not-in-model":
        return True
    _, fails, _, _ = parse_verdict(v)
    return any(signature_of(f) == signature for f in fails)


def shrink(ctx, failure):
    """minimal replay: fewest residues on which the same signature is still observed"""
    if cli_annotator.is_cli(failure.get("input")):
        return failure
    inp = failure["input"]
    if "residues" not in inp:
        return failure
    rs = load_residues(inp["residues"])
    model = inp.get("model")
    sig = failure["signature"]
    set_history(inp.get("family"))
    if not fails_with(ctx, rs, model, sig):
        return failure
    small = ddmin(rs, lambda sub: fails_with(ctx, sub, model, sig), max_steps=300)
    _, v, _ = evaluate(ctx.driver, small, model)
    detail = failure["detail"]
    if v:
        _, fails, _, _ = parse_verdict(v)
        mine = [f for f in fails if signature_of(f) == sig]
        if mine:
            detail = "%s  [residues: %s]" % (mine[0], ", ".join(r.full_name or "?" for r in small))
    return {"kind": failure["kind"], "signature": sig, "detail": detail,
            "input": {"family": inp.get("family"), "model": model, "shrunk_from": len(rs), "residues": dump_residues(small)}}


def replay(ctx, data):
    if cli_annotator.is_cli(data.get("input")):
        return cli_annotator.replay_cli("C03", data["input"])
    if "input" not in data:
        # an obligation replay: names the theorems / correspondences that no longer check
        print(json.dumps({k: data.get(k) for k in ("no_longer_checks", "correspondence", "note")}, indent=1)[:4000])
        for c in data.get("correspondence", [])[:1]:
            replay(ctx, {"input": c["input"], "signature": c["signature"]})
        return
    inp = data["input"]
    if str(inp.get("family", "")).startswith("loop:"):
        from corr import c03_loop
        return c03_loop.replay_loop(ctx, data)
    rs = load_residues(inp["residues"])
    model = inp.get("model")
    set_history(inp.get("family"))
    real, v, m = evaluate(ctx.driver, rs, model)
    print("residues:", [r.full_name for r in rs])
    print("impl pairs (positions, LW):", real)
    print("spec predicate (Pairs.specPairs):", v)
    print("model annotation:", m)
    e = extract_raises(rs, model)
    print("extract_base_interactions:", "raises " + str(e) if e else "ok")
    if e and real[0] == "ok" and real[1]:
        print("SPEC FAILURE C03:extract_base_interactions:raises:%s | %d pair(s) of find_pairs are not reported" % (e, len(real[1])))
    if v:
        shown = model_residues(rs, model)
        print("exact contacts:", ctx.driver.ask1("pairs.contacts", G.encode(shown)))
        _, fails, _, _ = parse_verdict(v)
        for f in fails:
            print("SPEC FAILURE", signature_of(f), "|", f)
    print(json.dumps({"signature": data.get("signature")}))

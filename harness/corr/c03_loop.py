"""C03 (loop) — FUNCTIONAL correspondence between `annotator.find_pairs` and the Lean model of its whole loop
(`RnaVerif.FindPairs.findPairs`, Model/FindPairs.lean; theorems in Props/C03Loop.lean and Props/C05Loop.lean).

Since /repo commit f72e0ea the hydrogen-bond candidates are consumed in ascending index order, so `find_pairs` is a
deterministic function of the structure.  For every input the three lists returned by the real code

    base pairs        (nt1, nt2, LW, Saenger)
    base-phosphate    (nt1, nt2, class)
    base-ribose       (nt1, nt2, class)

-- residues as positions in `structure.residues`, lists IN THE ORDER RETURNED -- must EQUAL the lists the model computes
in exact rational arithmetic (driver op `fp.run`), whenever the model's `und` flag is false (no distance, normal angle
or torsion on the executed path within the 1e-6 band).  Undecided inputs are counted, never reported.  Inputs outside
the model's shape conditions (`wf`: sort keys of the analysed residues pairwise different; harness: (label, auth)
identities unique in the analysed model, so that the returned `Residue(label, auth)` names one position) are counted
and not compared.

Inputs: everything `c03.build_inputs` produced (corpus files incl. every model, rigid motions, jitter, thinned,
reversed / shuffled residue order, two-residue cuts, threshold placements, overlapping copies) -- whole files only up to
a size limit in the quick tier (the exact model is quadratic in the number of points) -- plus the families in which the
ORDER of consumption decides the result:
  axis24        all 24 proper signed axis permutations of small corpus files with contested donor / oxygen atoms;
  tie-context   a whole small structure plus an overlapping copy of a paired residue (tied competitors), moved;
  contested     the minimised replay of the defect repaired by f72e0ea (corpus/C05-fixed-competing-contacts-order.json);
  collide       two points with IDENTICAL coordinates (the dictionaries keyed by the coordinate tuple collide);
  no-torsion-ref   a reference atom of the torsion-dependent classes removed everywhere (the consuming branch is
                entered, no class is found, the candidate is dropped all the same);
  multi-model   two models in one residue list, analysed with model = 1, 2;
  no-label / no-auth   identities with one of the two halves absent.
"""
import json
import os

import numpy

from core import VERIF
from gen import g3pairs as G

QUICK_MAX_RESIDUES = 48       # whole-file inputs larger than this are left to the thorough tier
THOROUGH_MAX_RESIDUES = 700
AXIS_FILES = ["1E7K_1_C.cif", "1A1T_1_B.cif"]


# ------------------------------------------------------------------------------------------------ real code

def positions(residues, model):
    """(label, auth) -> position for the residues `find_pairs` analyses; None when an identity occurs twice"""
    idx = {}
    for i, r in enumerate(residues):
        if model is not None and r.model != model:
            continue
        k = (r.label, r.auth)
        if k in idx:
            return None
        idx[k] = i
    return idx


def real_lists(residues, model):
    """('ok', pairs, bph, br) | ('err', name) | ('ambiguous',)"""
    from rnapolis.annotator import find_pairs
    from core import call
    idx = positions(residues, model)
    if idx is None:
        return ("ambiguous",)
    s3 = G.structure(residues)
    if model is not None:
        for other in dict.fromkeys(r.model for r in residues):
            if other != model:
                call(find_pairs, s3, other)      # same object, another model argument first (see c03.real_pairs)
    st, val = call(find_pairs, s3, model)
    if st != "ok":
        return ("err", val)

    def pos(nt):
        return idx.get((nt.label, nt.auth), -1)
    pairs = [(pos(p.nt1), pos(p.nt2), p.lw.value, p.saenger.value if p.saenger is not None else None) for p in val[0]]
    bph = [(pos(p.nt1), pos(p.nt2), int(p.bph.value[0])) for p in val[1]]
    br = [(pos(p.nt1), pos(p.nt2), int(p.br.value[0])) for p in val[2]]
    return ("ok", pairs, bph, br)


def parse_model(text):
    d = dict(p.split("=", 1) for p in text.split(";") if "=" in p)
    if "und" not in d or "pairs" not in d:
        raise ValueError("model answered %r" % text[:200])

    def triples(s):
        return [tuple(int(x) for x in t.split("-")) for t in s.split(",") if t]

    def pairs(s):
        out = []
        for t in s.split(","):
            if t:
                i, j, lw, sae = t.split("-")
                out.append((int(i), int(j), lw, None if sae == "~" else sae))
        return out
    return d, pairs(d["pairs"]), triples(d["bph"]), triples(d["br"])


def model_arg(m):
    return "~" if m is None else str(m)


# ------------------------------------------------------------------------------------------------ inputs

def _exact_copy(res, shift, pin=None, relabel=None):
    """copy of a residue translated by `shift`; `pin` = (atom name, exact coordinates) overrides one atom"""
    def xyz(p):
        return p + shift
    out = G.rebuild(res, xyz=xyz, relabel=relabel)
    if pin is None:
        return out
    from rnapolis.tertiary import Atom, Residue3D
    atoms = tuple(Atom(a.entity_id, a.label, a.auth, a.model, a.name, pin[1][0], pin[1][1], pin[1][2], a.occupancy)
                  if a.name == pin[0] else a for a in out.atoms)
    return Residue3D(out.label, out.auth, out.model, out.one_letter_name, atoms)


def _strip(res, which):
    """the same residue with the label (or auth) half of its identity absent"""
    from rnapolis.tertiary import Atom, Residue3D
    label = None if which == "label" else res.label
    auth = None if which == "auth" else res.auth
    if label is None and auth is None:
        return res
    atoms = tuple(Atom(a.entity_id, label, auth, a.model, a.name, a.x, a.y, a.z, a.occupancy) for a in res.atoms)
    return Residue3D(label, auth, res.model, res.one_letter_name, atoms)


def extra_inputs(ctx, res):
    from gen import g5pres as P
    rng = ctx.rng
    out = []
    templates = []
    small = []
    for name in G.SMALL_FILES:
        try:
            s = G.load(name)
        except Exception:  # noqa: BLE001
            continue
        rs = list(s.residues)
        if not G.finite(rs) or len(rs) > QUICK_MAX_RESIDUES:
            continue
        small.append((name, rs))
        try:
            from rnapolis.annotator import find_pairs
            templates.append((name, rs, G.template_pairs(s, find_pairs(s, None)[0])[:30]))
        except Exception:  # noqa: BLE001
            pass
    # all 24 axis permutations (exact in floating point) of files with contested atoms
    for name, rs in small:
        if name in AXIS_FILES or not ctx.quick:
            for k in range(24):
                t = [rng.uniform(-500, 500) for _ in range(3)] if k % 2 else [0.0, 0.0, 0.0]
                out.append(("axis24:%s" % name, G.moved(rs, G.AXIS_PERMS[k], t), None))
    # tied competitors inside a whole structure
    for name, rs, mine in templates:
        if not mine:
            continue
        for _ in range(ctx.pick(2, 6)):
            ri, rj = mine[rng.randrange(len(mine))]
            shift = numpy.array([rng.uniform(-0.4, 0.4) for _ in range(3)])
            top = max((r.number for r in rs if r.chain == rj.chain), default=0)
            copy = G.rebuild(rj, xyz=lambda p: p + shift, relabel=(rj.chain, top + rng.randint(1, 40)))
            where = rng.randrange(len(rs) + 1)
            rs2 = P.fresh(rs)
            rs2.insert(where, copy)
            out.append(("tie-context:%s" % name, rs2, None))
            for _ in range(ctx.pick(2, 5)):
                _, R, t = P.random_motion(rng, rng.choice(["so3", "axis", "so3-far"]))
                out.append(("tie-context:%s" % name, P.moved(rs2, R, t), None))
    # the minimised replay of the repaired order defect
    path = os.path.join(VERIF, "corpus", "C05-fixed-competing-contacts-order.json")
    if os.path.exists(path):
        from corr import c03
        inp = json.load(open(path))["input"]
        for k in ("base", "other"):
            rs = c03.load_residues(inp[k])
            out.append(("contested", rs, None))
            out.append(("contested", list(reversed(rs)), None))
    # identical coordinates
    for name, rs, mine in templates:
        for ri, rj in mine[: ctx.pick(4, 30)]:
            cands = G.donor_acceptor_atoms(ri, rj)
            num = max((r.number for r in rs if r.chain == rj.chain), default=0) + 7
            # (a) an exact duplicate of the partner under another identity: every point collides
            dup = _exact_copy(rj, numpy.zeros(3), relabel=(rj.chain or "Z", num))
            out.append(("collide-duplicate", [ri, rj, dup], None))
            out.append(("collide-duplicate", [dup, ri, rj], None))
            if not cands:
                continue
            a, b = cands[rng.randrange(len(cands))]
            # (b) a copy of the partner moved so that its atom `b` sits exactly on atom `a` of the first residue
            shift = a.coordinates - b.coordinates
            cp = _exact_copy(rj, shift, pin=(b.name, (a.x, a.y, a.z)), relabel=(rj.chain or "Z", num))
            out.append(("collide-atom", [ri, rj, cp], None))
            out.append(("collide-atom", [cp, rj, ri], None))
            # (c) ... and sits on a phosphate / ribose oxygen of the first residue
            ox = [x for x in ri.atoms if x.name in ("OP1", "OP2", "O2'", "O4'", "O3'", "O5'")]
            if ox:
                o = ox[rng.randrange(len(ox))]
                cp2 = _exact_copy(rj, o.coordinates - b.coordinates, pin=(b.name, (o.x, o.y, o.z)), relabel=(rj.chain or "Z", num))
                out.append(("collide-oxygen", [ri, cp2, rj], None))
    # torsion-dependent classes without their reference atoms: `detect_bph_br_classification` answers None although the
    # contact entered a consuming branch (A.N6 needs N1, C6; G.N2 needs N3, C2; C.N4 needs N3, C4) -- the branch still
    # `continue`s.  One reference atom that is not needed for the base normal is removed everywhere.
    refs = {"A": ("C6", "N1"), "G": ("C2",), "C": ("N3",)}
    for name, rs in small:
        for k in range(ctx.pick(8, 24)):
            p_drop = 1.0 if k == 0 else 0.6

            def keep(a, r):
                return not (a.name in refs.get(r.one_letter_name, ()) and rng.random() < p_drop)
            v = [G.rebuild(r, keep=lambda a, r=r: keep(a, r)) for r in rs]
            if k >= 2:
                v = G.jittered(rng, v, 0.15 if k % 2 else 0.3)
            out.append(("no-torsion-ref:%s" % name, v, None))
    # two models in one list
    for name, rs in small[: ctx.pick(3, 7)]:
        R = G.random_rotation(rng)
        t = [rng.uniform(-3, 3) for _ in range(3)]
        second = [G.rebuild(r, xyz=lambda p: R @ p + numpy.asarray(t), model=2) for r in rs]
        first = [G.rebuild(r, model=1) for r in rs]
        both = first + second
        inter = [x for pair in zip(first, second) for x in pair]
        for m in (1, 2):
            out.append(("multi-model", both, m))
            out.append(("multi-model-interleaved", inter, m))
    # identities with one half absent
    for name, rs in small[: ctx.pick(3, 7)]:
        for which in ("label", "auth"):
            out.append(("no-" + which, [_strip(r, which) for r in rs], None))
    return out


def select(ctx, inputs):
    """the part of c03's inputs the quadratic model is run on in this tier"""
    limit = QUICK_MAX_RESIDUES if ctx.quick else THOROUGH_MAX_RESIDUES
    out, skipped = [], 0
    for tag, rs, m in inputs:
        n = sum(1 for r in rs if m is None or r.model == m)
        if n > limit:
            skipped += 1
            continue
        out.append((tag, rs, m))
    return out, skipped


# ------------------------------------------------------------------------------------------------ run

def compare(real, text):
    """-> (status, diffs): status in {'ok', 'undecided', 'outside'}; diffs = [(which list, detail)]"""
    d, mp, mb, mr = parse_model(text)
    if d.get("wf") != "true":
        return "outside", [], d
    if d.get("und") != "false":
        return "undecided", [], d
    diffs = []
    for which, mine, theirs in (("pairs", mp, real[1]), ("bph", mb, real[2]), ("br", mr, real[3])):
        if mine != theirs:
            what = "same entries, different order" if sorted(map(str, mine)) == sorted(map(str, theirs)) else \
                "only model %s; only code %s" % ([x for x in mine if x not in theirs][:4], [x for x in theirs if x not in mine][:4])
            diffs.append((which, "%s: %s" % (which, what)))
    return "ok", diffs, d


def run_loop(ctx, res, inputs=None):
    from corr import c03
    if inputs is None:
        inputs = c03.build_inputs(ctx, res)
    mine, skipped = select(ctx, inputs)
    res.count("loop:whole-structure-inputs-left-to-thorough", skipped)
    mine = mine + extra_inputs(ctx, res)
    reals = [real_lists(rs, m) for tag, rs, m in mine]
    reqs, where = [], []
    for k, (tag, rs, m) in enumerate(mine):
        if reals[k][0] == "ok":
            reqs.append(["fp.run", G.encode(rs), model_arg(m)])
            where.append(k)
        elif reals[k][0] == "ambiguous":
            res.count("loop:skipped(identity-not-unique)")
        else:
            res.count("loop:find_pairs-raises:" + str(reals[k][1]))
    resp = G.ask_parallel(ctx.driver, reqs, nproc=16)
    res.rule += ("; LOOP (functional): the three lists of find_pairs, in order, against Lean FindPairs.findPairs on the same "
                 "inputs (whole structures up to %d residues in this tier) plus axis24 / tie-context / contested / collide / "
                 "multi-model / no-label families; compared whenever the model's undecided flag is false"
                 % (QUICK_MAX_RESIDUES if ctx.quick else THOROUGH_MAX_RESIDUES))
    collided = []
    for k, r in zip(where, resp):
        tag, rs, m = mine[k]
        fam = tag.split(":")[0]
        inp = lambda: {"family": "loop:" + tag, "model": m, "residues": c03.dump_residues(rs)}  # noqa: E731
        try:
            status, diffs, d = compare(reals[k], r)
        except Exception as e:  # noqa: BLE001
            res.fail("corr", "C03:corr:loop:driver", inp(), "driver answered %r (%s)" % (r[:200], e))
            continue
        real = reals[k]
        n_int = len(real[1]) + len(real[2]) + len(real[3])
        res.case(("loop", fam, tuple(real[1]), tuple(real[2]), tuple(real[3])), nontrivial=n_int > 0)
        res.count("loop:family:" + fam)
        if status == "undecided":
            res.undecided += 1
            res.count("loop:undecided")
            continue
        if status == "outside":
            res.count("loop:outside-shape-conditions(sort keys not distinct)")
            continue
        res.count("loop:compared")
        res.count("loop:candidates", int(d.get("cands", "0")))
        res.count("loop:consumed-by-bph/br-branch", int(d.get("consumed", "0")))
        res.count("loop:recorded-bph/br", int(d.get("recorded", "0")))
        res.count("loop:reached-base-base-test", int(d.get("fell", "0")))
        res.count("loop:hydrogen-bonds", int(d.get("hb", "0")))
        if int(d.get("collisions", "0")):
            res.count("loop:inputs-with-coordinate-collisions")
        if real[2] or real[3]:
            res.count("loop:inputs-with-bph/br")
        for which, detail in diffs:
            res.fail("corr", "C03:corr:loop:" + which, inp(), "%s [%s] model: %s" % (detail, tag, r[:300]))
        if int(d.get("collisions", "0")) and m is None:
            collided.append(k)
    # The property itself (Pairs.specPairs on the REAL output) on inputs with coincident atoms.  While find_pairs looked
    # points up through the coordinate tuple, one hydrogen bond was counted once per coincident point, so a pair was
    # reported on a single distinct contact (defect repaired in /repo, known_findings.json; VERIF_C03_COLLISION_SPEC=0
    # switches this evaluation off).
    if collided and os.environ.get("VERIF_C03_COLLISION_SPEC", "1") == "1":
        reqs2 = []
        for k in collided:
            tag, rs, m = mine[k]
            reqs2.append(["pairs.check", G.encode(rs), c03.reported_arg([(i, j, lw) for i, j, lw, _ in reals[k][1]])])
        for k, v in zip(collided, G.ask_parallel(ctx.driver, reqs2, nproc=16)):
            tag, rs, m = mine[k]
            res.count("loop:collision-inputs-judged-by-specPairs")
            _, fails, und, _ = c03.parse_verdict(v)
            res.undecided += und
            for f in fails:
                res.fail("spec", c03.signature_of(f), {"family": tag, "model": m, "residues": c03.dump_residues(rs)},
                         "%s  [coincident atoms: the coordinate-keyed dictionaries of find_pairs merge them]" % f)
    return res


def replay_loop(ctx, data):
    from corr import c03
    inp = data["input"]
    rs = c03.load_residues(inp["residues"])
    m = inp.get("model")
    real = real_lists(rs, m)
    print("residues:", [r.full_name for r in rs], "model:", m)
    print("find_pairs (positions):", real)
    text = ctx.driver.ask1("fp.run", G.encode(rs), model_arg(m))
    print("Lean FindPairs.findPairs:", text)
    print("loop trace:", ctx.driver.ask1("fp.trace", G.encode(rs), model_arg(m)))
    if real[0] == "ok":
        status, diffs, _ = compare(real, text)
        print("status:", status)
        for which, detail in diffs:
            print("CORR DIFFERENCE C03:corr:loop:%s | %s" % (which, detail))
    print(json.dumps({"signature": data.get("signature")}))

"""C04 — stacking annotation equals its geometric definition.

The Lean model (`Model/Stacking.lean`, op `stk.find`) *is* the geometric definition in exact rational
arithmetic (theorem `stackings_eq_filter`): it answers yes / no / undecided for every ordered residue
pair.  `annotator.find_stackings` must report every `yes` pair, no `no` pair, each pair once, first
residue = lower (chain, number), the model's topology label, sorted.  Pairs the model leaves
undecided (within 1e-6 of a threshold, degenerate normals) are only counted.
"""
import json
import re

import numpy
from core import history_probe, Result, ddmin, parallel_map
from gen import g3
from corr import cli_annotator

_CASES = []
_EXPECTED = {}  # id(structure) -> bool: what the statement's 6 A / 35 deg / 45 deg demand of a straddle placement


def idkey(r):
    return (r.label, r.auth)


def order_key(r):
    return (r.model, r.chain, r.number, r.icode or " ")


def _with_base(st, idxs):
    if len(idxs) <= 1 or idxs[0] is None:
        return idxs[0]
    from rnapolis.tertiary import BASE_ATOMS
    for i in idxs:
        r = st.residues[i]
        if any(a.name in BASE_ATOMS.get(r.one_letter_name, []) for a in r.atoms):
            return i
    return idxs[0]


def real(ci):
    """find_stackings on case ci -> list of (index1, index2, topology) | ('err', name)"""
    from rnapolis.annotator import find_stackings
    tag, st, model = _CASES[ci]
    by = {}
    for i, r in enumerate(st.residues):
        if model is None or r.model == model:
            by.setdefault(idkey(r), []).append(i)
    try:
        import warnings
        with warnings.catch_warnings():
            warnings.simplefilter("ignore")
            found = find_stackings(st, model)
    except Exception as e:  # noqa: BLE001
        return ("err", type(e).__name__ + ": " + str(e)[:200])
    out = []
    for s in found:
        k1, k2 = (s.nt1.label, s.nt1.auth), (s.nt2.label, s.nt2.auth)
        i1, i2 = by.get(k1, [None]), by.get(k2, [None])
        # identities are unique in generated inputs (g3.well_formed) except in the split-residue family, where the entry
        # that carries the base atoms is the one that can stack
        out.append((_with_base(st, i1), _with_base(st, i2), s.topology.value))
    return out


def real_by_identity(ci):
    """find_stackings on case ci as a sorted list of (identity, identity, topology) — for structures in which two entries
    share their identifiers, where a reported stacking cannot be attributed to an entry"""
    from rnapolis.annotator import find_stackings
    tag, st, model = _CASES[ci]
    try:
        found = find_stackings(st, model)
    except Exception as e:  # noqa: BLE001
        return ("err", type(e).__name__)
    return sorted((str((s.nt1.label, s.nt1.auth)), str((s.nt2.label, s.nt2.auth)), s.topology.value) for s in found)


def parse_model(resp):
    """'ok a-b:topo,... i-j,...' -> (list of (i1, i2, topo), set of frozenset({i, j}))"""
    parts = resp.split(" ")
    if parts[0] != "ok" or len(parts) != 3:
        raise ValueError("model response %r" % resp[:200])
    yes = []
    if parts[1] != "-":
        for t in parts[1].split(","):
            ij, topo = t.split(":")
            a, b = ij.split("-")
            yes.append((int(a), int(b), topo))
    und = set()
    if parts[2] != "-":
        for t in parts[2].split(","):
            a, b = t.split("-")
            und.add(frozenset((int(a), int(b))))
    return yes, und


def compare(st, model, impl, yes, und):
    """-> (list of (kind, signature, detail), number of undecided pairs touched)"""
    fails = []
    if isinstance(impl, tuple) and impl and impl[0] == "err":
        return [("spec", "C04:raises:" + impl[1].split(":")[0], impl[1])], 0
    name = lambda i: str(st.residues[i]) if i is not None else "?"  # noqa: E731
    ypairs = {frozenset((a, b)): (a, b, t) for a, b, t in yes}
    seen = set()
    touched = 0
    for a, b, t in impl:
        p = frozenset((a, b))
        if p in seen:
            fails.append(("spec", "C04:duplicate", "pair %s-%s reported twice" % (name(a), name(b))))
            continue
        seen.add(p)
        if p in ypairs:
            ma, mb, mt = ypairs[p]
            if (ma, mb) != (a, b):
                fails.append(("spec", "C04:orientation", "reported %s-%s, lower residue is %s" % (name(a), name(b), name(ma))))
            elif mt != t:
                fails.append(("spec", "C04:label", "%s-%s labelled %s, definition gives %s" % (name(a), name(b), t, mt)))
        elif p in und:
            touched += 1
        else:
            fails.append(("spec", "C04:unjustified", "%s-%s (%s) reported but the definition says no" % (name(a), name(b), t)))
    for p, (a, b, t) in ypairs.items():
        if p not in seen:
            fails.append(("spec", "C04:missing", "%s-%s (%s) satisfies the definition but is not reported" % (name(a), name(b), t)))
    # order: by (chain, number) of the first, then of the second residue
    keys = [(order_key(st.residues[a]), order_key(st.residues[b])) for a, b, t in impl if a is not None and b is not None]
    if any(keys[i] > keys[i + 1] for i in range(len(keys) - 1)):
        fails.append(("spec", "C04:order", "reported list is not sorted by chain and number"))
    elif not fails:
        common = [x for x in impl if frozenset(x[:2]) in ypairs]
        mcommon = [x for x in yes if frozenset(x[:2]) in seen]
        if [tuple(x) for x in common] != [tuple(x) for x in mcommon]:
            fails.append(("corr", "C04:sequence", "same stackings, different sequence: impl=%r model=%r" % (common[:6], mcommon[:6])))
    return fails, touched


def multi_model(st, rng):
    """a second model (jittered copy, model number 2) appended"""
    import dataclasses
    j = g3.jitter(st, rng, 0.3)
    rs = [g3.mk_residue(r, [dataclasses.replace(a, model=2) for a in r.atoms], model=2) for r in j.residues]
    return g3.concat(st, g3.mk_structure(rs))


def build_inputs(ctx, res):
    rng = ctx.rng
    cases = []
    corpus = g3.corpus()
    small = [(n, s) for n, s in corpus if len(s.residues) <= 130]
    big = [(n, s) for n, s in corpus if len(s.residues) > 130]
    for n, s in corpus:
        if len(s.residues) <= ctx.pick(360, 10 ** 6):
            cases.append(("corpus:" + n, s, None))
    perms = g3.axis_permutations()
    reps = ctx.pick(1, 6)
    for n, s in small:
        for _ in range(reps):
            cases.append(("rigid", g3.random_rigid(s, rng), None))
            cases.append(("axis-perm", g3.rigid(s, rng.choice(perms), g3.random_translation(rng)), None))
            for sigma in (0.01, 0.05, 0.2):
                cases.append(("jitter%g" % sigma, g3.jitter(s, rng, sigma), None))
            cases.append(("thin", g3.thin(s, rng, rng.choice([0.0, 0.1, 0.3]), rng.choice([0.05, 0.15, 0.4])), None))
            cases.append(("shuffle-atoms", g3.shuffle_atoms(s, rng), None))
            cases.append(("shuffle-residues", g3.shuffle_residues(g3.window(s, rng, 40), rng), None))
            # consecutive (stacked) residues that share chain and number and differ only in the insertion code
            cases.append(("icode-siblings", g3.icode_siblings(g3.window(s, rng, 30), rng), None))
            sp = g3.split_residue(g3.window(s, rng, 30), rng, base_together=True)
            if sp is not None:
                cases.append(("split-residue", sp, None))
            sp = g3.split_residue(g3.window(s, rng, 30), rng)
            if sp is not None:
                cases.append(("split-residue-both-with-base", sp, None))
        w = g3.window(s, rng, 30)
        mm = multi_model(w, rng)
        for m in (None, 1, 2, 3):
            if m is None:
                continue  # identities repeat across models: (label, auth) no longer names one residue
            cases.append(("two-models:model=%s" % m, mm, m))
    if not ctx.quick:
        for n, s in big:
            cases.append(("rigid-big", g3.random_rigid(s, rng), None))
            cases.append(("jitter-big", g3.jitter(s, rng, 0.05), None))
        for m in perms:
            n, s = rng.choice(small)
            cases.append(("axis-perm", g3.rigid(s, m), None))
    for rep in range(ctx.pick(2, 12)):
        for tag, expected, st in g3.stack_straddles(rng):
            if rng.random() < 0.3:
                # the same placement far from the origin (PDB coordinates reach +-9999.999): single-precision
                # arithmetic anywhere in the pipeline rounds such coordinates by up to 1e-3
                st = g3.rigid(st, numpy.eye(3), [rng.choice([-1, 1]) * rng.uniform(2000, 9000) for _ in range(3)])
                tag = tag + "@far"
            cases.append(("straddle:" + tag, st, None))
            _EXPECTED[id(st)] = expected
    for _ in range(ctx.pick(600, 8000)):
        cases.append(("placement", g3.stack_random(rng), None))
    # a few residues with all four labels in one structure: towers of templates
    for _ in range(ctx.pick(40, 400)):
        sts = [g3.stack_random(rng) for _ in range(rng.randint(2, 5))]
        rs = []
        for k, s in enumerate(sts):
            for r in s.residues:
                rs.append(g3.renumber(r, rng.choice("AB"), len(rs) * 3 + rng.randint(0, 2)))
        rng.shuffle(rs)
        cases.append(("placement-mix", g3.mk_structure(rs), None))
    cases = [c for c in cases if g3.well_formed(c[1], allow_repeated_identity=c[0].startswith("split-residue"))]
    return cases


def evaluate(ctx, cases):
    """-> list of (impl, yes, und) per case"""
    global _CASES
    _CASES = cases
    impls = parallel_map(real, range(len(cases)))
    reqs = [["stk.find", "-" if m is None else str(m), g3.to_request(st)] for tag, st, m in cases]
    # shard the driver work over processes as well
    shards = [reqs[i::16] for i in range(16)]
    outs = _ask_par(shards) if len(reqs) >= 32 else [_ask(s) for s in shards]
    resp = [None] * len(reqs)
    for k, o in enumerate(outs):
        for j, r in enumerate(o):
            resp[k + 16 * j] = r
    ctx.driver.lines += len(reqs)
    out = []
    for impl, r in zip(impls, resp):
        yes, und = parse_model(r)
        out.append((impl, yes, und))
    return out


def _ask(shard):
    from core import Driver
    return Driver().ask(shard)


def _ask_par(shards):
    from core import fork_map
    return fork_map(_ask, shards, nproc=len(shards), chunksize=1)


def run(ctx):
    res = Result("C04")
    res.rule = ("inputs: every 3D file of the repository corpus; rigidly moved (random SO(3), the 24 axis permutations, "
                "translations <= 500 A), jittered (sigma 0.01/0.05/0.2 A), thinned of residues/atoms, atom- and "
                "residue-order shuffled, two-model copies; synthetic two-residue placements of base templates straddling "
                "the 6 A / 35 deg / 45 deg thresholds by +-{1e-3, 1e-2, 0.1} with parallel and opposed normals, both "
                "normals as the near one, both residue orders, reversed centroid vector; random placements. "
                "non-trivial = at least one residue pair the definition decides as a stacking, or a straddle placement; "
                "distinct by exact coordinates")
    cases = build_inputs(ctx, res)
    results = evaluate(ctx, cases)
    history_probe(ctx, res, real, list(range(len(cases))), "find_stackings", describe=lambda ci: {"case": cases[ci][0]})
    for (tag, st, m), (impl, yes, und) in zip(cases, results):
        fam = tag.split(":")[0]
        res.count("family:" + fam)
        nres = len(st.residues)
        res.count("residues<=2" if nres <= 2 else "residues<=30" if nres <= 30 else "residues<=130" if nres <= 130 else "residues>130")
        res.count("stackings(model-yes)", len(yes))
        for a, b, t in yes:
            res.count("topology:" + t)
        res.count("pairs-undecided-by-model", len(und))
        if tag.startswith("straddle:"):
            rep = bool(impl) and not (isinstance(impl, tuple) and impl[0] == "err")
            res.count("straddle:" + ("reported" if rep else "not-reported"))
            exp = _EXPECTED.get(id(st))
            if exp is not None and exp != rep:
                res.fail("spec", "C04:threshold:" + re.sub(r"[-+][0-9.e-]+$", "", tag.split(":", 1)[1]) + (":missing" if exp else ":unjustified"),
                         {"family": tag, "model": m, "structure": g3.to_json(st)},
                         "placement %s of the stated thresholds (6 A, 35 deg, 45 deg) is %s" % (tag.split(":", 1)[1], "not reported" if exp else "reported"))
        if tag == "split-residue-both-with-base":
            # two entries carry the same identifiers and both have base atoms: compared as multisets of
            # (identity, identity, topology); structures with an undecided pair are skipped
            if und:
                res.undecided += 1
                continue
            idt = lambda i: str((st.residues[i].label, st.residues[i].auth))  # noqa: E731
            want = sorted((idt(a), idt(b), t) for a, b, t in yes)
            got = real_by_identity(cases.index((tag, st, m)))
            res.case((tag, len(st.residues), hash(tuple(want))), nontrivial=bool(yes))
            if got != want:
                res.fail("spec", "C04:entries-with-shared-identifiers", {"family": tag, "model": m, "structure": g3.to_json(st)},
                         "reported %r, the definition applied to every entry gives %r" % (got[:6], want[:6]))
            continue
        fails, touched = compare(st, m, impl, yes, und)
        res.undecided += touched
        key = hash(g3.to_request(st)) if nres <= 6 else (tag, nres, len(yes), hash(tuple(yes)))
        res.case(key, nontrivial=bool(yes) or tag.startswith("straddle:"))
        for kind, sig, detail in fails:
            res.fail(kind, sig, {"family": tag, "model": m, "structure": g3.to_json(st)}, detail)
    k = 0
    for (tag, st, m), (impl, yes, und) in zip(cases, results):
        if yes and k < 6 and len(st.residues) <= 30:
            k += 1
            res.sample({"family": tag, "residues": [str(r) for r in st.residues][:8],
                        "stackings": ["%s-%s:%s" % (st.residues[a], st.residues[b], t) for a, b, t in yes][:6]})
    through_extract(ctx, res, cases)
    __import__("corr.fn_common", fromlist=["run_fn"]).run_fn(ctx, res, "C04")  # regenerated functions vs the real ones (tools/py2lean.py)
    # the command-line tool as an observation point: what annotator.main writes for a file and a set of options is what
    # the library computes for that file (harness/corr/cli_annotator.py)
    cli_annotator.judge(res, "C04", cli_annotator.evaluate(ctx))
    return res


def check_one(ctx, st, m):
    global _CASES
    _CASES = [("replay", st, m)]
    impl = real(0)
    yes, und = parse_model(ctx.driver.ask1("stk.find", "-" if m is None else str(m), g3.to_request(st)))
    return impl, yes, und, compare(st, m, impl, yes, und)[0]


def _both_ways(job):
    """(stackings of find_stackings, stackings inside extract_base_interactions, is there a base pair?) for one structure"""
    from rnapolis.annotator import extract_base_interactions, find_stackings
    from core import call
    st, m = g3.from_json(job[0]), job[1]
    key = lambda p: (p.nt1.full_name, p.nt2.full_name, p.topology.value if p.topology is not None else None)  # noqa: E731
    a = call(lambda: sorted(key(p) for p in find_stackings(st, m)))
    b = call(lambda: extract_base_interactions(st, m))
    if a[0] != "ok" or b[0] != "ok":
        return (a if a[0] != "ok" else ("ok", None), ("err", b[1]) if b[0] != "ok" else ("ok", None), False)
    return (a, ("ok", sorted(key(p) for p in b[1].stackings)), bool(b[1].basePairs))


def through_extract(ctx, res, cases):
    """the stacking list inside a whole annotation (`extract_base_interactions`, which every tool and the secondary
    structure are built on) is the list `find_stackings` returns - also for residue pairs that are at the same time
    reported as a base pair (random two-residue placements are drawn until some are)"""
    from rnapolis.annotator import find_pairs, find_stackings
    rng = ctx.rng
    jobs = [(g3.to_json(st), m, tag) for tag, st, m in cases if len(st.residues) <= 40 and tag != "split-residue-both-with-base"]
    jobs = jobs if len(jobs) <= ctx.pick(400, 4000) else rng.sample(jobs, ctx.pick(400, 4000))
    found, tries = 0, 0
    while found < ctx.pick(8, 60) and tries < ctx.pick(4000, 40000):
        tries += 1
        st = g3.stack_random(rng)
        try:
            if find_stackings(st, None) and find_pairs(st, None)[0]:
                found += 1
                jobs.append((g3.to_json(st), None, "stacked-and-paired"))
        except Exception:  # noqa: BLE001
            pass
    res.dist["stacked-and-paired:found/tries"] = "%d/%d" % (found, tries)
    for (js, m, tag), (a, b, paired) in zip(jobs, parallel_map(_both_ways, jobs)):
        res.count("through-extract:" + ("stacked-and-paired" if tag == "stacked-and-paired" else "other"))
        if a[0] != "ok" or b[0] != "ok" or a[1] is None or b[1] is None:
            res.count("through-extract:raises")
            continue
        res.case(("extract", tag, repr(a[1])[:200], len(js.get("residues", js)) if isinstance(js, dict) else 0), nontrivial=bool(a[1]))
        if a[1] != b[1]:
            res.fail("spec", "C04:extract_base_interactions:stackings-differ-from-find_stackings", {"family": "extract:" + tag, "model": m, "structure": js},
                     "find_stackings gives %s, the annotation lists %s%s" % (a[1][:4], b[1][:4], " (the pair is also reported as a base pair)" if paired else ""))


def shrink(ctx, failure):
    """drop residues while a failure with the same signature remains"""
    if cli_annotator.is_cli(failure.get("input")) or str(failure.get("input", {}).get("family", "")).startswith("extract:"):
        return failure
    st = g3.from_json(failure["input"]["structure"])
    m = failure["input"].get("model")
    sig = failure["signature"]

    def still(rs):
        s = g3.mk_structure(rs)
        try:
            return any(f[1] == sig for f in check_one(ctx, s, m)[3])
        except Exception:  # noqa: BLE001
            return False
    rs = ddmin(list(st.residues), still, max_steps=200)
    s = g3.mk_structure(rs)
    f = [x for x in check_one(ctx, s, m)[3] if x[1] == sig]
    if not f:
        return failure
    out = dict(failure)
    out["input"] = {"family": failure["input"].get("family"), "model": m, "structure": g3.to_json(s)}
    out["detail"] = f[0][2]
    return out


def replay(ctx, data):
    inp = data["input"]
    if cli_annotator.is_cli(inp):
        return cli_annotator.replay_cli("C04", inp)
    if str(inp.get("family", "")).startswith("extract:"):
        a, b, paired = _both_ways((inp["structure"], inp.get("model")))
        print("find_stackings              :", a)
        print("extract_base_interactions   :", b, "(a base pair is reported too)" if paired else "")
        if a != b:
            print("SPEC FAILURE C04:extract_base_interactions:stackings-differ-from-find_stackings")
        return
    st = g3.from_json(inp["structure"])
    m = inp.get("model")
    impl, yes, und, fails = check_one(ctx, st, m)
    print("residues:", [str(r) for r in st.residues][:20])
    print("impl :", [(str(st.residues[a]), str(st.residues[b]), t) for a, b, t in impl] if not (impl and impl[0] == "err") else impl)
    print("model:", [(str(st.residues[a]), str(st.residues[b]), t) for a, b, t in yes], "undecided:", [sorted(p) for p in und])
    if len(st.residues) == 2:
        print("verdicts:", ctx.driver.ask1("stk.pair", g3.to_request(st)))
    print("failures:", json.dumps(fails, indent=1))

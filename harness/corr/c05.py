"""C05 — the annotation depends only on internal geometry and identity, not on presentation.

Metamorphic check of the REAL code (`annotator.extract_base_interactions`, `extract_secondary_structure`,
`parser.read_3d_structure`).  Every input is a pair (base presentation, changed presentation) of one structure:

  rigid    all coordinates moved by one proper rigid motion: random SO(3) (quaternions), each of the 24 proper
           signed permutation matrices (exact in floating point), translations up to +-500 A;
  shuffle  atoms listed in another order inside every residue;
  relabel  chains and residue numbers renamed order-preservingly (label and auth alike); with gap detection only
           number shifts are used (the number of gap placeholders is a function of number differences by design);
  format   the same token table written as PDB and as mmCIF by independent emitters (same decimal strings) and
           read back with `read_3d_structure`; on the table also exact-in-decimals axis permutations with
           translations, atom shuffles, chain/number renamings, each compared across formats and with the base.

Observed on both presentations: base pairs (LW + Saenger), stackings (topology), base-phosphate and base-ribose
lists — residues as positions in the structure, lists in the order returned —, BPSEQ, dot-bracket (strand names
mapped through the renaming), extended dot-bracket, stems / single strands / hairpins / loops, and BPSEQ +
dot-bracket with gap detection.  (Inter-stem parameters are floating-point measurements, not annotation.)

Margins: the exact Lean model (`c05.margins`: contacts, glycosidic torsions, donor-oxygen contacts and their
torsion-dependent classes, stackings, the P-O5' / C1'-N / O3'-P distance tests of the 3D->2D step) is run on BOTH
presentations; if any decision quantity lies within the 1e-6 band on either, the input is excluded and counted
(`undecided`).  `spec` failure: the two real annotations differ although everything is decided.  `corr` failure:
on the changed presentation the real annotation contradicts the model by the rules of C03 (`pairs.check`,
functional equality where the implementation has no freedom), C04 (`stk.find`) and C11 (`ann.bph`), or the model
itself answers differently on two decided presentations (contradicting the invariance theorems).
"""
import os
import json

import numpy

from core import Result, call, ddmin, parallel_map
from corr import c03, c04
from gen import g3, g3pairs as G, g5pres as P

QUICK_CORPUS = ["1E7K_1_C.cif", "1A1T_1_B.cif", "1DFU_1_M-N.cif", "4WTI_1_T-P.cif", "6INQ.cif", "1HMH_1_E.cif",
                "1ATO.pdb", "1E7K_1_C_modified.cif", "2HY9.cif", "6RS3.cif", "6FC9.cif", "1JJP.cif",
                "q-ugg-5k-salt_400-500ns_frame1065.pdb", "488d.pdb", "4gqj-assembly1.cif"]
# every one of the 24 axis permutations is applied to these (small, many contested contacts)
ALL_AXIS = ["1E7K_1_C.cif", "1A1T_1_B.cif", "6RS3.cif"]

_CASES = []       # list of dicts (see mk_case)
_TMP = None


# ------------------------------------------------------------------------------------------------ observation

def _positions(residues):
    pos = {}
    for i, r in enumerate(residues):
        pos.setdefault(("l", r.label), i)
        pos.setdefault(("a", r.auth), i)
    return pos


def _idx(pos, nt):
    if nt.label is not None and ("l", nt.label) in pos:
        return pos[("l", nt.label)]
    if nt.auth is not None and ("a", nt.auth) in pos:
        return pos[("a", nt.auth)]
    return -1


def _strands(text, pre=">strand_"):
    """dot-bracket text -> [(chain, sequence, structure)]"""
    lines = text.split("\n") if text else []
    out = []
    for k in range(0, len(lines) - 2, 3):
        h = lines[k]
        out.append((h[len(pre):] if h.startswith(pre) else "?" + h, lines[k + 1], lines[k + 2]))
    return out


def _extended(text):
    """extended dot-bracket -> [(chain, rows)]"""
    out = []
    for line in (text.split("\n") if text else []):
        if line.startswith("    >strand_"):
            out.append([line[len("    >strand_"):], []])
        elif out:
            out[-1][1].append(line)
    return [(c, tuple(rows)) for c, rows in out]


def observe(residues, gaps=True):
    """canonical observation of one presentation; residues as positions; ('err', name) when the code raises"""
    from rnapolis.annotator import extract_secondary_structure
    from rnapolis.tertiary import Mapping2D3D, Structure3D
    import warnings
    st = Structure3D(list(residues))
    pos = _positions(residues)
    with warnings.catch_warnings():
        warnings.simplefilter("ignore")
        status, val = call(extract_secondary_structure, st, None)
    if status != "ok":
        return {"err": val}
    s2d = val[0]
    bi = s2d.baseInteractions
    obs = {
        "pairs": [(_idx(pos, p.nt1), _idx(pos, p.nt2), p.lw.value, p.saenger.value if p.saenger is not None else None)
                  for p in bi.basePairs],
        "stackings": [(_idx(pos, p.nt1), _idx(pos, p.nt2), p.topology.value if p.topology is not None else None)
                      for p in bi.stackings],
        "bph": [(_idx(pos, p.nt1), _idx(pos, p.nt2), p.bph.value if p.bph is not None else None)
                for p in bi.basePhosphateInteractions],
        "br": [(_idx(pos, p.nt1), _idx(pos, p.nt2), p.br.value if p.br is not None else None)
               for p in bi.baseRiboseInteractions],
        "bpseq": s2d.bpseq,
        "dot": _strands(s2d.dotBracket),
        "dots": list(val[1]) if len(val[1]) != 1 else [],
        "ext": _extended(s2d.extendedDotBracket),
        "elements": [repr(s2d.stems), repr(s2d.singleStrands), repr(s2d.hairpins), repr(s2d.loops)],
    }
    if not gaps:
        obs["gaps"] = {"err": "not-computed"}
        return obs
    with warnings.catch_warnings():
        warnings.simplefilter("ignore")
        stg, g = call(lambda: (lambda m: (str(m.bpseq), m.dot_bracket))(Mapping2D3D(st, bi.basePairs, bi.stackings, True)))
    obs["gaps"] = {"err": g} if stg != "ok" else {"bpseq": g[0], "dot": _strands(g[1])}
    return obs


def rename_obs(obs, cmap):
    """the observation expected after renaming chains through cmap"""
    if "err" in obs or not cmap:
        return obs
    out = dict(obs)
    out["dot"] = [(cmap.get(c, c), s, d) for c, s, d in obs["dot"]]
    out["ext"] = [(cmap.get(c, c), rows) for c, rows in obs["ext"]]
    if "err" not in obs["gaps"]:
        out["gaps"] = dict(obs["gaps"], dot=[(cmap.get(c, c), s, d) for c, s, d in obs["gaps"]["dot"]])
    return out


COMPONENTS = ["pairs", "stackings", "bph", "br", "bpseq", "dot", "dots", "ext", "elements", "gaps"]


def diff(a, b, skip=()):
    """names of the components that differ"""
    if "err" in a or "err" in b:
        return [] if a.get("err") == b.get("err") else ["raises"]
    return [k for k in COMPONENTS if k not in skip and a[k] != b[k]]


def describe(a, b, comps, names):
    out = []
    for k in comps[:3]:
        if k == "raises":
            out.append("raises: base=%s changed=%s" % (a.get("err"), b.get("err")))
            continue
        if k in ("pairs", "stackings", "bph", "br"):
            sa, sb = set(a[k]), set(b[k])
            nm = lambda t: "%s-%s:%s" % (names[t[0]] if 0 <= t[0] < len(names) else "?", names[t[1]] if 0 <= t[1] < len(names) else "?", t[2])  # noqa: E731
            only_a = sorted(sa - sb)[:4]
            only_b = sorted(sb - sa)[:4]
            if only_a or only_b:
                out.append("%s: only base %s; only changed %s" % (k, [nm(t) for t in only_a], [nm(t) for t in only_b]))
            else:
                out.append("%s: same set, different order" % k)
        else:
            out.append("%s differs: base=%r changed=%r" % (k, str(a[k])[:160], str(b[k])[:160]))
    return "; ".join(out)


# ------------------------------------------------------------------------------------------------ cases

def mk_case(family, tag, base, other, cmap=None, skip=(), source=None, texts=None, margins_other=True, corr=False):
    return {"family": family, "tag": tag, "base": base, "other": other, "cmap": cmap or {}, "skip": tuple(skip),
            "source": source, "texts": texts, "margins_other": margins_other, "corr": corr}


_PRES = []        # distinct presentations (lists of residues), observed once each


def observe_idx(k):
    rs, gaps = _PRES[k]
    return observe(rs, gaps)


def parse_margins(text):
    d = dict(p.split("=", 1) for p in text.split(";") if "=" in p)
    if "und" not in d:
        raise ValueError("model answered %r" % text[:200])
    return d


def corpus_presentations(ctx, res):
    if ctx.quick:
        loaded = []
        for n in QUICK_CORPUS:
            st = call(g3.load, G.path_of(n))
            if st[0] == "ok" and st[1].residues:
                loaded.append((n, st[1]))
            else:
                res.notes.append("cannot read %s" % n)
    else:
        loaded = g3.corpus()
    out = []
    for n, st in loaded:
        rs = list(st.residues)
        if len(rs) > ctx.pick(60, 400) or not G.finite(rs) or not P.identities_unique(rs):
            res.count("corpus-skipped(size/identities)")
            continue
        out.append((n, rs))
    return out


def build_cases(ctx, res):
    rng = ctx.rng
    cases = []
    pres = corpus_presentations(ctx, res)
    templates = []
    for name, rs in pres:
        small = len(rs) <= 30
        # ---- rigid
        kinds = ["so3", "so3-far", "translation"] * ctx.pick(1, 3)
        for kind in kinds:
            tag, R, t = P.random_motion(rng, kind)
            cases.append(mk_case("rigid", tag, rs, P.moved(rs, R, t), source=name, corr=small))
        axis = range(24) if (name in ALL_AXIS or not ctx.quick and small) else rng.sample(range(24), ctx.pick(3, 8))
        for k in axis:
            t = [rng.uniform(-500, 500) for _ in range(3)] if rng.random() < 0.5 else [0.0, 0.0, 0.0]
            cases.append(mk_case("rigid", "axis%d" % k, rs, P.moved(rs, P.AXIS_PERMS[k], t), source=name))
        # ---- atom order
        for _ in range(ctx.pick(2, 4)):
            cases.append(mk_case("shuffle", "atoms", rs, P.atom_shuffled(rng, rs), source=name, margins_other=small, corr=small))
        # ---- renaming
        for shift_only in (True, False):
            ntag, other, cmap = P.relabelled(rng, rs, shift_only)
            cases.append(mk_case("relabel", ntag, rs, other, cmap=cmap, skip=() if shift_only else ("gaps",), source=name,
                                 margins_other=small, corr=small))
        # ---- formats (through the reader)
        recs = P.table_of(rs)
        if recs is None:
            res.count("format:not-representable-in-pdb")
        else:
            variants = [("same", recs, {})]
            mv = P.table_axis_moved(rng, recs)
            if mv is not None:
                variants.append(("axis+translation", mv, {}))
            variants.append(("atoms-shuffled", P.table_atom_shuffled(rng, recs), {}))
            rl, cmap, _ = P.table_relabelled(rng, recs)
            variants.append(("renamed", rl, cmap))
            sib = P.table_icode_siblings(rng, recs)
            if sib is not None:
                variants.append(("icode-siblings", sib, {}))
            variants.append(("model-5", [dict(r, model=5) for r in recs], {}))     # the only model of the file is not number 1
            org = P.table_atom_at_origin(rng, recs)
            if org is not None:
                variants.append(("atom-at-origin", org, {}))
            dsc = P.table_icode_siblings(rng, recs, descending=True)
            if dsc is not None:
                variants.append(("icodes-descending", dsc, {}))
            base_pdb, base_cif = P.table_texts(recs)
            for vtag, vrecs, cmap in variants:
                pdb, cif = P.table_texts(vrecs)
                st_p = call(P.read_text, pdb, ".pdb")
                st_c = call(P.read_text, cif, ".cif")
                st_b = call(P.read_text, base_cif, ".cif")
                if st_p[0] != "ok" or st_c[0] != "ok" or st_b[0] != "ok":
                    res.count("format:reader-raises")
                    res.fail("spec", "C05:format:reader-raises", {"family": "format", "tag": vtag, "texts": {"pdb": pdb, "cif": cif}},
                             "read_3d_structure raised: pdb=%s cif=%s" % (st_p[1] if st_p[0] != "ok" else "ok", st_c[1] if st_c[0] != "ok" else "ok"))
                    continue
                rp, rc, rb = st_p[1].residues, st_c[1].residues, st_b[1].residues
                if sorted({r.model for r in rp}) != sorted({r.model for r in rc}):
                    res.fail("spec", "C05:format:model-numbers-differ", {"family": "format", "tag": vtag, "texts": {"pdb": pdb, "cif": cif}},
                             "the same table read as PDB has models %s, as mmCIF %s" % (sorted({r.model for r in rp}), sorted({r.model for r in rc})))
                # PDB against mmCIF of the same table
                cases.append(mk_case("format", "pdb-vs-cif:" + vtag, rc, rp, source=name, texts={"base": cif, "other": pdb},
                                     margins_other=False))
                if vtag not in ("same", "icodes-descending", "model-5"):
                    # the changed table (as PDB) against the base table (as mmCIF)
                    cases.append(mk_case("format", "table-" + vtag, rb, rp, cmap=cmap, source=name,
                                         skip=("gaps",) if vtag == "icode-siblings" else (),
                                         texts={"base": base_cif, "other": pdb}, margins_other=vtag in ("axis+translation", "atom-at-origin")))
        mine = []
        try:
            from rnapolis.annotator import find_pairs
            s = G.structure(rs)
            mine = G.template_pairs(s, find_pairs(s, None)[0])[:30]
        except Exception:  # noqa: BLE001
            pass
        templates += mine
        # ---- tied competitors inside a whole structure: an overlapping copy of a paired residue is appended, so two
        # candidates compete for the partner's edge with (often) equal counts among many other contacts
        if mine and len(rs) <= ctx.pick(30, 60):
            for _ in range(ctx.pick(2, 4)):
                ri, rj = mine[rng.randrange(len(mine))]
                shift = numpy.array([rng.uniform(-0.4, 0.4) for _ in range(3)])
                top = max(r.number for r in rs if r.chain == rj.chain)
                copy = G.rebuild(rj, xyz=lambda p: p + shift, relabel=(rj.chain, top + rng.randint(1, 40)))
                rs2 = P.fresh(rs) + [copy]
                if not P.identities_unique(rs2):
                    continue
                for _ in range(ctx.pick(4, 8)):
                    mtag, R, t = P.random_motion(rng, rng.choice(["so3", "axis", "so3-far"]))
                    cases.append(mk_case("rigid", "tie-context:" + mtag, rs2, P.moved(rs2, R, t), source=name))
    # ---- a structure with modified residues, as PDB (with MODRES records) against mmCIF, in entry numbering and with the
    # modified residues carrying insertion codes
    st = call(g3.load, G.path_of("1ehz-assembly-1.cif"))
    if st[0] == "ok" and st[1].residues and P.identities_unique(list(st[1].residues)):
        recs = P.table_of([r for r in st[1].residues if r.is_nucleotide])     # the RNA chain (waters and ions left out)
        if recs is not None:
            for vtag, vrecs in (("modified-residues", recs), ("modified-residues+icodes", P.table_modified_siblings(recs))):
                if vrecs is None:
                    continue
                pdb, cif = P.table_texts(vrecs)
                st_p, st_c = call(P.read_text, pdb, ".pdb"), call(P.read_text, cif, ".cif")
                if st_p[0] == "ok" and st_c[0] == "ok":
                    cases.append(mk_case("format", "pdb-vs-cif:" + vtag, st_c[1].residues, st_p[1].residues, source="1ehz-assembly-1.cif",
                                         texts={"base": cif, "other": pdb}, margins_other=False))
    # ---- synthetic placements (threshold straddles, free perturbations, overlapping copies = tied competitors)
    for tag, rs in G.placements(rng, templates, ctx.pick(160, 3000)):
        rs = sorted(rs, key=lambda r: (r.chain, r.number)) if rng.random() < 0.5 else rs
        if not P.identities_unique(rs):
            continue
        fam = tag.split(":")[0].rstrip("+-.0123456789e")
        nmot = 3 if fam == "copy" else 1
        if tag.startswith("dist") and ("e-05" in tag or "0.0001" in tag):
            # a contact 2e-5 / 1e-4 from the cut-off (20-100 band widths): far translations and rotations, several each,
            # because arithmetic of lower precision anywhere in the pipeline shows exactly here
            for _ in range(6):
                mtag, R, t = P.random_motion(rng, rng.choice(["so3-far", "translation"]))
                cases.append(mk_case("rigid", "place-dist-tight:" + mtag, rs, P.moved(rs, R, t)))
        for _ in range(nmot):
            mtag, R, t = P.random_motion(rng)
            cases.append(mk_case("rigid", "place-%s:%s" % (fam, mtag), rs, P.moved(rs, R, t), corr=rng.random() < 0.3))
        if rng.random() < 0.3:
            cases.append(mk_case("shuffle", "place-" + fam, rs, P.atom_shuffled(rng, rs)))
        if rng.random() < 0.3:
            ntag, other, cmap = P.relabelled(rng, rs, rng.random() < 0.5)
            cases.append(mk_case("relabel", "place-%s:%s" % (fam, ntag), rs, other, cmap=cmap,
                                 skip=() if ntag.startswith("shift") else ("gaps",)))
    # ---- stacking placements around the three thresholds
    for _ in range(ctx.pick(80, 1500)):
        st = g3.stack_random(rng)
        rs = list(st.residues)
        mtag, R, t = P.random_motion(rng)
        cases.append(mk_case("rigid", "stack:" + mtag, rs, P.moved(rs, R, t), corr=rng.random() < 0.3))
    return cases


# ------------------------------------------------------------------------------------------------ run

def cause_of(fam, comps, mb):
    """mechanism by which a rigid motion can reach the result, diagnosed with the model: some atom takes part in
    several consumable donor-oxygen contacts, or two candidates compete for an edge with equal counts -- then the
    order in which the contacts are processed decides"""
    if fam != "rigid" and not fam.startswith("format"):
        return None
    if "stackings" in comps or "raises" in comps:
        return None
    if mb.get("contested", "-") != "-" or mb.get("tied") == "true":
        return "competing-contacts-order"
    return None


def signature(case, comps, mb):
    fam = case["family"]
    cause = cause_of(fam, comps, mb) if fam == "rigid" else None
    if cause:
        return "C05:rigid:%s" % cause
    group = []
    for k in comps:
        g = k if k in ("pairs", "stackings", "bph", "br", "raises") else "secondary"
        if g not in group:
            group.append(g)
    return "C05:%s:%s" % (fam, "+".join(group))


def case_input(case):
    inp = {"family": case["family"], "tag": case["tag"], "source": case["source"], "cmap": case["cmap"], "skip": list(case["skip"]),
           "base": c03.dump_residues(case["base"]), "other": c03.dump_residues(case["other"])}
    if case["texts"]:
        inp["texts"] = case["texts"]
    return inp


def corr_requests(case):
    """C03 / C04 / C11 style requests for the changed presentation"""
    rs = case["other"]
    real = c03.real_pairs(rs, None)
    reqs = []
    if real[0] == "ok":
        enc = G.encode(rs)
        reqs.append(("pairs.check", ["pairs.check", enc, c03.reported_arg(real[1])], real))
        reqs.append(("pairs.model", ["pairs.model", enc], real))
    st = g3.mk_structure(rs)
    if g3.well_formed(st):
        reqs.append(("stk.find", ["stk.find", "-", g3.to_request(st)], st))
    return reqs


def run(ctx):
    global _CASES
    res = Result("C05")
    res.rule = ("pairs (base presentation, changed presentation) of one structure: corpus files of /repo/tests (<= 60 residues "
                "in quick, <= 400 in thorough) and synthetic 2-3 residue placements (donor-acceptor distance, normal angle, "
                "glycosidic torsion at threshold +-{1e-3,1e-2,0.1}; free perturbations; overlapping copies = tied competitors; "
                "stacking placements); changes: random SO(3) + translation <= 500 A, all 24 proper signed permutation matrices, "
                "atom order inside residues, order-preserving chain/number renaming, PDB vs mmCIF text of one token table "
                "(also axis-permuted / shuffled / renamed tables); non-trivial = the base presentation has at least one "
                "interaction; distinct by (family, change, base annotation); inputs with a decision quantity inside the 1e-6 band "
                "on either presentation are excluded and counted")
    global _PRES
    cases = build_cases(ctx, res)
    _CASES = cases
    pres_of = {}
    _PRES = []
    for c in cases:
        for k in ("base", "other"):
            if id(c[k]) not in pres_of:
                pres_of[id(c[k])] = len(_PRES)
                _PRES.append((c[k], k == "base" or "gaps" not in c["skip"]))
    seen = parallel_map(observe_idx, range(len(_PRES)))
    obs = [(seen[pres_of[id(c["base"])]], seen[pres_of[id(c["other"])]]) for c in cases]
    res.count("distinct-presentations", len(_PRES))
    # model margins: base always; changed presentation when its coordinates or residues differ
    reqs, where = [], []
    enc_cache = {}

    def enc_of(rs):
        k = id(rs)
        if k not in enc_cache:
            enc_cache[k] = G.encode(rs)
        return enc_cache[k]
    for ci, c in enumerate(cases):
        reqs.append(["c05.margins", enc_of(c["base"])]); where.append((ci, "mb"))
        if c["margins_other"]:
            reqs.append(["c05.margins", enc_of(c["other"])]); where.append((ci, "mo"))
    # de-duplicate identical requests (many cases share the base presentation)
    uniq = {}
    for r in reqs:
        uniq.setdefault(r[1], None)
    keys = list(uniq)
    answers = G.ask_parallel(ctx.driver, [["c05.margins", k] for k in keys], nproc=16)
    for k, a in zip(keys, answers):
        uniq[k] = a
    marg = {}
    for (ci, what), r in zip(where, reqs):
        marg[(ci, what)] = parse_margins(uniq[r[1]])
    # exact replay of the invariance theorems in the model for a few small corpus presentations
    replay_reqs, replay_where = [], []
    seen_src = set()
    for ci, c in enumerate(cases):
        if c["source"] and c["source"] not in seen_src and len(c["base"]) <= 30:
            seen_src.add(c["source"])
            for m, t in (("2/3,-1/3,2/3,2/3,2/3,-1/3,-1/3,2/3,2/3", "-500,1234567/1000,1/3"),
                         ("0,0,1,1,0,0,0,1,0", "12,-7/2,499"), ("1,0,0,0,1,0,0,0,-1", "0,0,0")):
                replay_reqs.append(["c05.motion", enc_of(c["base"]), m, t]); replay_where.append((ci, m))
    for (ci, m), r in zip(replay_where, G.ask_parallel(ctx.driver, replay_reqs, nproc=16)):
        d = dict(p.split("=", 1) for p in r.split(";") if "=" in p)
        res.count("model-exact-motion-replays")
        proper = d.get("proper") == "true"
        bad = [k for k in ("contacts", "pairs", "bcontacts", "conn") if d.get(k) != "true"]
        if proper and d.get("stackings") != "true":
            bad.append("stackings")
        if bad:
            res.fail("corr", "C05:model:exact-motion", {"family": "model", "matrix": m, "base": c03.dump_residues(cases[ci]["base"])},
                     "the Lean model answers differently on an exact rational image: %s (%s)" % (bad, r))
        if not proper and d.get("stackings") != "true":
            res.count("mirror-image-changes-stackings")
    # verdicts
    corr_cases = []
    for ci, c in enumerate(cases):
        a, b = obs[ci]
        fam = c["family"]
        res.count("family:" + fam)
        res.count("change:%s:%s" % (fam, c["tag"].split(":")[0].rstrip("0123456789") if fam != "format" else c["tag"]))
        mb = marg[(ci, "mb")]
        mo = marg.get((ci, "mo"), mb)
        und = int(mb["und"]) + (int(mo["und"]) if (ci, "mo") in marg else 0)
        n_int = 0 if "err" in a else len(a["pairs"]) + len(a["stackings"]) + len(a["bph"]) + len(a["br"])
        res.case((fam, c["tag"], c["source"], repr(a)[:300]), nontrivial=n_int > 0)
        if "err" in a:
            res.count("base-raises:" + str(a["err"]))
            # two presentations that both raise compare equal; an annotator that raises on a well-formed structure is
            # no longer the function the model describes
            if not any(f["signature"].startswith("C05:corr:annotator-raises") for f in res.failures):
                res.fail("corr", "C05:corr:annotator-raises:%s" % a["err"], case_input(c),
                         "the real annotation of the base presentation raises %s; the model annotates it" % a["err"])
        res.count("residues<=3" if len(c["base"]) <= 3 else "residues<=30" if len(c["base"]) <= 30 else "residues>30")
        if mb.get("tied") == "true":
            res.count("inputs-with-tied-competitors")
        if mb.get("contested", "-") != "-":
            res.count("inputs-with-contested-donor/oxygen-atoms")
        if und:
            res.undecided += 1
            res.count("excluded:undecided")
            continue
        if (ci, "mo") in marg:
            same_model = all(mb.get(k) == mo.get(k) for k in ("tied", "stable", "cand")) and \
                (mb.get("contested") == mo.get("contested") or fam == "format")
            if not same_model:
                res.fail("corr", "C05:model:margins-differ", case_input(c),
                         "the model's diagnostics differ between two decided presentations: base=%s changed=%s" % (mb, mo))
        comps = diff(rename_obs(a, c["cmap"]), b, c["skip"])
        if comps:
            names = [str(r) for r in c["base"]]
            res.fail("spec", signature(c, comps, mb), case_input(c),
                     "%s/%s%s: %s" % (fam, c["tag"], " of " + c["source"] if c["source"] else "", describe(rename_obs(a, c["cmap"]), b, comps, names)))
        if c["corr"]:
            corr_cases.append(ci)
    # correspondence on the changed presentations (rules of C03 / C04 / C11)
    creqs, cwhere = [], []
    for ci in corr_cases:
        for what, req, aux in corr_requests(cases[ci]):
            creqs.append(req); cwhere.append((ci, what, aux))
    for (ci, what, aux), r in zip(cwhere, G.ask_parallel(ctx.driver, creqs, nproc=16)):
        c = cases[ci]
        res.count("corr:" + what)
        if what == "pairs.check":
            head, fails, und, notes = c03.parse_verdict(r)
            for f in fails:
                res.fail("corr", "C05:corr:" + c03.signature_of(f), case_input(c), "changed presentation (%s): %s" % (c["tag"], f))
        elif what == "pairs.model":
            parts = dict(p.split("=", 1) for p in r.split(";") if "=" in p)
            if parts.get("det") == "true":
                mine = sorted(x for x in parts.get("pairs", "").split(",") if x)
                theirs = sorted("%d-%d-%s" % p for p in aux[1])
                if mine != theirs:
                    res.fail("corr", "C05:corr:pairs-functional", case_input(c), "model=%s impl=%s" % (mine[:10], theirs[:10]))
        elif what == "stk.find":
            st = aux
            c04._CASES[:] = [("c05", st, None)]
            impl = c04.real(0)
            yes, undp = c04.parse_model(r)
            for kind, sig, detail in c04.compare(st, None, impl, yes, undp)[0]:
                res.fail("corr", "C05:corr:" + sig, case_input(c), "changed presentation (%s): %s" % (c["tag"], detail))
    cli_entry_pair(ctx, res)
    k = 0
    for ci, c in enumerate(cases):
        a, b = obs[ci]
        if "err" not in a and a["pairs"] and k < 8 and (k % 2 == 0 or c["family"] != "rigid"):
            k += 1
            res.sample({"family": c["family"], "change": c["tag"], "source": c["source"], "residues": len(c["base"]),
                        "pairs": a["pairs"][:3], "stackings": a["stackings"][:2], "bph": a["bph"][:2], "br": a["br"][:2],
                        "dot": a["dot"][:1], "equal": not diff(rename_obs(a, c["cmap"]), b, c["skip"])})
    return res


def cli_entry_pair(ctx, res):
    """one entry of the corpus exists in both formats (4qln.pdb / 4qln.cif: riboswitch with two c-di-AMP ligands that pair and
    stack with the RNA; the mmCIF file has entity tables, the PDB file cannot): the command-line tool must write the same
    interaction table, BPSEQ and notation for both files, and each must be what the library gives for that file"""
    import csv as _csv
    import io
    from core import fork_map
    from corr import cli_annotator as CA
    tests = os.environ.get("RNAPOLIS_TESTS", "/repo/tests")
    pair = [os.path.join(tests, n) for n in ("4qln.cif", "4qln.pdb")]
    if not all(os.path.exists(p) for p in pair):
        res.count("cli-entry-pair:files-missing")
        return
    jobs = [(open(p).read(), os.path.splitext(p)[1], flags) for flags in (["-c", "-b", "-j"], ["-c", "-b", "-f"]) for p in pair]
    outs = fork_map(CA._one, jobs, chunksize=1)
    for k in range(0, len(jobs), 2):
        (ta, sa, flags), oa, ob = jobs[k], outs[k], outs[k + 1]
        res.count("cli-entry-pair:runs", 2)
        res.case(("cli-entry-pair", tuple(flags)), nontrivial=True)
        inp = {"family": "cli:entry-in-both-formats", "files": ["4qln.cif", "4qln.pdb"], "flags": flags}
        for o, name in ((oa, "4qln.cif"), (ob, "4qln.pdb")):
            if o["lib"] is not None and "file:-c" in o:
                rows = [r for r in _csv.reader(io.StringIO(o["file:-c"], newline=""))]
                if rows != o["lib"]["csv"]:
                    res.fail("spec", "C05:cli:csv-differs-from-library", dict(inp, file=name), "%s: the tool's CSV has %d rows, the library's lists %d" % (name, len(rows), len(o["lib"]["csv"])))
        for key, what in (("file:-c", "interaction table"), ("file:-b", "BPSEQ"), ("stdout", "printed notation")):
            if oa.get(key) != ob.get(key):
                res.fail("spec", "C05:cli:formats-differ:%s" % what.replace(" ", "-"), inp,
                         "annotator %s: %s differs between the mmCIF and the PDB file of the same entry" % (" ".join(flags), what))


# ------------------------------------------------------------------------------------------------ shrink / replay

def _fails(ctx, base, other, cmap, skip, sig_prefix):
    a, b = observe(base), observe(other)
    comps = diff(rename_obs(a, cmap), b, skip)
    if not comps:
        return False
    try:
        mb = parse_margins(ctx.driver.ask1("c05.margins", G.encode(base)))
        mo = parse_margins(ctx.driver.ask1("c05.margins", G.encode(other)))
    except Exception:  # noqa: BLE001
        return False
    return int(mb["und"]) == 0 and int(mo["und"]) == 0


def shrink(ctx, failure):
    """fewest residues (same positions in both presentations) on which two decided presentations still differ"""
    inp = failure["input"]
    if "base" not in inp or inp.get("family") == "format":
        return failure
    base, other = c03.load_residues(inp["base"]), c03.load_residues(inp["other"])
    if len(base) != len(other):
        return failure
    cmap, skip = inp.get("cmap") or {}, tuple(inp.get("skip") or ())
    idx = list(range(len(base)))

    def still(sub):
        return _fails(ctx, [base[i] for i in sub], [other[i] for i in sub], cmap, skip, failure["signature"])
    if not still(idx):
        return failure
    small = ddmin(idx, still, max_steps=250)
    b2, o2 = [base[i] for i in small], [other[i] for i in small]
    a, b = observe(b2), observe(o2)
    comps = diff(rename_obs(a, cmap), b, skip)
    out = dict(failure)
    out["input"] = dict(inp, base=c03.dump_residues(b2), other=c03.dump_residues(o2), shrunk_from=len(base))
    out["input"].pop("texts", None)
    out["detail"] = "%s/%s: %s  [residues: %s]" % (inp.get("family"), inp.get("tag"),
                                                    describe(rename_obs(a, cmap), b, comps, [str(r) for r in b2]),
                                                    ", ".join(str(r) for r in b2))
    return out


def replay(ctx, data):
    if "input" not in data:
        print(json.dumps({k: data.get(k) for k in ("no_longer_checks", "correspondence", "note")}, indent=1)[:4000])
        for c in data.get("correspondence", [])[:1]:
            if "base" in c.get("input", {}) and "other" in c["input"]:
                replay(ctx, {"input": c["input"], "signature": c["signature"]})
        return
    inp = data["input"]
    if str(inp.get("family", "")).startswith("cli:entry"):
        r = Result("C05")
        cli_entry_pair(ctx, r)
        for f in r.failures:
            print("%s FAILURE %s: %s" % (f["kind"].upper(), f["signature"], f["detail"]))
        if not r.failures:
            print("no failure: both files give the same outputs")
        return
    if "other" not in inp:
        if "texts" in inp:
            for k, suffix in (("pdb", ".pdb"), ("cif", ".cif")):
                print(k, call(P.read_text, inp["texts"][k], suffix)[0])
        elif "matrix" in inp:
            rs = c03.load_residues(inp["base"])
            print(ctx.driver.ask1("c05.motion", G.encode(rs), inp["matrix"], "0,0,0"))
        return
    base, other = c03.load_residues(inp["base"]), c03.load_residues(inp["other"])
    cmap, skip = inp.get("cmap") or {}, tuple(inp.get("skip") or ())
    print("family:", inp.get("family"), "change:", inp.get("tag"), "source:", inp.get("source"))
    print("residues:", [str(r) for r in base])
    a, b = observe(base), observe(other)
    for k in COMPONENTS:
        if "err" in a or "err" in b:
            break
        mark = "DIFFERENT" if rename_obs(a, cmap)[k] != b[k] and k not in skip else "equal"
        print("%-10s %-9s base=%s" % (k, mark, str(a[k])[:300]))
        if mark != "equal":
            print("%-10s %-9s changed=%s" % ("", "", str(b[k])[:300]))
    if "err" in a or "err" in b:
        print("raises:", a.get("err"), b.get("err"))
    mb = ctx.driver.ask1("c05.margins", G.encode(base))
    mo = ctx.driver.ask1("c05.margins", G.encode(other))
    print("model margins, base   :", mb)
    print("model margins, changed:", mo)
    comps = diff(rename_obs(a, cmap), b, skip)
    und = int(parse_margins(mb)["und"]) + int(parse_margins(mo)["und"])
    if comps and not und:
        print("SPEC FAILURE C05: two decided presentations of one structure are annotated differently:",
              describe(rename_obs(a, cmap), b, comps, [str(r) for r in base]))
    elif comps:
        print("differences, but a decision quantity lies inside the 1e-6 band (undecided, not reported)")
    else:
        print("annotations agree")
    print(json.dumps({"signature": data.get("signature")}))

"""C06 — 3D->2D mapping gives a valid matching and faithful text for any pair list.

Functional correspondence with the Lean model M2 (`map.model`): lifted pair list, BPSEQ, strand
sequences, BPSEQ of every extended row, text layout of `dot_bracket` / `all_dot_brackets`,
`is_connected`; relational where the MILP solver chooses levels (`map.rowmatch`, `ss.alldb`).
Specification predicates (Lean definitions `specBpseq`, `specText`, `specExt`, run through the
driver) on the outputs of the real code for every clause of the property.
"""
import json
import os

from core import history_probe, Result, call, ddmin, parallel_map
from gen import g2
from corr import cli_annotator

CORPUS_QUICK = ["1A1T_1_B.cif", "1ehz-assembly-1.cif"]
CORPUS_THOROUGH = CORPUS_QUICK + ["488d.pdb", "4gqj-assembly1.cif", "1DFU_1_M-N.cif", "2HY9.cif"]


# ------------------------------------------------------------------ real code

def _component_ok(pairs, limit=5, total=3000):
    """all_dot_brackets is exponential in the size of groups of crossing stems: only small ones"""
    five = [(i + 1, p) for i, p in enumerate(pairs) if p > i + 1]
    regs = []
    for (i, j) in five:
        if regs and regs[-1][-1] == (i - 1, j + 1):
            regs[-1].append((i, j))
        else:
            regs.append([(i, j)])
    regs = [s[0] for s in regs]
    n = len(regs)
    if n > 60:
        return False
    adj = {u: set() for u in range(n)}
    for u in range(n):
        k, l = regs[u]
        for v in range(u + 1, n):
            m, nn = regs[v]
            if k < m < l < nn or m < k < nn < l:
                adj[u].add(v)
                adj[v].add(u)
    seen, work = set(), 1
    import math
    for u in range(n):
        if u in seen:
            continue
        comp, stack = {u}, [u]
        while stack:
            x = stack.pop()
            for y in adj[x]:
                if y not in comp:
                    comp.add(y)
                    stack.append(y)
        seen |= comp
        if len(comp) > limit:
            return False
        work *= math.factorial(len(comp))
        if work > total:
            return False
    return True


def real(case):
    """everything the real code says about one case (plain data only)"""
    from rnapolis.common import BaseInteractions, LeontisWesthof, Saenger
    from rnapolis.tertiary import Mapping2D3D
    structure = g2.build_structure(case["structure"])
    nts = g2.nucleotides(structure)
    pos = {id(r): k for k, r in enumerate(nts)}
    bps = g2.build_pairs(structure, case["pairs"], case["mode"])
    fg = case["find_gaps"]
    m = Mapping2D3D(structure, bps, [], fg)
    lwi = {x: k for k, x in enumerate(LeontisWesthof)}
    sai = {x: k for k, x in enumerate(Saenger)}
    out = {}
    out["lifted"] = call(lambda: [(pos.get(id(b.nt1_3d), -1), pos.get(id(b.nt2_3d), -1), lwi[b.lw],
                                   None if b.saenger is None else sai[b.saenger]) for b in m.base_pairs])
    out["bpseq"] = call(lambda: ("".join(e.sequence for e in m.bpseq.entries), [e.pair for e in m.bpseq.entries],
                                 [e.index_ for e in m.bpseq.entries]))
    out["strands"] = call(lambda: [(c, s) for c, s in m.strands_sequences])
    out["structure_line"] = call(lambda: m.bpseq.dot_bracket.structure)
    out["dot_bracket"] = call(lambda: m.dot_bracket)
    out["extended"] = call(lambda: m.extended_dot_bracket)
    if out["bpseq"][0] == "ok" and case.get("want_all", True) and _component_ok(out["bpseq"][1][1]):
        out["all"] = call(lambda: sorted(m.all_dot_brackets))
    if case.get("want_adapter", True):
        def ext():
            from rnapolis.adapter import extract_secondary_structure_from_external
            s2d, dbs, mp = extract_secondary_structure_from_external(
                structure, BaseInteractions(bps, [], [], [], []), None, fg, False)
            return (s2d.bpseq, s2d.dotBracket, s2d.extendedDotBracket, dbs)
        out["adapter"] = call(ext)
    return out


# ------------------------------------------------------------------ encodings

def hx(s):
    return s.encode("utf-8").hex() if s else "-"


def enc_nts(desc, conn):
    return ";".join("%s:%d:%s:%d:%d" % (hx(c), n, hx(ic or ""), ord(l), 1 if cn else 0)
                    for (c, n, ic, l, _), cn in zip(desc, conn)) or "-"


def enc_pairs(pairs):
    def r(x):
        return "-" if isinstance(x, (list, tuple)) else str(x)
    return ",".join("%s:%s:%d:%s" % (r(a), r(b), lw, "-" if sa is None else str(sa)) for a, b, lw, sa in pairs) or "-"


def plist(p):
    return ",".join(map(str, p)) or "-"


def parse_dot_bracket(text):
    """'>strand_X / seq / dbn' triples"""
    lines = text.split("\n") if text else []
    if len(lines) % 3 != 0:
        return None
    out = []
    for k in range(0, len(lines), 3):
        if not lines[k].startswith(">strand_"):
            return None
        out.append((lines[k][len(">strand_"):], lines[k + 1], lines[k + 2]))
    return out


def parse_extended(text, lw_values):
    """blocks '    >strand_X / seq S / LW row ...' -> (strands [(chain, seq)], rows [(lw index, concatenated text)])"""
    blocks = []
    for line in (text.split("\n") if text else []):
        if line.startswith("    >strand_"):
            blocks.append([line[len("    >strand_"):], None, []])
        elif not blocks:
            return None
        elif line.startswith("seq "):
            blocks[-1][1] = line[4:]
        else:
            lab, _, row = line.partition(" ")
            if lab not in lw_values:
                return None
            blocks[-1][2].append((lw_values.index(lab), row))
    if any(b[1] is None for b in blocks):
        return None
    nrows = {len(b[2]) for b in blocks}
    if len(nrows) > 1:
        return None
    rows = []
    for k in range(nrows.pop() if nrows else 0):
        labs = {b[2][k][0] for b in blocks}
        if len(labs) != 1:
            return None
        rows.append((labs.pop(), "".join(b[2][k][1] for b in blocks)))
    return [(b[0], b[1]) for b in blocks], rows


# ------------------------------------------------------------------ run

def lw_tables():
    from rnapolis.common import LeontisWesthof
    lws = list(LeontisWesthof)
    return [x.value for x in lws], [lws.index(x.reverse) for x in lws]


def connectivity(ctx, descs):
    """conn flags through the model's `isConnected` (exact squared distances)"""
    reqs, where = [], []
    for di, desc in enumerate(descs):
        for k, t in enumerate(desc):
            reqs.append(["map.conn", t[4] if t[4] is not None else "-"])
            where.append((di, k))
    resp = ctx.driver.ask(reqs)
    conn = [[False] * len(d) for d in descs]
    for (di, k), r in zip(where, resp):
        conn[di][k] = (r == "true")
    return conn


def real_conn(case_structure):
    s = g2.build_structure(case_structure)
    nts = g2.nucleotides(s)
    return [nts[k].is_connected(nts[k + 1]) if k + 1 < len(nts) else False for k in range(len(nts))]


def build_cases(ctx, res):
    rng = ctx.rng
    lw_values, lw_rev = lw_tables()
    cases = []
    for c in g2.hand_cases():
        cases.append(("hand", c))
    names = CORPUS_QUICK if ctx.quick else CORPUS_THOROUGH
    per = ctx.pick(300, 1500)
    for name in names:
        s = g2.load_corpus(name)
        if not g2.unique_ok(s):
            res.notes.append("corpus structure %s skipped: residue identification not unique" % name)
            continue
        letters = [r.one_letter_name for r in g2.nucleotides(s)]
        sd = {"kind": "corpus", "name": name}
        # the structure's own annotation first
        from rnapolis.annotator import extract_base_interactions
        from rnapolis.common import LeontisWesthof, Saenger
        nts = g2.nucleotides(s)
        posn = {}
        for k, r in enumerate(nts):
            posn[r.auth] = k
            if r.label is not None:
                posn[r.label] = k
        own = []
        lwl, sal = list(LeontisWesthof), list(Saenger)
        for bp in extract_base_interactions(s).basePairs:
            a = posn.get(bp.nt1.auth, posn.get(bp.nt1.label))
            b = posn.get(bp.nt2.auth, posn.get(bp.nt2.label))
            if a is not None and b is not None:
                own.append([a, b, lwl.index(bp.lw), None if bp.saenger is None else sal.index(bp.saenger)])
        for fg in (False, True):
            cases.append(("own:" + name, {"structure": sd, "pairs": own, "mode": "full", "find_gaps": fg}))
        for _ in range(per):
            size = rng.choice([0, 1, 3, 6, 10, 16, 25, 40])
            pairs, feats = g2.random_pairs(rng, letters, size=size, lw_rev=lw_rev)
            # every list spells its residues uniformly (own annotation: label + auth; external tool: auth only).
            # g2.build_pairs also knows mode "mixed" (each occurrence of a residue spelled its own way); it is NOT
            # used for verdicts: heterogeneous spelling inside one list is not among the irregularities the
            # property's quantifier enumerates, and the unchanged code does not de-duplicate such entries
            # (DESIGN.md 14.5)
            mode = rng.choice(["full", "auth", "auth", "foreign-label"])
            for fg in (False, True):
                cases.append(("corpus:" + name, {"structure": sd, "pairs": pairs, "mode": mode, "find_gaps": fg, "feats": feats}))
    nsyn = ctx.pick(400, 6000)
    made = 0
    while made < nsyn:
        sd = g2.synthetic(rng)
        s = g2.build_structure(sd)
        if not g2.unique_ok(s):
            continue
        letters = [r.one_letter_name for r in g2.nucleotides(s)]
        for _ in range(2):
            pairs, feats = g2.random_pairs(rng, letters, lw_rev=lw_rev)
            for fg in (False, True):
                cases.append(("synthetic", {"structure": sd, "pairs": pairs, "mode": "auth", "find_gaps": fg, "feats": feats}))
        made += 1
    return cases, lw_values


def evaluate(ctx, res, cases, lw_values, verbose=False):
    """run real code + model + spec on the cases; returns per-case list of (kind, signature, detail)"""
    # model view of every distinct structure
    keyof = lambda c: json.dumps(c["structure"], sort_keys=True)
    structs = {}
    for _, c in cases:
        structs.setdefault(keyof(c), c["structure"])
    keys = list(structs)
    descs, nears = [], []
    for k in keys:
        d, near = g2.describe(g2.build_structure(structs[k]))
        descs.append(d)
        nears.append(near)
    conn = connectivity(ctx, descs)
    view = {}
    for k, d, cn, near in zip(keys, descs, conn, nears):
        rc = real_conn(structs[k])
        if near:
            res.undecided += near
            cn = rc  # within 1e-6 of the threshold: undecided, follow the code
        elif rc != cn:
            res.fail("corr", "C06:is_connected", {"structure": structs[k]}, "impl=%r model=%r" % (rc, cn))
        view[k] = (d, cn)
    outs = parallel_map(real, [c for _, c in cases])
    history_probe(ctx, res, real, [c for _, c in cases], "mapping")
    reqs, idx = [], []
    for ci, ((tag, c), o) in enumerate(zip(cases, outs)):
        d, cn = view[keyof(c)]
        fg = "1" if c["find_gaps"] else "0"
        N, P = enc_nts(d, cn), enc_pairs(c["pairs"])
        reqs.append(["map.model", fg, N, P]); idx.append((ci, "model"))
        if o["bpseq"][0] == "ok":
            seq, partners, _ = o["bpseq"][1]
            reqs.append(["map.spec_bpseq", fg, N, P, hx(seq), plist(partners)]); idx.append((ci, "spec_bpseq"))
            if o["dot_bracket"][0] == "ok":
                tr = parse_dot_bracket(o["dot_bracket"][1])
                if tr is not None:
                    reqs.append(["map.spec_text", hx(seq), plist(partners),
                                 ";".join("%s=%s=%s" % (hx(ch), hx(s), hx(db)) for ch, s, db in tr) or "-"])
                    idx.append((ci, "spec_text"))
            if o["structure_line"][0] == "ok":
                reqs.append(["map.text", fg, N, o["structure_line"][1] or "-"]); idx.append((ci, "text"))
                if "all" in o and o["all"][0] == "ok" and seq and all(ch.isalnum() or ch == "?" for ch in seq):
                    reqs.append(["ss.alldb", seq, plist(partners)]); idx.append((ci, "alldb"))
        if o["extended"][0] == "ok":
            pe = parse_extended(o["extended"][1], lw_values)
            if pe is not None:
                reqs.append(["map.spec_ext", fg, N, P, ";".join("%d=%s" % (lw, t) for lw, t in pe[1]) or "-"])
                idx.append((ci, "spec_ext"))
        # the same statement at the adapter entry point (extract_secondary_structure_from_external)
        if "adapter" in o and o["adapter"][0] == "ok":
            pa = parse_extended(o["adapter"][1][2], lw_values)
            if pa is not None:
                reqs.append(["map.spec_ext", fg, N, P, ";".join("%d=%s" % (lw, t) for lw, t in pa[1]) or "-"])
                idx.append((ci, "spec_ext_adapter"))
    resp = ctx.driver.ask(reqs)
    per_case = [dict() for _ in cases]
    for (ci, what), r in zip(idx, resp):
        per_case[ci][what] = r
    # second round: rows modulo levels need the model's row BPSEQs
    reqs2, idx2 = [], []
    findings = [[] for _ in cases]
    for ci, ((tag, c), o) in enumerate(zip(cases, outs)):
        f = findings[ci]
        pc = per_case[ci]
        mod = pc["model"].split("|")
        if len(mod) != 5:
            f.append(("corr", "C06:model:bad-response", pc["model"][:200]))
            continue
        m_bpseq, m_strands, m_tie, m_rows, m_lift = mod
        pc["tie"] = m_tie == "1"
        # lifted pairs
        if o["lifted"][0] == "ok":
            impl = ",".join("%d:%d:%d:%s" % (a, b, lw, "-" if sa is None else sa) for a, b, lw, sa in o["lifted"][1])
            if impl != m_lift:
                f.append(("corr", "C06:base_pairs", "impl=%s model=%s" % (impl[:300], m_lift[:300])))
        else:
            f.append(("spec", "C06:base_pairs:raises:" + o["lifted"][1], "base_pairs raised"))
        # bpseq
        if o["bpseq"][0] == "ok":
            seq, partners, index = o["bpseq"][1]
            impl = hx(seq) + " " + plist(partners)
            if impl != m_bpseq and not pc["tie"]:
                f.append(("corr", "C06:bpseq", "impl=%s model=%s" % (impl[:400], m_bpseq[:400])))
            if pc.get("spec_bpseq") != "ok":
                f.append(("spec", "C06:bpseq:" + str(pc.get("spec_bpseq")), "BPSEQ of the real code violates the property: %s" % pc.get("spec_bpseq")))
        else:
            f.append(("spec", "C06:bpseq:raises:" + o["bpseq"][1], "bpseq raised"))
        # strands
        if o["strands"][0] == "ok":
            impl = ";".join("%s=%s" % (hx(ch), hx(s)) for ch, s in o["strands"][1])
            if impl != m_strands:
                f.append(("corr", "C06:strands_sequences", "impl=%s model=%s" % (impl[:300], m_strands[:300])))
        else:
            f.append(("spec", "C06:strands:raises:" + o["strands"][1], "strands_sequences raised"))
        # dot-bracket text
        if o["dot_bracket"][0] == "ok":
            if "spec_text" not in pc:
                f.append(("spec", "C06:text:shape", "dot_bracket text is not made of (>strand, sequence, structure) triples"))
            elif pc["spec_text"] != "ok":
                f.append(("spec", "C06:" + pc["spec_text"].replace("fail:", ""), "per-strand text of the real code: %s" % pc["spec_text"]))
            if "text" in pc and pc["text"] != hx(o["dot_bracket"][1]):
                f.append(("corr", "C06:dot_bracket:layout", "impl=%r model=%r" % (o["dot_bracket"][1][:300], bytes.fromhex(pc["text"]).decode()[:300] if pc["text"] != "-" else "")))
        else:
            f.append(("spec", "C06:dot_bracket:raises:" + o["dot_bracket"][1], "dot_bracket raised"))
        # extended
        if o["extended"][0] == "ok":
            pe = parse_extended(o["extended"][1], lw_values)
            if pe is None:
                f.append(("spec", "C06:extended:shape", "extended text is not made of strand blocks with equal rows"))
            else:
                if pc.get("spec_ext") != "ok":
                    f.append(("spec", "C06:" + str(pc.get("spec_ext")).replace("fail:", ""),
                              "extended dot-bracket of the real code: %s" % pc.get("spec_ext")))
                if o["strands"][0] == "ok" and pe[0] != o["strands"][1]:
                    f.append(("spec", "C06:extended:strands", "strand headers/sequences of the extended text differ from strands_sequences"))
                mrows = [x.split("=") for x in m_rows.split(";")] if m_rows else []
                if [int(x[0]) for x in mrows] != [lw for lw, _ in pe[1]]:
                    f.append(("corr", "C06:extended:rows", "row classes impl=%r model=%r" % ([lw for lw, _ in pe[1]], [x[0] for x in mrows])))
                elif o["bpseq"][0] == "ok":
                    for (lw, text), x in zip(pe[1], mrows):
                        reqs2.append(["map.rowmatch", hx(o["bpseq"][1][0]), x[1] or "-", text or "-"]); idx2.append((ci, lw))
        else:
            f.append(("spec", "C06:extended:raises:" + o["extended"][1], "extended_dot_bracket raised"))
        # all_dot_brackets
        if "all" in o:
            if o["all"][0] != "ok":
                f.append(("spec", "C06:all_dot_brackets:raises:" + o["all"][1], "all_dot_brackets raised"))
            elif pc.get("alldb", "").startswith("ok"):
                lines = pc["alldb"][3:].split(",") if len(pc["alldb"]) > 3 else []
                d, cn = view[keyof(c)]
                pc["all_lines"] = lines
        # adapter
        if "adapter" in o:
            if o["adapter"][0] != "ok":
                if o["adapter"][1] not in ("other:LinAlgError",):
                    f.append(("corr", "C06:adapter:raises:" + o["adapter"][1], "extract_secondary_structure_from_external raised"))
            else:
                b, db, ext, dbs = o["adapter"][1]
                if o["bpseq"][0] == "ok":
                    seq, partners, index = o["bpseq"][1]
                    want = "\n".join("%d %s %d" % (i, ch, p) for i, ch, p in zip(index, seq, partners))
                    if b != want:
                        f.append(("corr", "C06:adapter:bpseq", "adapter bpseq text differs from Mapping2D3D.bpseq"))
                if o["extended"][0] == "ok" and ext != o["extended"][1]:
                    pa = parse_extended(ext, lw_values)
                    pb = parse_extended(o["extended"][1], lw_values)
                    if pa is None or pb is None or pa[0] != pb[0] or [r[0] for r in pa[1]] != [r[0] for r in pb[1]]:
                        f.append(("corr", "C06:adapter:extended", "adapter extended text differs"))
                if dbs != [db]:
                    f.append(("corr", "C06:adapter:dot_brackets", "returned list is not [dotBracket]"))
                if pc.get("spec_ext_adapter") not in (None, "ok"):
                    f.append(("spec", "C06:adapter:" + str(pc.get("spec_ext_adapter")).replace("fail:", ""),
                              "extended dot-bracket returned by extract_secondary_structure_from_external: %s" % pc.get("spec_ext_adapter")))
    # all_dot_brackets layout: model text for every structure line of the model's allDB
    reqs3, idx3 = [], []
    for ci, ((tag, c), o) in enumerate(zip(cases, outs)):
        if "all_lines" in per_case[ci]:
            d, cn = view[keyof(c)]
            for line in per_case[ci]["all_lines"]:
                reqs3.append(["map.text", "1" if c["find_gaps"] else "0", enc_nts(d, cn), line or "-"]); idx3.append(ci)
    resp2 = ctx.driver.ask(reqs2)
    for (ci, lw), r in zip(idx2, resp2):
        if r != "true":
            findings[ci].append(("corr", "C06:extended:row-text", "row of class %s is not the model's row BPSEQ under any level choice" % lw_values[lw]))
    resp3 = ctx.driver.ask(reqs3)
    texts = {}
    for ci, r in zip(idx3, resp3):
        texts.setdefault(ci, []).append(bytes.fromhex(r).decode() if r != "-" else "")
    for ci, t in texts.items():
        impl = outs[ci]["all"][1]
        if sorted(t) != impl:
            findings[ci].append(("corr", "C06:all_dot_brackets", "impl=%r model=%r" % (impl[:3], sorted(t)[:3])))
        if len(set(impl)) != len(impl):
            findings[ci].append(("spec", "C06:all_dot_brackets:repeat", "all_dot_brackets repeats a member"))
    return outs, per_case, findings


def run(ctx):
    res = Result("C06")
    res.rule = ("inputs: hand-made + corpus structures (own annotation and random pair lists) + synthetic minimal "
                "structures (O3'/P placed to force/forbid connectivity, number jumps -1..+5, insertion codes, several "
                "chains, interspersed non-nucleotides) x random lists of (residue, residue, LW, Saenger?) with exact "
                "duplicates, reversed duplicates, multiplets of degree <= 5 on one class, dangling residues, self pairs; "
                "each with find_gaps off and on; non-trivial = at least one pair lifted; distinct by (structure, list, find_gaps)")
    cases, lw_values = build_cases(ctx, res)
    outs, per_case, findings = evaluate(ctx, res, cases, lw_values)
    for (tag, c), o, pc, f in zip(cases, outs, per_case, findings):
        inp = {k: c[k] for k in ("structure", "pairs", "mode", "find_gaps")}
        inp["family"] = tag
        key = (json.dumps(c["structure"], sort_keys=True) if c["structure"]["kind"] == "synthetic" else c["structure"]["name"],
               json.dumps(c["pairs"]), c["find_gaps"])
        lifted = o["lifted"][1] if o["lifted"][0] == "ok" else []
        res.case(key, nontrivial=len(lifted) > 0)
        res.count("family:" + tag.split(":")[0])
        res.count("find_gaps:" + ("on" if c["find_gaps"] else "off"))
        for k, v in (c.get("feats") or {}).items():
            res.count("feature:" + k)
        n = len(c["pairs"])
        res.count("pairs:" + ("0" if n == 0 else "1-5" if n <= 5 else "6-20" if n <= 20 else ">20"))
        if pc.get("tie"):
            res.count("tie-in-conflict-resolution(bpseq compared by spec only)")
        if o["bpseq"][0] == "ok":
            seq, partners, _ = o["bpseq"][1]
            res.count("placeholders:" + ("0" if "?" not in seq else "some"))
            res.count("kept-pairs", sum(1 for p in partners if p) // 2)
        if o["strands"][0] == "ok":
            res.count("strands:" + str(min(len(o["strands"][1]), 4)) + ("+" if len(o["strands"][1]) >= 4 else ""))
        if "all" in o and o["all"][0] == "ok":
            res.count("all_dot_brackets-cases")
            res.count("all_dot_brackets-members", len(o["all"][1]))
        if o["extended"][0] == "ok":
            res.count("extended-rows", o["extended"][1].split("\n    >strand_")[0].count("\n") - 1 if o["extended"][1] else 0)
        for kind, sig, detail in f:
            res.fail(kind, sig, inp, detail)
    both = list(zip(cases, outs))
    for (tag, c), o in both[:2] + both[len(both) // 2: len(both) // 2 + 2] + both[-2:]:
        res.sample({"family": tag, "structure": c["structure"].get("name", "synthetic:%d residues" % len(c["structure"].get("residues", []))),
                    "pairs": c["pairs"][:6], "find_gaps": c["find_gaps"],
                    "dot_bracket": o["dot_bracket"][1][:160] if o["dot_bracket"][0] == "ok" else o["dot_bracket"]})
    external_listings(ctx, res)
    __import__("corr.fn_common", fromlist=["run_fn"]).run_fn(ctx, res, "C06")  # regenerated functions vs the real ones (tools/py2lean.py)
    # the command-line tool as an observation point (harness/corr/cli_annotator.py)
    cli_annotator.judge(res, "C06", cli_annotator.evaluate(ctx))
    return res


_S184 = {}


def shifted_listing(text, shift):
    out = []
    for line in text.splitlines():
        f = line.split("\t")
        for k in (0, 2):
            if len(f) > k:
                u = f[k].split("|")
                if len(u) > 4 and u[4].lstrip("-").isdigit():
                    u[4] = str(int(u[4]) + shift)
                    f[k] = "|".join(u)
        out.append("\t".join(f))
    return "\n".join(out) + ("\n" if text.endswith("\n") else "")


def real_external(item):
    """the adapter's whole path for one FR3D listing of 184D: file -> parse -> mapping -> (BPSEQ, dot-bracket, extended).
    item = listing text, or (shift, listing text): structure and listing with every residue number moved by `shift`
    (negative numbers are ordinary residue numbers)"""
    import tempfile
    from rnapolis.adapter import ExternalTool, process_external_tool_output
    from rnapolis.parser import read_3d_structure
    shift, text = item if isinstance(item, tuple) else (0, item)
    if "s" not in _S184:
        with open(os.path.join(g2.TESTS, "184D.cif")) as f:
            _S184["s"] = read_3d_structure(f, None)
    if shift and ("s", shift) not in _S184:
        from gen import g3
        st = g3.mk_structure([g3.renumber(r, r.chain, r.number + shift, r.icode) for r in _S184["s"].residues if r.is_nucleotide])
        fd, p = tempfile.mkstemp(suffix=".cif")
        os.close(fd)
        g3.write_cif(st, p)
        with open(p) as f:
            _S184[("s", shift)] = read_3d_structure(f, None)
        os.unlink(p)
    structure = _S184[("s", shift)] if shift else _S184["s"]
    if shift:
        text = shifted_listing(text, shift)
    with tempfile.NamedTemporaryFile("w", suffix=".txt", delete=False) as f:
        f.write(text)
    try:
        st, val = call(process_external_tool_output, structure, f.name, ExternalTool.FR3D)
    finally:
        os.unlink(f.name)
    if st != "ok":
        return repr(("err", val))
    s2d, dbs, mapping = val
    where = {}
    try:
        for k, r in mapping.bpseq_index_to_residue_map.items():
            where[k] = (r.chain, r.number)
    except Exception:  # noqa: BLE001
        where = {}
    joined = sorted({tuple(sorted([where.get(e.index_, ("?", e.index_)), where.get(e.pair, ("?", e.pair))])) for e in mapping.bpseq.entries if e.pair})
    return repr((str(s2d.bpseq), s2d.dotBracket, s2d.extendedDotBracket, dbs, joined))


def listed_cww(text):
    """unordered ((chain, number), (chain, number)) of the cWW lines of an FR3D listing, read independently of the adapter"""
    out = set()
    for line in text.splitlines():
        f = line.split("\t")
        if len(f) < 3 or f[1].strip() != "cWW":
            continue
        u, v = f[0].strip().split("|"), f[2].strip().split("|")
        try:
            out.add(tuple(sorted([(u[2], int(u[4])), (v[2], int(v[4]))])))
        except (IndexError, ValueError):
            continue
    return out


def external_listings(ctx, res):
    """several listings for one structure through the adapter in one process: what is derived from a listing must not
    contain anything of the listings read before it (forward and reverse order in fresh processes)"""
    from corr.c14 import fr3d_listing
    rng = ctx.rng
    base = [l for l in open(os.path.join(g2.TESTS, "184D-fr3d.txt")).read().splitlines() if l.strip()]
    items = ["\n".join(base) + "\n"]
    for _ in range(ctx.pick(6, 30)):
        k = rng.randint(1, max(1, len(base) - 1))
        items.append("\n".join(rng.sample(base, k)) + "\n")
    for _ in range(ctx.pick(3, 12)):
        items.append(fr3d_listing(rng))
    items.append("")
    res.count("family:external-listings", len(items))
    history_probe(ctx, res, real_external, items, "process_external_tool_output", k=len(items))
    # specification on what is derived from each listing when the others were read before it in the same process:
    # every pair of the BPSEQ joins two nucleotides that a cWW line of THIS listing names
    import ast
    from core import _run_sequence, fork_map
    seq = fork_map(_run_sequence, [(real_external, items)], nproc=1)[0]
    # residue numbers are names: the same structure and listing with every number moved by -4 (1..7 becomes -3..3) give
    # the same pairs under the moved names
    base_items = [t for t in items if t.strip()][: ctx.pick(4, 12)]
    moved = fork_map(_run_sequence, [(real_external, [(-4, t) for t in base_items])], nproc=1)[0]
    for t, r0, r1 in zip(base_items, [seq[items.index(t)] for t in base_items], moved):
        try:
            v0, v1 = ast.literal_eval(ast.literal_eval(r0)), ast.literal_eval(ast.literal_eval(r1))
        except Exception:  # noqa: BLE001
            continue
        if not (isinstance(v0, tuple) and isinstance(v1, tuple) and len(v0) == 5 and len(v1) == 5):
            if isinstance(v0, tuple) and len(v0) == 5:
                res.fail("spec", "C06:adapter:renumbered-structure-raises", {"family": "external-listings", "listing": shifted_listing(t, -4), "shift": -4},
                         "with all residue numbers moved by -4 the adapter path gives %r" % (v1,))
            continue
        res.count("external-listings:renumbered(-4)")
        want = sorted(tuple(sorted([(a[0], a[1] - 4), (b[0], b[1] - 4)])) for a, b in v0[4])
        got = sorted(tuple(sorted([tuple(a), tuple(b)])) for a, b in v1[4])
        if got != want:
            res.fail("spec", "C06:adapter:pairs-change-with-residue-numbers", {"family": "external-listings", "listing": shifted_listing(t, -4), "shift": -4},
                     "structure and listing renumbered by -4: BPSEQ pairs %s, expected the moved pairs %s" % (got[:4], want[:4]))
    for text, r in zip(items, seq):
        try:
            val = ast.literal_eval(ast.literal_eval(r))
        except Exception:  # noqa: BLE001
            continue
        if not isinstance(val, tuple) or len(val) != 5:
            continue
        res.count("external-listings:judged-after-earlier-listings")
        extra = [p for p in val[4] if tuple(p) not in listed_cww(text)]
        if extra:
            res.fail("spec", "C06:adapter:pair-not-in-the-listing", {"family": "external-listings", "listing": text, "read_before": items[:items.index(text)][-3:]},
                     "BPSEQ derived from this listing (after %d other listings in the same process) pairs %s, which no cWW line of the listing names"
                     % (items.index(text), extra[:4]))
            break


def _eval_one(ctx, inp):
    res = Result("C06")
    lw_values, _ = lw_tables()
    case = {k: inp[k] for k in ("structure", "pairs", "mode", "find_gaps")}
    outs, per_case, findings = evaluate(ctx, res, [(inp.get("family", "replay"), case)], lw_values)
    return outs[0], per_case[0], findings[0] + [(f["kind"], f["signature"], f["detail"]) for f in res.failures]


def shrink(ctx, failure):
    """smallest sub-list of pairs that still shows the same signature"""
    if cli_annotator.is_cli(failure.get("input")):
        return failure
    inp = dict(failure["input"])
    sig = failure["signature"]

    def still(pairs):
        t = dict(inp)
        t["pairs"] = pairs
        try:
            _, _, f = _eval_one(ctx, t)
        except Exception:
            return False
        return any(s == sig for _, s, _ in f)
    if len(inp["pairs"]) > 1:
        inp["pairs"] = ddmin(inp["pairs"], still, max_steps=120)
    out = dict(failure)
    out["input"] = inp
    return out


def replay(ctx, data):
    """re-run one stored input through implementation, model and specification predicates"""
    if cli_annotator.is_cli(data.get("input")):
        return cli_annotator.replay_cli("C06", data["input"])
    inp = data["input"]
    o, pc, f = _eval_one(ctx, inp)
    print("pairs:", inp["pairs"], "find_gaps:", inp["find_gaps"])
    for k in ("bpseq", "strands", "dot_bracket", "extended"):
        print("impl %s: %r" % (k, o[k]))
    print("model:", pc.get("model"))
    for k in ("spec_bpseq", "spec_text", "spec_ext"):
        print("%s: %s" % (k, pc.get(k)))
    for kind, sig, detail in f:
        print("FAIL %s %s: %s" % (kind, sig, detail))
    if not f:
        print("no failure on this input")

"""C07 — structural elements decompose the secondary structure consistently.

Functional correspondence: the descriptions (`str`) of the elements returned by BpSeq.elements equal
the model's `elements` on the same BPSEQ and the same dot-bracket line.  Specification predicate
(`ss.elements_spec`, Lean `specAll`) evaluated on the element lists of the REAL code; the text part
(strand sequence/structure = slices of sequence / dot-bracket) is string equality checked here.
"""
from core import history_probe, Result, call, parallel_map
from gen import g1
from corr import cli_annotator
from corr.c01 import component_sizes


def real(case):
    seq, pairs = case[:2]
    b = g1.mk_bpseq(seq, pairs)
    subject = None
    if len(case) > 2 and case[2]:
        # the elements of an object that is itself the result of derivations; it is judged as the structure it holds
        for name in case[2]:
            b = getattr(b, name)()
        seq = "".join(e.sequence for e in b.entries)
        pairs = [e.pair for e in b.entries]
        subject = (seq, pairs)
    r = call(lambda: b.elements)
    if r[0] != "ok":
        return {"err": r[1], "subject": subject}
    stems, singles, hairpins, loops = r[1]
    db = b.dot_bracket.structure
    out = {"db": db, "subject": subject}
    out["desc"] = [str(e) for l in (stems, singles, hairpins, loops) for e in l]
    out["stems"] = [(s.strand5p.first, s.strand5p.last, s.strand3p.first, s.strand3p.last) for s in stems]
    out["singles"] = [(s.strand.first, s.strand.last, 53 if (s.is5p and s.is3p) else 5 if s.is5p else 3 if s.is3p else 0) for s in singles]
    out["hairpins"] = [(h.strand.first, h.strand.last) for h in hairpins]
    out["loops"] = [[(s.first, s.last) for s in l.strands] for l in loops]
    strands = []
    for s in stems:
        strands += [s.strand5p, s.strand3p]
    strands += [s.strand for s in singles] + [h.strand for h in hairpins] + [s for l in loops for s in l.strands]
    out["textok"] = all(st.sequence == seq[st.first - 1: st.last] and st.structure == db[st.first - 1: st.last] for st in strands)
    # other views of the same object are asked for, then the elements again: they are still the elements
    if (len(seq) + sum(pairs)) % 4 == 0 or len(case) > 3:
        import os
        sys_err = os.dup(2)
        devnull = os.open(os.devnull, os.O_WRONLY)
        os.dup2(devnull, 2)                 # the drawing goes through an external program that talks on stderr
        import tempfile
        cwd = os.getcwd()
        os.chdir(tempfile.gettempdir())     # ... and leaves Graph.gv / Graph.gv.pdf in the working directory
        try:
            for name in ("graphviz", "dot_bracket", "fcfs"):
                call(lambda: getattr(b, name))
        finally:
            os.chdir(cwd)
            os.dup2(sys_err, 2)
            os.close(devnull)
            os.close(sys_err)
        r2 = call(lambda: b.elements)
        out["again"] = r2[0] == "ok" and [str(e) for l in r2[1] for e in l] == out["desc"]
    return out


def real_cli(case):
    """motif_extractor.main in-process on a temporary file; what it prints must be the dot-bracket and the element
    descriptions of the structure the flags select (computed through the library on a fresh object, whose elements
    are judged by the specification like every other input)"""
    import contextlib
    import io
    import os
    import sys
    import tempfile
    from rnapolis import motif_extractor
    from rnapolis.common import BpSeq
    seq, pairs, as_dbn, rm_iso, rm_pk = case
    b = g1.mk_bpseq(seq, pairs)
    with tempfile.TemporaryDirectory(prefix="c07-") as d:
        if as_dbn:
            path = os.path.join(d, "in.dbn")
            with open(path, "w") as f:
                f.write(">in\n%s\n%s\n" % (seq, b.fcfs.structure))
            argv = ["motif_extractor", "--dbn", path]
        else:
            path = os.path.join(d, "in.bpseq")
            # the file in one of several legal layouts (chosen by the length, so that a replay repeats it): as printed,
            # tab-separated, or with right-aligned columns (data lines then start with blanks)
            rows = [(e.index_, e.sequence, e.pair) for e in b.entries]
            layout = len(seq) % 3
            with open(path, "w") as f:
                if layout == 0:
                    f.write(str(b) + "\n")
                elif layout == 1:
                    f.write("".join("%d\t%s\t%d\n" % r for r in rows))
                else:
                    f.write("".join("%5d %s %5d\n" % r for r in rows))
            argv = ["motif_extractor", "--bpseq", path]
        argv += (["--remove-isolated"] if rm_iso else []) + (["--remove-pseudoknots"] if rm_pk else [])
        buf = io.StringIO()
        old = sys.argv
        sys.argv = argv
        try:
            with contextlib.redirect_stdout(buf):
                r = call(motif_extractor.main)
        finally:
            sys.argv = old
    if r[0] != "ok":
        return {"err": r[1]}
    # expectation through the library
    e = g1.mk_bpseq(seq, pairs)
    if rm_iso:
        e = e.without_isolated()
    if rm_pk:
        e = e.without_pseudoknots()
    exp = "Full dot-bracket:\n%s\n" % e.dot_bracket + "".join(str(x) + "\n" for l in e.elements for x in l)
    return {"out": buf.getvalue(), "exp": exp, "pairs_after": [x.pair for x in e.entries]}


def enc_rows(rows):
    return ";".join(",".join(map(str, r)) for r in rows) if rows else "-"


def enc_loops(loops):
    return ";".join("|".join("%d,%d" % s for s in l) for l in loops) if loops else "-"


def build_inputs(ctx):
    rng = ctx.rng
    inputs = [("hand", c) for c in g1.handmade()]
    inputs += [("corpus:" + n, c) for n, c in g1.corpus()]
    nmax = ctx.pick(8, 10)
    inputs += [("exh", c) for c in g1.exhaustive(nmax)]
    for _ in range(ctx.pick(1500, 25000)):
        inputs.append(("planted", g1.planted(rng, n=rng.randint(10, ctx.pick(160, 400)))))
    for _ in range(ctx.pick(500, 8000)):
        inputs.append(("dense", g1.small_dense(rng)))
    for _ in range(ctx.pick(800, 10000)):
        inputs.append(("tight", g1.tight(rng)))
    # nested-only structures with many loops (multi-branch junctions, bulges, internal loops)
    for _ in range(ctx.pick(500, 8000)):
        inputs.append(("nested", nested(rng, rng.randint(8, ctx.pick(120, 300)))))
    out = []
    for tag, (seq, pairs) in inputs:
        sizes = component_sizes(pairs)
        if sizes is not None and max(sizes or [0]) <= 9:
            out.append((tag, (seq, pairs)))
            if tag in ("hand", "planted", "dense", "tight", "nested") and rng.random() < 0.12:
                chain = rng.choice([("without_isolated",), ("without_pseudoknots",), ("without_isolated", "without_pseudoknots"),
                                    ("without_pseudoknots", "without_isolated")])
                out.append(("derived:" + "+".join(chain), (seq, pairs, chain)))
    return out, nmax


def nested(rng, n):
    """random non-crossing structure"""
    pairs = [0] * n

    def fill(a, b):
        i = a
        while i < b:
            r = rng.random()
            if r < 0.45 or b - i < 2:
                i += 1
                continue
            j = rng.randint(i + 1, b - 1)
            # stem growing inwards
            L = rng.randint(1, 4)
            t = 0
            while t < L and i + t < j - t:
                pairs[i + t] = j - t + 1
                pairs[j - t] = i + t + 1
                t += 1
            if i + t <= j - t:
                fill(i + t, j - t + 1)
            i = j + 1

    fill(0, n)
    return (g1.seq_for(n, rng), pairs)


def run(ctx):
    res = Result("C07")
    res.rule = ("inputs: hand-made + corpus + every symmetric pairing on n<=N + planted-stem random + dense random + random nested "
                "(crossing groups of at most 9 stems so that the optimal dot-bracket is cheap); non-trivial = at least one pair; "
                "distinct by (length, pairing)")
    inputs, nmax = build_inputs(ctx)
    res.dist["exhaustive_nmax"] = nmax
    outs = parallel_map(real, [c for _, c in inputs])
    history_probe(ctx, res, real, [c for _, c in inputs], "elements")
    originals = [c for _, c in inputs]
    # derived objects: model and specification see the structure the object holds
    inputs = [(tag, (o["subject"] if o.get("subject") else c[:2])) for (tag, c), o in zip(inputs, outs)]
    reqs, idx = [], []
    for ci, ((tag, (seq, pairs)), o) in enumerate(zip(inputs, outs)):
        if "err" in o:
            continue
        ps = g1.pstr(pairs)
        reqs.append(["ss.elements", seq, ps, o["db"]]); idx.append((ci, "desc"))
        reqs.append(["ss.elements_spec", seq, ps, enc_rows(o["stems"]), enc_rows(o["singles"]), enc_rows(o["hairpins"]), enc_loops(o["loops"])])
        idx.append((ci, "spec"))
    resp = ctx.driver.ask(reqs)
    def mk_inp(ci):
        tag, (seq, pairs) = inputs[ci]
        d = {"seq": seq, "pairs": pairs, "family": tag}
        if len(originals[ci]) > 2:
            d = {"seq": originals[ci][0], "pairs": originals[ci][1], "family": tag, "derived_by": list(originals[ci][2]),
                 "subject": {"seq": seq, "pairs": pairs}}
        return d
    for (ci, what), r in zip(idx, resp):
        tag, (seq, pairs) = inputs[ci]
        o = outs[ci]
        inp = mk_inp(ci)
        if what == "desc":
            impl = "|".join(o["desc"])
            if impl != r:
                res.fail("corr", "C07:elements", inp, "impl=%r model=%r" % (impl[:400], r[:400]))
        else:
            if r != "ok":
                npairs = sum(1 for p in pairs if p)
                sig = "C07:%s" % r + (":no-pairs" if npairs == 0 else "")
                res.fail("spec", sig, inp, "element lists of the real code violate the decomposition spec: %s" % r)
    for ci, ((tag, (seq, pairs)), o) in enumerate(zip(inputs, outs)):
        n, npairs = g1.stats(seq, pairs)
        res.case((n, tuple(pairs), tag), nontrivial=npairs > 0)
        res.count("family:" + tag.split(":")[0])
        inp = mk_inp(ci)
        if "err" in o:
            res.fail("spec", "C07:raises:" + o["err"], inp, "BpSeq.elements raised " + o["err"])
            continue
        if o.get("again") is False:
            res.fail("spec", "C07:elements-differ-after-other-views", dict(inp, asked_before=["graphviz", "dot_bracket", "fcfs"]), "after graphviz / dot_bracket / fcfs were read, `elements` of the same object is another list")
        if "again" in o:
            res.count("elements-asked-again-after-other-views")
        if not o["textok"]:
            res.fail("spec", "C07:strand-text", inp, "a strand's sequence/structure text is not the slice of sequence/dot-bracket")
        res.count("loops", len(o["loops"]))
        res.count("hairpins", len(o["hairpins"]))
        res.count("stems", len(o["stems"]))
        res.count("singles", len(o["singles"]))
    # ---- the command-line tool
    rng = ctx.rng
    cli = []
    pool = [c for t, c in inputs if t in ("hand", "planted", "nested", "tight") and len(c[0]) <= 120]
    for seq, pairs in rng.sample(pool, min(len(pool), ctx.pick(40, 400))):
        cli.append((seq, pairs, rng.random() < 0.5, rng.random() < 0.4, rng.random() < 0.4))
    for c, o in zip(cli, parallel_map(real_cli, cli)):
        seq, pairs, as_dbn, rm_iso, rm_pk = c
        inp = {"seq": seq, "pairs": pairs, "family": "cli", "dbn": as_dbn, "remove_isolated": rm_iso, "remove_pseudoknots": rm_pk}
        res.case(("cli", tuple(pairs), as_dbn, rm_iso, rm_pk), nontrivial=any(pairs))
        res.count("family:cli")
        if "err" in o:
            res.fail("spec", "C07:cli:raises:" + o["err"], inp, "motif_extractor.main raised " + o["err"])
        elif o["out"] != o["exp"]:
            res.fail("spec", "C07:cli:output", inp, "tool printed %r, the library gives %r" % (o["out"][:300], o["exp"][:300]))
    for (tag, c), o in list(zip(inputs, outs))[::max(1, len(inputs) // 6)][:6]:
        res.sample({"family": tag, "seq": c[0][:40], "pairs": c[1][:40], "elements": o.get("desc", [])[:6]})
    # the command-line tool as an observation point: what annotator.main writes for a file and a set of options is what
    # the library computes for that file (harness/corr/cli_annotator.py)
    cli_annotator.judge(res, "C07", cli_annotator.evaluate(ctx))
    return res


def replay(ctx, data):
    inp = data["input"]
    if cli_annotator.is_cli(inp):
        return cli_annotator.replay_cli("C07", inp)
    o = real((inp["seq"], inp["pairs"], tuple(inp.get("derived_by", [])), "again"))
    if o.get("again") is False:
        print("SPEC FAILURE C07:elements-differ-after-other-views")
    if inp.get("subject"):
        inp = dict(inp, seq=inp["subject"]["seq"], pairs=inp["subject"]["pairs"])
    print("impl:", o)
    if "err" not in o:
        ps = g1.pstr(inp["pairs"])
        print("model:", ctx.driver.ask1("ss.elements", inp["seq"], ps, o["db"]))
        print("spec:", ctx.driver.ask1("ss.elements_spec", inp["seq"], ps, enc_rows(o["stems"]), enc_rows(o["singles"]),
                                       enc_rows(o["hairpins"]), enc_loops(o["loops"])))

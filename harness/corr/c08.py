"""C08 — reading preserves atoms, residue identity and the requested model.

For every atom table (G4 generator, hand-made tables, repository corpus) and both formats:

* correspondence (functional): `read_3d_structure(file, model)` for model in {None, each present, one
  absent} against the Lean pipeline `parse -> filterDup -> filterClash -> selectModel -> group`
  (`pdb1.read` on the PDB text; `pdb1.cif` on the token table delivered by the `mmcif` package);
* specification (the Lean predicate `PdbV1.spec`, op `pdb1.spec`): the residues returned by the
  real code are resolved to records of the table *as written* (every field exact, numbers by
  `float(text) ==`), then judged clause by clause: requested model only / records of the file /
  no atom twice / highest occupancy / no pair within the clash distance / nothing lost without a
  copy or neighbour that outranks it / grouping / residue order.
"""
import contextlib
import io
import os
import re
import time
import tempfile
from fractions import Fraction

from core import Result, ddmin, exc_name, hexs, parallel_map
from gen import g4v1
from corr import cli_annotator

TMP = None


def tmpdir():
    global TMP
    if TMP is None or not os.path.isdir(TMP):
        TMP = tempfile.mkdtemp(prefix="c08-")
    return TMP


# ------------------------------------------------------------------------------------------- real code

def canon(structure):
    out = []
    for r in structure.residues:
        lab = None if r.label is None else (r.label.chain, r.label.number, r.label.name)
        au = None if r.auth is None else (r.auth.chain, r.auth.number, r.auth.icode, r.auth.name)
        out.append((r.model, lab, au, [(a.name, a.x, a.y, a.z, a.occupancy, a.entity_id, a.model,
                                        None if a.label is None else (a.label.chain, a.label.number, a.label.name),
                                        None if a.auth is None else (a.auth.chain, a.auth.number, a.auth.icode, a.auth.name))
                                       for a in r.atoms]))
    return out


def read_and_edit(path):
    """a caller has read this file before - through the parse functions and through read_3d_structure - and has edited what
    it got back in place (atom list trimmed, dictionaries emptied, residues dropped); what later reads of the same file
    return must not be affected"""
    from rnapolis import parser as P
    with contextlib.redirect_stdout(io.StringIO()), contextlib.redirect_stderr(io.StringIO()):
        for fn in (P.parse_cif, P.parse_pdb):
            try:
                with open(path) as f:
                    if (fn is P.parse_cif) != P.is_cif(f):
                        continue
                    f.seek(0)
                    parts = fn(f)
                for x in parts if isinstance(parts, tuple) else [parts]:
                    if isinstance(x, list):
                        del x[len(x) // 2:]
                    elif isinstance(x, dict):
                        x.clear()
            except Exception:  # noqa: BLE001
                pass
        try:
            with open(path) as f:
                s = P.read_3d_structure(f, None)
            del s.residues[1:]
        except Exception:  # noqa: BLE001
            pass


def through_input_helper(job):
    """the tools read their input through rnapolis.util.handle_input_file (a temporary working copy, gz unpacked): what is
    read from the copy must be what is read from the file itself - also when the last line has no line end, when lines end
    in CRLF or carry trailing blanks, and for the gzipped file"""
    import gzip
    from rnapolis.parser import read_3d_structure
    from rnapolis.util import handle_input_file
    text, fmt, variant = job
    if variant == "no-final-newline":
        lines = text.rstrip("\n").split("\n")
        while lines and fmt == "pdb" and not lines[-1].startswith(("ATOM", "HETATM")):
            lines.pop()
        while lines and fmt == "cif" and (lines[-1].strip() in ("", "#")):
            lines.pop()
        text = "\n".join(lines)
    elif variant == "crlf":
        text = text.replace("\n", "\r\n")
    elif variant == "trailing-blanks":
        text = "\n".join(l + "  " if k % 3 == 0 and fmt == "pdb" else l for k, l in enumerate(text.split("\n")))
    d = tempfile.mkdtemp(prefix="c08-helper-", dir=tmpdir())
    out = {}
    try:
        path = os.path.join(d, "input." + fmt)
        with open(path, "w", newline="") as f:
            f.write(text)
        paths = [("plain", path)]
        with gzip.open(path + ".gz", "wt", newline="") as f:
            f.write(text)
        paths.append(("gz", path + ".gz"))
        with contextlib.redirect_stdout(io.StringIO()), contextlib.redirect_stderr(io.StringIO()):
            try:
                with open(path, newline="") as f:
                    out["direct"] = ("ok", canon(read_3d_structure(f, None)))
            except Exception as e:  # noqa: BLE001
                out["direct"] = ("err", exc_name(e))
            for tag, p in paths:
                try:
                    out[tag] = ("ok", canon(read_3d_structure(handle_input_file(p), None)))
                except Exception as e:  # noqa: BLE001
                    out[tag] = ("err", exc_name(e))
    finally:
        for n in os.listdir(d):
            os.unlink(os.path.join(d, n))
        os.rmdir(d)
    return out


def real_read(path, reqs, history=None):
    from rnapolis.parser import read_3d_structure
    out = {}
    if history == "read-and-edited-before":
        read_and_edit(path)
    for q in reqs:
        try:
            with open(path) as f, contextlib.redirect_stdout(io.StringIO()), contextlib.redirect_stderr(io.StringIO()):
                out[q] = ("ok", canon(read_3d_structure(f, q)))
        except Exception as e:  # noqa: BLE001
            out[q] = ("err", exc_name(e), str(e)[:120])
    return out


def requests_for(models):
    absent = max(models) + 1 if models else 1
    if 0 not in models and len(models) % 2 == 0:
        absent = 0
    return [None] + list(models) + [absent]


def work(job):
    """one (table, format) or corpus file: write the file, run the real reader for every request,
    and (mmCIF) read the token table with the mmcif package"""
    kind = job["kind"]
    if kind == "corpus":
        path = job["path"]
        text = open(path).read()
        fmt = "cif" if path.endswith(".cif") else "pdb"
        if job.get("subset"):
            text = g4v1.altloc_subset(path, text, fmt, job["subset"])
            fd, path = tempfile.mkstemp(suffix="." + fmt, dir=tmpdir())
            with os.fdopen(fd, "w") as f:
                f.write(text)
            kind = "derived"
    else:
        fmt = job["fmt"]
        text = job["text"]
        fd, path = tempfile.mkstemp(suffix="." + fmt, dir=tmpdir())
        if job.get("decoy"):
            # the path held another file of the same length before (digits rotated), it was read once, and the new
            # content keeps the old modification time: what is read must be the content, not what the path held
            decoy = text.translate(str.maketrans("123456789", "234567891"))
            with os.fdopen(fd, "w") as f:
                f.write(decoy)
            st = os.stat(path)
            try:
                from rnapolis.parser import read_3d_structure
                with open(path) as f, contextlib.redirect_stdout(io.StringIO()), contextlib.redirect_stderr(io.StringIO()):
                    read_3d_structure(f, None)
            except Exception:  # noqa: BLE001
                pass
            with open(path, "w") as f:
                f.write(text)
            os.utime(path, ns=(st.st_atime_ns, st.st_mtime_ns))
        else:
            with os.fdopen(fd, "w") as f:
                f.write(text)
    res = {"fmt": fmt}
    try:
        if fmt == "cif":
            attrs, rows = g4v1.read_cif_tokens(path)
            res["attrs"], res["rows"] = attrs, rows
            models = []
            if "pdbx_PDB_model_num" in attrs:
                i = attrs.index("pdbx_PDB_model_num")
                for r in rows:
                    try:
                        m = int(r[i])
                    except ValueError:
                        continue
                    if m not in models:
                        models.append(m)
            else:
                models = [1]
        else:
            models = []
            cur = 1
            for line in text.split("\n"):
                if line.startswith("MODEL"):
                    try:
                        cur = int(line[10:14])
                    except ValueError:
                        pass
                elif line.startswith(("ATOM", "HETATM")) and cur not in models:
                    models.append(cur)
        if kind in ("corpus", "derived"):
            models = models[:3]
            res["text"] = text if fmt == "pdb" else None
        if kind in ("corpus", "derived") and len(models) == 1 and not job.get("reqs"):
            job = dict(job, reqs=[None, models[0] + 1])
        reqs = job.get("reqs") or requests_for(models)
        res["reqs"] = reqs
        res["real"] = real_read(path, reqs, job.get("history"))
    finally:
        if kind != "corpus":
            os.unlink(path)
    return res


# ------------------------------------------------------------------------------ tokens "as written"

def tokens_of_table(records, fmt, attrs=None):
    """spec tokens of a generator table for one format (the PDB format has no label / entity items)"""
    out = []
    nac = fmt == "cif" and attrs is not None and "auth_comp_id" not in attrs
    for r in records:
        if fmt == "cif":
            lab = (r["lchain"], r["lnum"], r["resname"]) if r["lnum"] is not None else None
            ent = r["entity"]
        else:
            lab, ent = None, None
        out.append(dict(model=r["model"], entity=ent, label=lab, auth=(r["chain"], r["num"], r["icode"], r["resname"]),
                        name=r["name"], alt=r["alt"] or "", occ=r["occ"], x=r["x"], y=r["y"], z=r["z"], het=bool(r["het"]),
                        no_auth_comp=nac))
    return out


NULLS = ("?", ".")


def tokens_of_cif(attrs, rows):
    """spec tokens of an mmCIF token table: both null markers mean "absent" """
    ix = {a: i for i, a in enumerate(attrs)}

    def g(row, a):
        if a not in ix:
            return None
        v = row[ix[a]]
        return None if v in NULLS else v

    out = []
    for row in rows:
        lnum = g(row, "label_seq_id")
        lab = None
        if g(row, "label_asym_id") is not None and lnum is not None and g(row, "label_comp_id") is not None:
            lab = (g(row, "label_asym_id"), int(lnum), g(row, "label_comp_id"))
        au = None
        # auth_comp_id is an optional item: the residue name as written is then label_comp_id
        aname = g(row, "auth_comp_id") or g(row, "label_comp_id")
        if g(row, "auth_asym_id") is not None and g(row, "auth_seq_id") is not None and aname is not None:
            au = (g(row, "auth_asym_id"), int(g(row, "auth_seq_id")), g(row, "pdbx_PDB_ins_code"), aname)
        out.append(dict(model=int(g(row, "pdbx_PDB_model_num") or "1"), entity=g(row, "label_entity_id"), label=lab, auth=au,
                        name=g(row, "label_atom_id"), alt=g(row, "label_alt_id") or "", occ=g(row, "occupancy"),
                        x=g(row, "Cartn_x"), y=g(row, "Cartn_y"), z=g(row, "Cartn_z"), het=g(row, "group_PDB") == "HETATM",
                        no_auth_comp=g(row, "auth_comp_id") is None))
    return out


def tokens_of_pdb(text):
    """spec tokens of a PDB text by the published column layout (independent of rnapolis):
    13-16 name, 17 altloc, 18-20 residue, 22 chain, 23-26 number, 27 insertion code, 31-54 x y z, 55-60 occupancy"""
    out = []
    cur = 1
    for line in text.split("\n"):
        if line[:6] == "MODEL ":
            cur = int(line[10:14])
        elif line[:6] in ("ATOM  ", "HETATM"):
            ic = line[26:27]
            out.append(dict(model=cur, entity=None, label=None,
                            auth=(line[21:22], int(line[22:26]), None if ic == " " else ic, line[17:20].strip()),
                            name=line[12:16].strip(), alt=line[16:17].strip(), occ=line[54:60].strip(),
                            x=line[30:38].strip(), y=line[38:46].strip(), z=line[46:54].strip(), het=line[:6] == "HETATM"))
    return out


def ho(s):
    return "~" if s is None else hexs(s)


def enc_tokens(toks):
    rows = []
    for t in toks:
        lab, au = t["label"], t["auth"]
        f = [str(t["model"]), ho(t["entity"])]
        f += [ho(lab[0]), str(lab[1]), ho(lab[2])] if lab else ["~", "~", "~"]
        f += [ho(au[0]), str(au[1]), ho(au[2]), ho(au[3])] if au else ["~", "~", "~", "~"]
        f += [hexs(t["name"]), hexs(t["alt"]), "~" if t["occ"] is None else t["occ"], t["x"], t["y"], t["z"], "1" if t["het"] else "0"]
        rows.append(",".join(f))
    return ";".join(rows) if rows else "-"


def idents(label, auth):
    """residue identities (chain, number, insertion code, name) under which a record may be reported:
    by its auth items or by its label items"""
    out = []
    if auth is not None:
        out.append(tuple(auth))
    if label is not None:
        out.append((label[0], label[1], None, label[2]))
    return out


def resolve(toks, real_res):
    """map every atom of the real result to the index of a record of the table whose fields it carries
    exactly (model, chain, number, insertion code, residue name, atom name; numbers by float(text) ==);
    returns (groups of indices, None) or (None, (class, detail))"""
    index, loose = {}, {}
    for i, t in enumerate(toks):
        for ident in idents(t["label"], t["auth"]):
            index.setdefault((t["model"], ident, t["name"]), []).append(i)
            loose.setdefault((t["model"], (ident[0], ident[1], ident[3]), t["name"]), []).append(i)
    fl = {}

    def fv(s):
        if s not in fl:
            fl[s] = float(s)
        return fl[s]

    used = set()
    groups = []
    for (rmodel, rlab, rauth, atoms) in real_res:
        g = []
        rid = (idents(None, rauth) or idents(rlab, None) or [None])[0]
        for (name, x, y, z, occ, ent, amodel, alab, aauth) in atoms:
            if amodel != rmodel or alab != rlab or aauth != rauth:
                return None, ("residue-header", "atom %r carries %r/%r/%r inside residue %r/%r/%r" % (name, amodel, alab, aauth, rmodel, rlab, rauth))
            cands = index.get((amodel, rid, name), [])
            hit = None
            for i in cands:
                t = toks[i]
                if fv(t["x"]) == x and fv(t["y"]) == y and fv(t["z"]) == z and \
                        ((t["occ"] is None and occ is None) or (t["occ"] is not None and occ is not None and fv(t["occ"]) == occ)):
                    if i not in used or hit is None:
                        hit = i
                        if i not in used:
                            break
            if hit is None:
                lk = (amodel, rid and (rid[0], rid[1], rid[3]), name)
                if rid is not None and lk in loose and not cands:
                    written = sorted({repr(ident[2]) for i in loose[lk] for ident in idents(toks[i]["label"], toks[i]["auth"])[:1]})
                    return None, ("icode", "insertion code read as %r, written %s (residue %r)" % (rid[2], "/".join(written), rid))
                return None, ("fields", "returned atom %r of %r (model %r, x=%r, occ=%r) is no record of the file" % (name, rid, amodel, x, occ))
            used.add(hit)
            g.append(hit)
        groups.append(g)
    return groups, None


def enc_groups(groups):
    return "|".join(",".join(map(str, g)) for g in groups) if groups else "-"


# ------------------------------------------------------------------------------------ model output

def unh(s):
    return "" if s == "-" else bytes.fromhex(s).decode()


def unho(s):
    return None if s == "~" else unh(s)


def parse_model(resp):
    """'ok …' -> ('ok', residues with Fractions) ; 'err X' -> ('err', X)"""
    if resp.startswith("err "):
        return ("err", resp[4:])
    body = resp[3:] if resp.startswith("ok ") else ""
    out = []
    if body == "" or resp == "ok":
        return ("ok", out)
    for r in body.split("|"):
        head, atoms = r.split("@")
        m, lab, au = head.split(",")
        if lab != "~":
            a, b, c = lab.split(":")
            lab = (unh(a), int(b), unh(c))
        else:
            lab = None
        if au != "~":
            a, b, c, d = au.split(":")
            au = (unh(a), int(b), unho(c), unh(d))
        else:
            au = None
        al = []
        for a in atoms.split("+"):
            n, x, y, z, occ, ent = a.split(",")
            al.append((unh(n), Fraction(x), Fraction(y), Fraction(z), None if occ == "~" else Fraction(occ), unho(ent)))
        out.append((int(m), lab, au, al))
    return ("ok", out)


def same(real, model):
    """functional comparison of the real result with the model's"""
    if real[0] != model[0]:
        return False, "impl=%r model=%r" % (real[:2] if real[0] == "err" else "ok", model[:2] if model[0] == "err" else "ok")
    if real[0] == "err":
        rn = real[1]
        mn = model[1]
        if rn.startswith("other:") and mn == "other":
            return True, ""
        return rn == mn, "impl raises %s, model %s" % (rn, mn)
    R, M = real[1], model[1]
    if len(R) != len(M):
        return False, "residue count impl=%d model=%d" % (len(R), len(M))
    for k, (r, m) in enumerate(zip(R, M)):
        if r[0] != m[0] or r[1] != m[1] or r[2] != m[2]:
            return False, "residue %d header impl=%r model=%r" % (k, r[:3], m[:3])
        if len(r[3]) != len(m[3]):
            return False, "residue %d %r atom count impl=%d model=%d" % (k, r[2] or r[1], len(r[3]), len(m[3]))
        for a, b in zip(r[3], m[3]):
            if a[0] != b[0] or a[1] != float(b[1]) or a[2] != float(b[2]) or a[3] != float(b[3]) or a[5] != b[5] or \
                    (a[4] is None) != (b[4] is None) or (a[4] is not None and a[4] != float(b[4])):
                return False, "residue %d %r atom impl=%r model=%r" % (k, r[2] or r[1], a[:6], b)
    return True, ""


def qs(q):
    return "-" if q is None else str(q)


# --------------------------------------------------------------------------------------------- run

def raise_cause(fmt, records, exc):
    if records is None:
        return "unexplained"
    if fmt == "cif" and exc == "ValueError" and any(r["occ"] is None and r["nm_occ"] == "?" for r in records):
        return "parse_cif:occupancy-null-marker-question"
    if fmt == "cif" and exc == "TypeError" and any(r["occ"] is None for r in records):
        return "filter_clashing_atoms:absent-occupancy-compared"
    return "unexplained"


def ask_parallel(D, reqs, nproc=14):
    """the driver is a pure function of each line: split the batch over several driver processes
    (chunks balanced by request size, order preserved)"""
    if len(reqs) < 8:
        return D.ask(reqs)
    from concurrent.futures import ThreadPoolExecutor
    sizes = [sum(len(f) for f in r) ** 1.3 + 50 for r in reqs]
    total = sum(sizes)
    target = total / (nproc * 3)
    chunks, cur, acc = [], [], 0.0
    for r, s in zip(reqs, sizes):
        cur.append(r)
        acc += s
        if acc >= target:
            chunks.append(cur)
            cur, acc = [], 0.0
    if cur:
        chunks.append(cur)
    with ThreadPoolExecutor(nproc) as ex:
        parts = list(ex.map(D.ask, chunks))
    return [x for p in parts for x in p]


def judge(res, D, items):
    """items: list of dicts(tag, fmt, toks, records|None, meta, out (from work), model_req (driver request prefix),
    inp (replay input))"""
    reqs, idx = [], []
    for k, it in enumerate(items):
        o = it["out"]
        for q in o["reqs"]:
            reqs.append(it["model_req"](q))
            idx.append((k, q, "model"))
            rr = o["real"][q]
            if rr[0] == "ok":
                groups, bad = resolve(it["toks"], rr[1])
                it.setdefault("resolved", {})[q] = (groups, bad)
                if groups is not None:
                    if "enc" not in it:
                        it["enc"] = enc_tokens(it["toks"])
                    # the predicate depends on the request only through the target model
                    models = it["meta"].get("models") or [1]
                    target = q if q in models else models[0]
                    eg = enc_groups(groups)
                    memo = it.setdefault("spec_memo", {})
                    if (target, eg) in memo:
                        memo[(target, eg)].append(q)
                    else:
                        memo[(target, eg)] = [q]
                        reqs.append(["pdb1.spec", qs(q), it["enc"], eg])
                        idx.append((k, q, "spec"))
    resp0 = ask_parallel(D, reqs)
    idx2, resp = [], []
    for (k, q, what), r in zip(idx, resp0):
        idx2.append((k, q, what))
        resp.append(r)
        if what == "spec":
            for (target, eg), qq in items[k]["spec_memo"].items():
                if qq[0] == q:
                    for q2 in qq[1:]:
                        idx2.append((k, q2, "spec"))
                        resp.append(r)
    idx = idx2
    for (k, q, what), r in zip(idx, resp):
        it = items[k]
        o = it["out"]
        rr = o["real"][q]
        inp = dict(it["inp"], req=q)
        multi = len(it["meta"].get("models", [1])) > 1
        if what == "model":
            ok, why = same(rr, parse_model(r))
            if not ok:
                if "enc" not in it:
                    it["enc"] = enc_tokens(it["toks"])
                if "near" not in it:
                    it["near"] = D.ask1("pdb1.near", it["enc"]) == "true"
                if it["near"]:
                    res.undecided += 1
                    res.count("corr-undecided(pair at the clash distance within 1e-6)")
                else:
                    res.fail("corr", "C08:%s:read" % it["fmt"], inp, why)
        else:
            res.count("spec:" + r.split(":")[0])
            if r.startswith("undecided"):
                res.undecided += 1
            elif r != "ok":
                clause = r.split(":")[1] if ":" in r else r
                extra = r.split(":", 2)[2] if r.count(":") >= 2 else ""
                sig = "C08:filter_clashing_atoms:models-merged" if multi else "C08:%s:spec:%s" % (it["fmt"], clause)
                m = re.match(r"record=(\d+)", extra)
                if clause == "atom-lost" and m and not multi:
                    t = it["toks"][int(m.group(1))]
                    if t["label"] is None and t.get("no_auth_comp"):
                        sig = "C08:parse_cif:row-without-residue-identity-skipped"
                        extra += " (%s %s: the row has no label_seq_id and the file no auth_comp_id item, so the reader builds neither a label nor an auth identity and skips the row)" % (
                            "HETATM" if t["het"] else "ATOM", t["name"])
                res.fail("spec", sig, inp, "request model=%r on a table with models %r: clause '%s' of the specification fails on the "
                         "residues returned by read_3d_structure %s" % (q, it["meta"].get("models"), clause, extra))
    for k, it in enumerate(items):
        o = it["out"]
        for q in o["reqs"]:
            rr = o["real"][q]
            inp = dict(it["inp"], req=q)
            if rr[0] == "err":
                res.count("raises:" + rr[1])
                if it["meta"].get("wellformed", True):
                    cause = raise_cause(it["fmt"], it.get("records"), rr[1])
                    res.fail("spec", "C08:%s:raises:%s" % (cause, rr[1]), inp, "read_3d_structure raised %s (%s) on a well-formed table" % (rr[1], rr[2]))
            else:
                groups, bad = it.get("resolved", {}).get(q, (None, None))
                if bad is not None:
                    if bad[0] == "icode":
                        sig = "C08:parse_cif:icode-null-marker-kept" if it["fmt"] == "cif" else "C08:pdb:fields:icode"
                    else:
                        sig = "C08:%s:fields:%s" % (it["fmt"], bad[0])
                    res.fail("spec", sig, inp, bad[1])


def gen_tables(ctx, res):
    rng = ctx.rng
    out = []
    for name, recs, meta in g4v1.handmade():
        out.append(("hand:" + name, recs, meta))
    n = ctx.pick(400, 4000)
    for i in range(n):
        size = "small" if rng.random() < 0.8 else "large"
        recs, meta = g4v1.table(rng, size=size)
        out.append(("g4:" + size, recs, meta))
    # whole superposed copies: about half of the atoms are removed by the clash rule (survivor counts chosen across the
    # sizes at which hash tables of the survivors' indices are rebuilt)
    for k in ([18, 66, 70] if ctx.quick else [17, 18, 19, 65, 66, 70, 76, 130, 260, 300]):
        recs, meta = g4v1.superposed(rng, k)
        out.append(("superposed", recs, meta))
    return out


def cif_variant(rng, recs):
    """attribute order shuffled / optional items omitted (all handled by `row_dict.get` defaults)"""
    attrs = list(g4v1.CIF_ATTRS)
    r = rng.random()
    tag = "std"
    if r < 0.25:
        rng.shuffle(attrs)
        tag = "shuffled"
    elif r < 0.35 and all(x["icode"] is None for x in recs):
        attrs.remove("pdbx_PDB_ins_code")
        tag = "no-ins-code-item"
    elif r < 0.45 and all(x["model"] == 1 for x in recs):
        attrs.remove("pdbx_PDB_model_num")
        tag = "no-model-item"
    elif r < 0.5 and all(x["occ"] is None for x in recs):
        attrs.remove("occupancy")
        tag = "no-occupancy-item"
    return attrs, tag


def mutate_pdb(rng, text):
    """malformed stream (correspondence of the error behaviour only)"""
    lines = text.split("\n")
    idx = [i for i, l in enumerate(lines) if l.startswith(("ATOM", "HETATM", "MODEL"))]
    if not idx:
        return text, "none"
    i = rng.choice(idx)
    l = lines[i]
    kind = rng.choice(["truncate", "blank-field", "letter-in-number", "no-final-newline", "plus-sign", "lowercase-record", "shift"])
    if kind == "truncate":
        lines[i] = l[:rng.choice([5, 13, 20, 21, 22, 25, 26, 27, 30, 37, 45, 53, 54, 59, 60])]
    elif kind == "blank-field":
        a, b = rng.choice([(22, 26), (30, 38), (38, 46), (46, 54), (54, 60), (10, 14)])
        lines[i] = l[:a] + " " * (b - a) + l[b:]
    elif kind == "letter-in-number":
        p = rng.choice([24, 33, 41, 50, 57, 12])
        lines[i] = l[:p] + "x" + l[p + 1:]
    elif kind == "no-final-newline":
        return "\n".join(lines[:i + 1]), kind
    elif kind == "plus-sign":
        lines[i] = l[:22] + ("+" + l[22:26].strip()).rjust(4)[:4] + l[26:]
    elif kind == "lowercase-record":
        lines[i] = l[:6].lower() + l[6:]
    else:
        lines[i] = " " + l
    return "\n".join(lines), kind


def run(ctx):
    res = Result("C08")
    res.rule = ("inputs: hand-made tables + G4 random atom tables (value-shape grammar: 1-4 models sharing identities, chains, "
                "insertion codes, negative numbers/coordinates, altlocs, repeated names, hetero groups, near-coincident atoms at "
                "0.5 A +-{1e-3,1e-2,0.1}, both mmCIF null markers) each serialised as PDB and as mmCIF by independent emitters, "
                "x requested model in {None, each present, one absent}; repository corpus files; a malformed-PDB stream "
                "(correspondence of errors only). non-trivial = table with >= 2 atoms; distinct by (records, format, request)")
    D = ctx.driver
    rng = ctx.rng
    cfg = D.ask1("pdb1.cfg")
    res.notes.append("reader switches seen by the translator: " + cfg)
    model_attrs = D.ask1("pdb1.attrs").split(",")
    tables = gen_tables(ctx, res)
    jobs, items = [], []
    for tag, recs, meta in tables:
        for t in meta["tags"]:
            res.count("shape:" + t)
        res.count("models:%d" % meta["nmodels"])
        if meta["pdb_ok"]:
            # serials are a field of the record, not a count: now and then they start just below 10 000, so that hetero
            # records carry five-digit serials touching the record name (HETATM10002)
            serial0 = 1 if rng.random() < 0.85 else rng.choice([9990, 9999, 99900])
            text = g4v1.to_pdb(recs, ter=rng.random() < 0.7, header=rng.random() < 0.5, serial0=serial0)
            hist = "read-and-edited-before" if rng.random() < 0.2 else None
            jobs.append(dict(kind="table", fmt="pdb", text=text, decoy=rng.random() < 0.1, history=hist))
            items.append(dict(tag=tag, fmt="pdb", toks=tokens_of_table(recs, "pdb"), records=recs, meta=meta, text=text,
                              inp=dict(family=tag, format="pdb", records=recs, history=hist, serial0=serial0)))
        attrs, vtag = cif_variant(rng, recs)
        if meta.get("cif_attrs"):
            attrs, vtag = meta["cif_attrs"], "no-auth-comp-item"
        res.count("cif-layout:" + vtag)
        text, attrs, rows = g4v1.to_cif(recs, attrs)
        if rng.random() < 0.12:
            # reserved words of CIF are case-insensitive
            text = re.sub(r"(?m)^(data_|loop_)", lambda mm: mm.group(1).upper() if rng.random() < 0.7 else mm.group(1).capitalize(), text)
            res.count("cif-layout:keywords-not-lower-case")
        hist = "read-and-edited-before" if rng.random() < 0.2 else None
        jobs.append(dict(kind="table", fmt="cif", text=text, decoy=rng.random() < 0.1, history=hist))
        items.append(dict(tag=tag, fmt="cif", toks=tokens_of_table(recs, "cif", attrs), records=recs, meta=meta, text=text, rows=rows,
                          attrs=attrs, inp=dict(family=tag, format="cif", records=recs, attrs=attrs, history=hist)))
        if hist:
            res.count("history:read-and-edited-before")
    helper_jobs = []
    for j in rng.sample(jobs, min(len(jobs), ctx.pick(120, 1200))):
        helper_jobs.append((j["text"], j["fmt"], rng.choice(["as-is", "no-final-newline", "no-final-newline", "crlf", "trailing-blanks"])))
    for (text, fmt, variant), o in zip(helper_jobs, parallel_map(through_input_helper, helper_jobs)):
        res.count("input-helper:%s:%s" % (fmt, variant))
        res.case(("input-helper", fmt, variant, hash(text)), nontrivial=True)
        for tag in ("plain", "gz"):
            if o["direct"][0] == "ok" and o[tag] != o["direct"]:
                na = sum(len(r[3]) for r in o["direct"][1])
                nb = sum(len(r[3]) for r in o[tag][1]) if o[tag][0] == "ok" else None
                res.fail("spec", "C08:handle_input_file:%s:content-changes" % variant, {"family": "input-helper", "format": fmt, "variant": variant, "compressed": tag == "gz", "text": text},
                         "read through the tools' input helper (%s file, %s): %s atoms; read from the file itself: %d atoms" % (tag, variant, nb if nb is not None else o[tag], na))
                break
    t0 = time.time()
    outs = parallel_map(work, jobs)
    res.notes.append("timing: real reader on %d generated files %.1fs" % (len(jobs), time.time() - t0))
    bad_emitter = 0
    for it, o in zip(items, outs):
        it["out"] = o
        if it["fmt"] == "cif":
            if o["attrs"] != it["attrs"] or o["rows"] != it["rows"]:
                bad_emitter += 1
            a, r = ",".join(o["attrs"]), ";".join(",".join(hexs(v) for v in row) for row in o["rows"]) or "-"
            it["model_req"] = (lambda q, a=a, r=r: ["pdb1.cif", "code", qs(q), a or "-", r])
        else:
            h = hexs(it["text"])
            it["model_req"] = (lambda q, h=h: ["pdb1.read", "code", qs(q), h])
    if bad_emitter:
        res.notes.append("mmCIF emitter and mmcif-package token tables differ on %d documents" % bad_emitter)
        res.fail("corr", "C08:harness:cif-emitter", {}, "token table read back by the mmcif package differs from the emitted one (%d documents)" % bad_emitter)
    t0 = time.time()
    judge(res, D, items)
    res.notes.append("timing: model+spec on generated tables %.1fs" % (time.time() - t0))
    for it in items:
        for q in it["out"]["reqs"]:
            res.case((it["fmt"], q, repr(it["records"])), nontrivial=len(it["records"]) >= 2)
        res.count("format:" + it["fmt"])
        res.count("requests", len(it["out"]["reqs"]))
    missing = [a for a in model_attrs if a not in g4v1.CIF_ATTRS]
    if missing:
        res.notes.append("attributes read by parse_cif that the emitter does not write: %r" % missing)
    for it in items[:2] + items[len(items) // 2: len(items) // 2 + 2]:
        res.sample({"family": it["tag"], "format": it["fmt"], "atoms": len(it["records"]), "models": it["meta"]["models"],
                    "tags": it["meta"]["tags"][:8]})

    # ---- corpus
    files = g4v1.corpus_files()
    cjobs = []
    for f in files:
        if ctx.quick and os.path.getsize(f) >= 260000:
            # big files: the residues with alternate locations and their neighbours (derived from the corpus)
            cjobs.append(dict(kind="corpus", path=f, subset=1200))
            res.count("corpus-derived-subsets")
        else:
            cjobs.append(dict(kind="corpus", path=f))
    t0 = time.time()
    couts = parallel_map(work, cjobs) if len(cjobs) >= 64 else _pmap_small(work, cjobs)
    res.notes.append("timing: real reader on %d corpus files %.1fs" % (len(cjobs), time.time() - t0))
    citems = []
    for f, o in zip(files, couts):
        name = os.path.basename(f)
        if o["fmt"] == "cif":
            toks = tokens_of_cif(o["attrs"], o["rows"])
            a, r = ",".join(o["attrs"]), ";".join(",".join(hexs(v) for v in row) for row in o["rows"]) or "-"
            mreq = (lambda q, a=a, r=r: ["pdb1.cif", "code", qs(q), a or "-", r])
        else:
            toks = tokens_of_pdb(o["text"])
            h = hexs(o["text"])
            mreq = (lambda q, h=h: ["pdb1.read", "code", qs(q), h])
        models = []
        for t in toks:
            if t["model"] not in models:
                models.append(t["model"])
        sub = next((j.get("subset") for j in cjobs if j["path"] == f), None)
        citems.append(dict(tag="corpus:" + name, fmt=o["fmt"], toks=toks, records=None, meta=dict(models=models, wellformed=True),
                           out=o, model_req=mreq, inp=dict(family="corpus", file=name, subset=sub)))
        res.count("corpus-files")
        res.count("corpus-atoms", len(toks))
        if len(models) > 1:
            res.count("corpus-multi-model-files")
        if any(t["alt"] for t in toks):
            res.count("corpus-files-with-altlocs")
    t0 = time.time()
    judge(res, D, citems)
    res.notes.append("timing: model+spec on corpus %.1fs" % (time.time() - t0))
    for it in citems:
        for q in it["out"]["reqs"]:
            res.case((it["tag"], q), nontrivial=True)

    # ---- malformed PDB stream: only the error behaviour is compared
    mjobs, mitems = [], []
    pdb_items = [it for it in items if it["fmt"] == "pdb"]
    for _ in range(ctx.pick(150, 2000)):
        it = rng.choice(pdb_items)
        text, kind = mutate_pdb(rng, it["text"])
        mjobs.append(dict(kind="table", fmt="pdb", text=text, reqs=[None]))
        mitems.append((kind, text))
    mouts = parallel_map(work, mjobs)
    resp = D.ask([["pdb1.read", "code", "-", hexs(t)] for _, t in mitems])
    for (kind, text), o, r in zip(mitems, mouts, resp):
        res.count("malformed:" + kind)
        res.case(("malformed", text), nontrivial=True)
        ok, why = same(o["real"][None], parse_model(r))
        if not ok:
            try:
                near = D.ask1("pdb1.near", enc_tokens(tokens_of_pdb(text))) == "true"
            except Exception:  # noqa: BLE001
                near = False
            if near:
                res.undecided += 1
                res.count("corr-undecided(pair at the clash distance within 1e-6)")
            else:
                res.fail("corr", "C08:pdb:malformed:" + kind, dict(family="malformed", format="pdb-text", text=text, req=None), why)

    # ---- the Lean PDB emitter of the round-trip theorem writes the lines the independent Python emitter writes
    freq, fexp = [], []
    for it in pdb_items[:ctx.pick(150, 1500)]:
        for r in it["records"][:6]:
            if r["name"][0].isdigit() or r["occ"] is None or len(r["occ"]) != 4 or r["occ"][1] != ".":
                continue
            x, y, z = (int(Fraction(r[k]) * 1000) for k in "xyz")
            freq.append(["pdb1.fmt", "1" if r["het"] else "0", "7", hexs(r["name"]), hexs(r["alt"] or " "), hexs(r["resname"]),
                         hexs(r["chain"]), str(r["num"]), hexs(r["icode"] or " "), str(x), str(y), str(z), str(int(Fraction(r["occ"]) * 100))])
            fexp.append(g4v1.pdb_atom_line(r, 7)[:66] + "\n")
    for rq, e, r in zip(freq, fexp, D.ask(freq)):
        res.count("emitter-lines")
        if unh(r) != e:
            res.fail("corr", "C08:lean-emitter", dict(family="emitter", request=rq), "lean=%r python=%r" % (unh(r), e))
    try:
        os.rmdir(tmpdir())
    except OSError:
        pass
    # the command-line tool as an observation point (harness/corr/cli_annotator.py)
    cli_annotator.judge(res, "C08", cli_annotator.evaluate(ctx))
    return res


def _pmap_small(fn, jobs):
    from core import fork_map
    if not jobs:
        return []
    return fork_map(fn, jobs, nproc=min(16, len(jobs)), chunksize=1)


# ---------------------------------------------------------------------------------- replay / shrink

def eval_one(ctx, inp):
    """run one stored input; returns (Result, printable report)"""
    res = Result("C08")
    D = ctx.driver
    fam = inp.get("family", "")
    lines = []
    if fam == "corpus":
        path = os.path.join(os.environ.get("RNAPOLIS_TESTS", "/repo/tests"), inp["file"])
        o = work(dict(kind="corpus", path=path, reqs=[inp.get("req")], subset=inp.get("subset")))
        if o["fmt"] == "cif":
            toks = tokens_of_cif(o["attrs"], o["rows"])
            a, r = ",".join(o["attrs"]), ";".join(",".join(hexs(v) for v in row) for row in o["rows"]) or "-"
            mreq = (lambda q: ["pdb1.cif", "code", qs(q), a or "-", r])
        else:
            toks = tokens_of_pdb(o["text"])
            mreq = (lambda q: ["pdb1.read", "code", qs(q), hexs(o["text"])])
        models = sorted({t["model"] for t in toks})
        it = dict(tag="corpus", fmt=o["fmt"], toks=toks, records=None, meta=dict(models=models), out=o, model_req=mreq, inp=inp)
    elif fam == "input-helper":
        o = through_input_helper((inp["text"], inp["format"], inp["variant"]))
        for k, v in o.items():
            lines.append("%s: %s" % (k, ("%d atoms in %d residues" % (sum(len(r[3]) for r in v[1]), len(v[1]))) if v[0] == "ok" else v))
        tag = "gz" if inp.get("compressed") else "plain"
        if o["direct"][0] == "ok" and o[tag] != o["direct"]:
            res.fail("spec", "C08:handle_input_file:%s:content-changes" % inp["variant"], inp, "the working copy does not hold the file's content")
        return res, lines
    elif fam == "malformed":
        o = work(dict(kind="table", fmt="pdb", text=inp["text"], reqs=[None]))
        r = D.ask1("pdb1.read", "code", "-", hexs(inp["text"]))
        ok, why = same(o["real"][None], parse_model(r))
        lines.append("impl: %r" % (o["real"][None],))
        lines.append("model: %s" % r[:400])
        if not ok:
            res.fail("corr", "C08:pdb:malformed", inp, why)
        return res, lines
    elif fam == "emitter":
        lines.append("model: %r" % unh(D.ask1(*inp["request"])))
        return res, lines
    else:
        recs = inp["records"]
        fmt = inp["format"]
        models = []
        for r in recs:
            if r["model"] not in models:
                models.append(r["model"])
        meta = dict(models=models, nmodels=len(models))
        if fmt == "pdb":
            text = g4v1.to_pdb(recs, serial0=inp.get("serial0", 1))
            o = work(dict(kind="table", fmt="pdb", text=text, reqs=[inp.get("req")], history=inp.get("history")))
            mreq = (lambda q: ["pdb1.read", "code", qs(q), hexs(text)])
        else:
            text, attrs, rows = g4v1.to_cif(recs, inp.get("attrs"))
            o = work(dict(kind="table", fmt="cif", text=text, reqs=[inp.get("req")], history=inp.get("history")))
            a, r = ",".join(o["attrs"]), ";".join(",".join(hexs(v) for v in row) for row in o["rows"]) or "-"
            mreq = (lambda q: ["pdb1.cif", "code", qs(q), a or "-", r])
        lines.append("file:\n" + text)
        it = dict(tag=fam, fmt=fmt, toks=tokens_of_table(recs, fmt, inp.get("attrs")), records=recs, meta=meta, out=o, model_req=mreq, inp=inp)
    judge(res, D, [it])
    q = it["out"]["reqs"][0]
    rr = it["out"]["real"][q]
    lines.append("request model=%r" % (q,))
    if rr[0] == "ok":
        lines.append("impl: " + "; ".join("model %r %r: %s" % (r[0], r[2] or r[1], " ".join("%s(%g,%g,%g|%r)" % a[:5] for a in r[3][:4]) + (" …" if len(r[3]) > 4 else "")) for r in rr[1][:4]) + (" …" if len(rr[1]) > 4 else ""))
    else:
        lines.append("impl raises: %r" % (rr[1:],))
    lines.append("model (present code): " + D.ask1(*it["model_req"](q))[:300])
    enc = enc_tokens(it["toks"])
    fx = D.ask1("pdb1.toks", "fixed", qs(q), enc)
    lines.append("model (repaired pipeline) on the table as written: " + fx[:300])
    return res, lines


def replay(ctx, data):
    if cli_annotator.is_cli(data.get("input")):
        return cli_annotator.replay_cli("C08", data["input"])
    res, lines = eval_one(ctx, data["input"])
    for l in lines:
        print(l)
    for f in res.failures:
        print("%s failure %s: %s" % (f["kind"], f["signature"], f["detail"]))
    if not res.failures:
        print("no failure on this input")


def shrink(ctx, failure):
    if cli_annotator.is_cli(failure.get("input")):
        return failure
    inp = failure["input"]
    sig = failure["signature"]
    if "records" not in inp:
        # a corpus file: prefer a hand-made table showing the same failure, if there is one
        for name, recs, meta in g4v1.handmade():
            for fmt in (["pdb"] if meta["pdb_ok"] else []) + ["cif"]:
                for q in requests_for(meta["models"]):
                    try:
                        r, _ = eval_one(ctx, dict(family="hand:" + name, format=fmt, records=recs, req=q,
                                                  attrs=meta.get("cif_attrs") if fmt == "cif" else None))
                    except Exception:  # noqa: BLE001
                        continue
                    for f in r.failures:
                        if f["signature"] == sig:
                            f["detail"] += " [first seen on corpus file %s, request model=%r]" % (inp.get("file"), inp.get("req"))
                            return f
        return failure

    def still(recs):
        try:
            r, _ = eval_one(ctx, dict(inp, records=recs))
        except Exception:  # noqa: BLE001
            return False
        return any(f["signature"] == sig for f in r.failures)

    recs = ddmin(inp["records"], still, max_steps=120)
    r, _ = eval_one(ctx, dict(inp, records=recs))
    for f in r.failures:
        if f["signature"] == sig:
            return f
    return failure

"""C09 — PDB/mmCIF write-read round trips preserve every atom field; written PDB records obey the layout.

Real code: parser_v2.parse_pdb_atoms / parse_cif_atoms / write_pdb / write_cif, splitter.main.
Model (Lean, through the driver): pdb.write (write_pdb as it is), pdb.parsedoc (parse_pdb_atoms), pdb.tocif / pdb.ofcif
(row maps), pdb.bracketed (acceptor `wellBracketed` of the MODEL/ENDMDL/TER rule = the specification predicate).

SPEC checks (a failure = the real code violates C09 as stated, on data within PDB limits):
  * round trips PDB->PDB, mmCIF->mmCIF, PDB->mmCIF->PDB, mmCIF->PDB->mmCIF are the identity on the 16 fields
    (text / integers exactly, coordinates to 0.001, occupancy / B to 0.01, charge as a number: absent == 0);
  * every ATOM/HETATM/TER line has 80 columns and the fields sit in the columns of the PDB layout
    (the line read with the *specified* slices gives the row back);
  * MODEL/ENDMDL bracket every model, a TER closes every chain of every model (`wellBracketed`).
CORR checks (model vs code): byte-level PDB text, parsed documents, mmCIF tokens, mmCIF row -> atom.
Numbers are never compared as text: the real tables' doubles are converted exactly to fixed point (g4._fx).
"""
import io
import os
import random
import sys
import tempfile
import warnings

from core import Result, ddmin, exc_name, parallel_map
from gen import g4

PATHS = ("pdb-pdb", "cif-cif", "pdb-cif-pdb", "cif-pdb-cif")


# ------------------------------------------------------------------------------------------------- real code
def build_frame(case):
    from rnapolis.parser_v2 import parse_cif_atoms, parse_pdb_atoms
    with warnings.catch_warnings():
        warnings.simplefilter("ignore")
        if case["source"] == "gen":
            if case["format"] == "PDB":
                return g4.pdb_frame(case["rows"])
            seed = case.get("emit_seed")
            return g4.cif_frame(case["rows"], random.Random(seed) if seed is not None else None, drop=tuple(case.get("drop") or ()))
        with open(case["file"]) as f:
            text = f.read()
        df = parse_pdb_atoms(text) if case["format"] == "PDB" else parse_cif_atoms(text)
        if case.get("models"):
            col = "model" if case["format"] == "PDB" else "pdbx_PDB_model_num"
            keep = df[df[col].isin(case["models"])].copy()
            keep.attrs.update(df.attrs)
            df = keep
        if case.get("head"):
            df = g4.head(df, case["head"])
        return df


def raw_cif_rows(text):
    """attribute list and raw token rows of the atom_site loop (mmcif reader, no typing)"""
    from mmcif.io.IoAdapterPy import IoAdapterPy
    with tempfile.NamedTemporaryFile(mode="w", suffix=".cif", delete=False) as f:
        f.write(text)
        path = f.name
    try:
        data = IoAdapterPy().readFile(path)
    finally:
        os.remove(path)
    cat = data[0].getObj("atom_site")
    return list(cat.getAttributeList()), [list(r) for r in cat.getRowList()]


def negzero(rows):
    """a negative value that prints as -0.000 / -0.00 (the fixed-point model has no negative zero)"""
    import math
    for r in rows:
        for v, k in zip(r["_raw"], (r["x"], r["y"], r["z"], r["occ"], r["b"])):
            if v is not None and k == 0 and math.copysign(1.0, v) < 0:
                return True
    return False


def step(out, path, name, f, *a):
    try:
        with warnings.catch_warnings():
            warnings.simplefilter("ignore")
            return f(*a)
    except Exception as e:  # noqa: BLE001
        out["raises"].append((path, name, exc_name(e), str(e)[:200]))
        return None


def real(case):
    from rnapolis.parser_v2 import can_write_pdb, parse_cif_atoms, parse_pdb_atoms, write_cif, write_pdb
    out = {"raises": [], "diff": {}, "fmt": case["format"]}
    if case.get("written_before"):
        # the process has written another table before: one whose last atom has an alternate location, an insertion code,
        # an element and a charge.  Nothing of it may show in what is written for this case.
        prior = [{"record": "HETATM", "serial": 7, "name": "MG", "altLoc": "B", "resName": "MG", "chain": "Q", "resSeq": 77, "iCode": "Z",
                  "x": 1000, "y": 2000, "z": 3000, "occ": 50, "b": 1000, "element": "MG", "charge": "2+", "model": 1}]
        for fr in (g4.pdb_frame, g4.cif_frame):
            try:
                with warnings.catch_warnings():
                    warnings.simplefilter("ignore")
                    d0 = fr(prior)
                    write_pdb(d0)
                    write_cif(d0)
            except Exception:  # noqa: BLE001
                pass
    try:
        df = build_frame(case)
    except Exception as e:  # noqa: BLE001  (a corpus file the reader cannot read at all is C08's business)
        if case["source"] != "file":
            raise
        return {"skip": "%s: %s" % (exc_name(e), os.path.basename(case["file"]))}
    rows = g4.rows_of(df)
    out["rows"] = rows
    out["n"] = len(rows)
    ok = all(g4.wire_ok(r) for r in rows)
    out["negzero"] = ok and negzero(rows)
    cif = case["format"] == "mmCIF"
    out["fits"] = bool(ok and rows and all(g4.within_limits(g4.plain(r), cif) for r in rows) and
                       (case["format"] == "PDB" or can_write_pdb(df)))
    out["wire_ok"] = ok
    if case["format"] == "PDB":
        text = step(out, "pdb-pdb", "write_pdb", write_pdb, df)
        if text is not None:
            out["pdb_text"] = text
            df2 = step(out, "pdb-pdb", "parse_pdb_atoms", parse_pdb_atoms, text)
            if df2 is not None:
                out["pdb_back"] = g4.rows_of(df2)
                out["diff"]["pdb-pdb"] = g4.compare_rows(rows, out["pdb_back"])
        cif = step(out, "pdb-cif-pdb", "write_cif", write_cif, df)
        if cif is not None:
            try:
                out["cif_attrs"], out["cif_tokens"] = raw_cif_rows(cif)
            except Exception as e:  # noqa: BLE001
                out["raises"].append(("pdb-cif-pdb", "reread-tokens", exc_name(e), str(e)[:200]))
            dfc = step(out, "pdb-cif-pdb", "parse_cif_atoms", parse_cif_atoms, cif)
            if dfc is not None:
                out["cif_rows"] = g4.rows_of(dfc)
                t3 = step(out, "pdb-cif-pdb", "write_pdb", write_pdb, dfc)
                if t3 is not None:
                    df3 = step(out, "pdb-cif-pdb", "parse_pdb_atoms", parse_pdb_atoms, t3)
                    if df3 is not None:
                        out["diff"]["pdb-cif-pdb"] = g4.compare_rows(rows, g4.rows_of(df3))
    else:
        cif = step(out, "cif-cif", "write_cif", write_cif, df)
        if cif is not None:
            df2 = step(out, "cif-cif", "parse_cif_atoms", parse_cif_atoms, cif)
            if df2 is not None:
                out["diff"]["cif-cif"] = g4.compare_rows(rows, g4.rows_of(df2))
                out["cif_identical"] = g4.frames_agree(df, df2)
        if case.get("to_file"):
            # the writers given a path (as the tools do) whose file name has a blank and a second dot in it
            with tempfile.TemporaryDirectory(prefix="c09-") as d:
                p = os.path.join(d, "two words.v2.cif")
                step(out, "cif-cif(file)", "write_cif", write_cif, df, p)
                if os.path.exists(p):
                    with open(p) as f:
                        dff = step(out, "cif-cif(file)", "parse_cif_atoms", parse_cif_atoms, f.read())
                    if dff is not None:
                        out["diff"]["cif-cif(file)"] = g4.compare_rows(rows, g4.rows_of(dff))
                elif not any(r[0] == "cif-cif(file)" for r in out["raises"]):
                    out["raises"].append(("cif-cif(file)", "write_cif", "NoFile", "no file written"))
        if out["fits"]:
            text = step(out, "cif-pdb-cif", "write_pdb", write_pdb, df)
            if text is not None:
                out["pdb_text"] = text
                dfp = step(out, "cif-pdb-cif", "parse_pdb_atoms", parse_pdb_atoms, text)
                if dfp is not None:
                    out["pdb_back"] = g4.rows_of(dfp)
                    cif2 = step(out, "cif-pdb-cif", "write_cif", write_cif, dfp)
                    if cif2 is not None:
                        df3 = step(out, "cif-pdb-cif", "parse_cif_atoms", parse_cif_atoms, cif2)
                        if df3 is not None:
                            out["diff"]["cif-pdb-cif"] = g4.compare_rows(rows, g4.rows_of(df3))
    return out


# ------------------------------------------------------------------------------------------------- layout / shape of real text
def kinds_of_text(lines, rows):
    """record kinds of a written document for the acceptor; atoms carry the model number of their *row*"""
    ks = []
    i = 0
    for ln in lines:
        rec = ln[:6].strip()
        if rec == "MODEL":
            try:
                ks.append("M%d" % int(ln[10:14]))
            except ValueError:
                ks.append("M-1000000")
        elif rec == "ENDMDL":
            ks.append("E")
        elif rec == "TER":
            ks.append("T" + g4.hx(ln[21:22].strip()))
        elif rec in ("ATOM", "HETATM"):
            m = rows[i]["model"] if i < len(rows) else -1000000
            ks.append("A%d:%s" % (m, g4.hx(ln[21:22].strip())))
            i += 1
        elif rec == "END":
            ks.append("F")
        else:
            ks.append("X")
    return ks


def layout_failures(lines, rows):
    """80 columns for ATOM/HETATM/TER; TER fields in their columns"""
    bad = []
    last = None
    i = 0
    for ln in lines:
        rec = ln[:6].strip()
        if rec in ("ATOM", "HETATM"):
            if len(ln) != 80:
                bad.append(("atom-line-length", ln))
            last = rows[i] if i < len(rows) else None
            i += 1
        elif rec == "TER":
            if len(ln) != 80:
                bad.append(("ter-line-length", ln))
            elif last is not None:
                if ln[17:20].strip() != last["resName"] or ln[21:22] != last["chain"] or ln[22:26].strip() != str(last["resSeq"]) \
                        or ln[26:27].strip() != last["iCode"] or not ln[6:11].strip().lstrip("-").isdigit() or ln[27:].strip():
                    bad.append(("ter-fields", ln))
    return bad


# ------------------------------------------------------------------------------------------------- inputs
def build_cases(ctx, res):
    rng = ctx.rng
    cases = []
    n = ctx.pick(110, 1500)
    for i in range(n):
        kw = {}
        if i % 10 == 0:
            kw["nchains"] = rng.choice([20, 40, 62])
            kw["max_res"] = 2
        rows = g4.random_table(rng, **kw)
        rows = [r for r in rows if g4.within_limits(r)]
        if not rows:
            continue
        fam = "gen:%dm:%dc" % (len({r["model"] for r in rows}), min(9, len({r["chain"] for r in rows})))
        cases.append({"source": "gen", "format": "PDB", "rows": rows, "family": fam})
        cases.append({"source": "gen", "format": "mmCIF", "rows": rows, "emit_seed": rng.randrange(1 << 30), "family": fam, "to_file": i % 4 == 0})
    # large tables whose models are listed in descending / shuffled order (several hundred rows per model)
    for i in range(ctx.pick(2, 12)):
        one = [r for r in g4.random_table(rng, nmodels=1, nchains=rng.choice([2, 3, 4]), max_res=rng.choice([12, 20])) if g4.within_limits(r)]
        if not one:
            continue
        order = rng.choice([[2, 1], [3, 1, 2], [2, 1], [5, 4]])
        rows, serial = [], 1
        for m in order:
            for r in one:
                rows.append(dict(r, model=m, serial=serial))
                serial += 1
        if len(rows) <= 99000:
            cases.append({"source": "gen", "format": "PDB", "rows": rows, "family": "models-out-of-order:%d-rows" % (100 * (len(rows) // 100))})
            cases.append({"source": "gen", "format": "mmCIF", "rows": rows, "emit_seed": rng.randrange(1 << 30),
                          "family": "models-out-of-order:%d-rows" % (100 * (len(rows) // 100))})
    # minimal atom_site loops: no alternate-location, insertion-code, charge (or element) item at all, written after the
    # process has written a table that has all of them
    for i in range(ctx.pick(24, 300)):
        rows = [dict(r, altLoc="", iCode="", charge="") for r in g4.random_table(rng, nmodels=1, max_res=3) if g4.within_limits(r)]
        # dropping the insertion code must not merge residues: keep one residue per (chain, number)
        seen, keep = {}, []
        for r in rows:
            k = (r["chain"], r["resSeq"])
            if seen.setdefault(k, (r["resName"],)) == (r["resName"],):
                keep.append(r)
        drop = ["label_alt_id", "pdbx_PDB_ins_code", "pdbx_formal_charge"]
        if rng.random() < 0.3:
            drop = rng.sample(drop, 2)
        if keep:
            cases.append({"source": "gen", "format": "mmCIF", "rows": keep, "emit_seed": None, "drop": drop, "written_before": True,
                          "family": "minimal-loop-after-full-table"})
    # hand-made minimal shapes
    base = {"record": "ATOM", "serial": 1, "name": "P", "altLoc": "", "resName": "G", "chain": "A", "resSeq": 1, "iCode": "",
            "x": 1000, "y": -2000, "z": 3, "occ": 100, "b": 2050, "element": "P", "charge": "", "model": 1}
    hand = [
        [base],
        [base, dict(base, serial=2, model=2)],
        [base, dict(base, serial=2, chain="B")],
        [dict(base, charge="2+", element="MG", name="MG", resName="MG", record="HETATM")],
        [dict(base, charge="1-", name="O1P")],
        [dict(base, name="H5''", element="H"), dict(base, serial=2, name="1H5'", element="H"), dict(base, serial=3, name="C", element="C")],
        [dict(base, altLoc="A", occ=50), dict(base, serial=2, altLoc="B", occ=50)],
        [dict(base, iCode="A", resSeq=-5), dict(base, serial=2, iCode="B", resSeq=-5)],
        [dict(base, x=-999999, y=9999999, z=-1, occ=-9999, b=99999, serial=99998, resSeq=9999, model=9999)],
        [dict(base, element=""), dict(base, serial=2, element="SE", name="SE")],
        [dict(base, name='H5"', element="H")],
    ]
    for rows in hand:
        cases.append({"source": "gen", "format": "PDB", "rows": rows, "family": "hand"})
        cases.append({"source": "gen", "format": "mmCIF", "rows": rows, "emit_seed": None, "family": "hand"})
    cap = ctx.pick(350, 100000)
    for p in g4.corpus_files("pdb"):
        cases.append({"source": "file", "format": "PDB", "file": p, "head": cap, "family": "corpus"})
    for p in g4.corpus_files("cif"):
        cases.append({"source": "file", "format": "mmCIF", "file": p, "head": cap, "family": "corpus"})
    return cases


def case_input(case):
    """JSON-serialisable replay input"""
    return {k: v for k, v in case.items()}


# ------------------------------------------------------------------------------------------------- evaluation of one batch
def judge(ctx, res, cases, outs):
    D = ctx.driver
    reqs, idx = [], []
    for ci, (case, o) in enumerate(zip(cases, outs)):
        rows = o["rows"]
        if "pdb_text" in o and o["wire_ok"]:
            lines = o["pdb_text"].split("\n")
            if lines and lines[-1] == "":
                lines.pop()
            o["lines"] = lines
            w = [g4.wire(r) for r in rows]
            if not o["negzero"]:
                reqs.append(["pdb.write"] + w); idx.append((ci, "write"))
            reqs.append(["pdb.parsedoc"] + [g4.hx(l) for l in lines]); idx.append((ci, "parsedoc"))
            reqs.append(["pdb.bracketed"] + kinds_of_text(lines, rows)); idx.append((ci, "bracketed"))
            reqs.append(["pdb.kinds"] + w); idx.append((ci, "kinds"))
        if "cif_tokens" in o and o["fits"] and not o["negzero"]:
            for ri, r in enumerate(rows[:40]):
                reqs.append(["pdb.tocif", "code", g4.wire(r)]); idx.append((ci, ("tocif", ri)))
                reqs.append(["pdb.ofcif", ",".join(o["cif_attrs"]), ",".join(g4.hx(t) for t in o["cif_tokens"][ri])])
                idx.append((ci, ("ofcif", ri)))
        if o["wire_ok"] and o["fmt"] == "PDB":
            for r in rows[:3]:
                reqs.append(["pdb.within", g4.wire(r)]); idx.append((ci, ("within", g4.within_limits(g4.plain(r)))))
    resp = D.ask(reqs)
    for (ci, what), r in zip(idx, resp):
        case, o = cases[ci], outs[ci]
        inp = case_input(case)
        rows = o["rows"]
        if what == "write":
            mine = [bytes.fromhex(x).decode() if x != "-" else "" for x in r.split(",")]
            if mine != o["lines"]:
                k = next((i for i, (a, b) in enumerate(zip(mine, o["lines"])) if a != b), min(len(mine), len(o["lines"])))
                res.fail("corr", "C09:corr:write_pdb:text", inp, "line %d: model=%r impl=%r" % (
                    k, mine[k] if k < len(mine) else None, o["lines"][k] if k < len(o["lines"]) else None))
        elif what == "parsedoc":
            got = [g4.unwire(x) for x in r.split(";")] if r else []
            raw_got = got
            if o["fits"]:
                # layout: the line read with the specified column slices gives the row back
                nrm = lambda x: None if x is None else dict(x, charge=g4.charge_norm(x["charge"]))
                want = [nrm(g4.plain(x)) for x in rows]
                got = [nrm(x) for x in got]
                if got != want:
                    k = next((i for i, (a, b) in enumerate(zip(got, want)) if a != b), -1)
                    fld = "rows" if k < 0 or got[k] is None else next(f for f in g4.FIELDS if got[k][f] != want[k][f])
                    res.fail("spec", "C09:write_pdb:layout:%s" % fld, inp,
                             "the written line read back with the PDB column layout differs from the row in field %s: line=%r row=%r"
                             % (fld, o["lines"] and [l for l in o["lines"] if l[:6].strip() in ("ATOM", "HETATM")][max(k, 0)], want[max(k, 0)] if want else None))
            if "pdb_back" in o:
                back = [g4.plain(x) if g4.wire_ok(x) else None for x in o["pdb_back"]]
                if raw_got != back:
                    res.fail("corr", "C09:corr:parse_pdb_atoms", inp, "model reader and parse_pdb_atoms disagree on the written text")
        elif what == "bracketed":
            if o["fits"] and r != "ok":
                res.fail("spec", "C09:write_pdb:bracketing:%s" % r, inp,
                         "MODEL/ENDMDL/TER rule violated (%s) in the text written by write_pdb; records: %s" % (
                             r, " ".join(l[:6].strip() for l in o["lines"] if l[:6].strip() not in ("ATOM", "HETATM"))[:300]))
        elif what == "kinds":
            mine = r.split(" ")
            if mine != kinds_of_text(o["lines"], rows):
                res.fail("corr", "C09:corr:write_pdb:records", inp, "sequence of record kinds differs: model=%s" % r[:300])
        elif what[0] == "tocif":
            toks = [bytes.fromhex(x).decode() if x != "-" else "" for x in r.split(",")]
            if toks != o["cif_tokens"][what[1]]:
                res.fail("corr", "C09:corr:write_cif:tokens", inp, "row %d model=%r impl=%r" % (what[1], toks, o["cif_tokens"][what[1]]))
        elif what[0] == "ofcif":
            want = o.get("cif_rows")
            if want is not None and g4.wire_ok(want[what[1]]):
                if g4.unwire(r) != g4.plain(want[what[1]]):
                    res.fail("corr", "C09:corr:cif-row-to-atom", inp, "row %d model=%r impl=%r" % (what[1], g4.unwire(r), g4.plain(want[what[1]])))
        elif what[0] == "within":
            if what[1] and r != "true":
                res.fail("corr", "C09:corr:within-limits", inp, "generator and Lean predicate disagree on %r" % (rows[:3],))
    for case, o in zip(cases, outs):
        inp = case_input(case)
        fmt = o["fmt"]
        res.case((fmt, case.get("file"), len(o["rows"]), tuple(tuple(sorted(g4.plain(r).items())) for r in o["rows"][:4])),
                 nontrivial=o["n"] > 0)
        res.count("family:" + case["family"].split(":")[0])
        res.count("format:" + fmt)
        res.count("rows", o["n"])
        if o["negzero"]:
            res.count("negative-zero (byte comparison skipped)")
        if not o["fits"]:
            res.count("outside PDB limits (mmCIF->mmCIF only)")
        models = len({r["model"] for r in o["rows"]})
        res.count("models:%d" % min(models, 4))
        for path, name, exc, msg in o["raises"]:
            if path.startswith("cif-cif") or o["fits"]:
                res.fail("spec", "C09:roundtrip:%s:%s:raises:%s" % (path, name, exc), inp, "%s raised %s: %s" % (name, exc, msg))
            else:
                res.count("raises-outside-limits:%s:%s" % (name, exc))
        for path, d in o["diff"].items():
            if d is None:
                res.count("roundtrip-ok:" + path)
                continue
            if not path.startswith("cif-cif") and not o["fits"]:
                continue
            i, fld, a, b = d
            res.fail("spec", "C09:roundtrip:%s:%s" % (path, fld), inp,
                     "%s changes field %s of row %d: %r -> %r (row %r)" % (path, fld, i, a, b, g4.plain(o["rows"][i]) if 0 <= i < o["n"] else None))
        if o.get("cif_identical") is False and o["diff"].get("cif-cif") is None:
            res.count("cif-cif: 16 fields equal, other columns or dtypes differ")
        if "lines" in o and o["fits"]:
            for kind, ln in layout_failures(o["lines"], o["rows"])[:1]:
                res.fail("spec", "C09:write_pdb:layout:%s" % kind, inp, "record %r" % ln)


# ------------------------------------------------------------------------------------------------- splitter
def split_case(res, rows, infmt, outfmt, corr=None, fits=True):
    """splitter.main on one multi-model sample; returns the driver requests for the bracketing check.
    `corr`: list collecting what is needed for the correspondence with the splitter model (`split.run`);
    `fits=False`: the table needs fitting, so the written rows are not the input rows (only the model comparison,
    the bracketing and the C10 limits are checked)"""
    import contextlib
    from rnapolis import splitter
    from rnapolis.parser_v2 import parse_cif_atoms, parse_pdb_atoms
    reqs = []
    models = sorted({r["model"] for r in rows})
    inp = {"source": "splitter", "rows": rows, "in": infmt, "out": outfmt}
    with tempfile.TemporaryDirectory() as d:
        src = os.path.join(d, "sample." + ("pdb" if infmt == "PDB" else "cif"))
        with open(src, "w") as f:
            text = g4.emit_pdb(rows) if infmt == "PDB" else g4.emit_cif(rows)
            if infmt != "PDB" and len(rows) % 4 == 1:
                # reserved words of CIF are case-insensitive (chosen by the number of rows, so that a replay repeats it)
                text = text.replace("data_g4", "DATA_g4", 1).replace("\nloop_\n", "\nLOOP_\n", 1)
            f.write(text)
        argv = sys.argv
        sys.argv = ["splitter", "-o", os.path.join(d, "out"), "-f", outfmt, src]
        buf = io.StringIO()
        try:
            with contextlib.redirect_stdout(buf), contextlib.redirect_stderr(buf), warnings.catch_warnings():
                warnings.simplefilter("ignore")
                splitter.main()
        except SystemExit as e:
            if e.code not in (0, None):
                res.fail("spec", "C09:splitter:exit", inp, "splitter exited with %r: %s" % (e.code, buf.getvalue()[-300:]))
        except Exception as e:  # noqa: BLE001
            res.fail("spec", "C09:splitter:raises:%s" % exc_name(e), inp, str(e)[:300])
        finally:
            sys.argv = argv
        real_out = infmt if outfmt == "keep" else outfmt
        res.count("splitter:%s->%s%s" % (infmt, real_out, "" if fits else ":needs-fit"))
        written = {}
        listing = sorted(os.listdir(os.path.join(d, "out"))) if os.path.isdir(os.path.join(d, "out")) else []
        fits_arg = fits
        for m in models:
            want = [r for r in rows if r["model"] == m]
            # "per-model": a model whose rows fit the PDB widths must come out unchanged even when another model of the
            # same file does not fit
            fits = fits_arg if fits_arg in (True, False) else all(g4.within_limits(r) for r in want)
            p = os.path.join(d, "out", "sample_model_%d.%s" % (m, "pdb" if real_out == "PDB" else "cif"))
            if not os.path.exists(p):
                if fits:
                    res.fail("spec", "C09:splitter:%s-%s:missing-model" % (infmt, real_out), inp,
                             "no file for model %d: %s" % (m, buf.getvalue()[-300:]))
                continue
            text = open(p).read()
            with warnings.catch_warnings():
                warnings.simplefilter("ignore")
                back = g4.rows_of(parse_pdb_atoms(text) if real_out == "PDB" else parse_cif_atoms(text))
            written[m] = [g4.plain(r) for r in back]
            if fits:
                wrows = [dict(r, _raw=(r["x"] / 1000, r["y"] / 1000, r["z"] / 1000, r["occ"] / 100, r["b"] / 100)) for r in want]
                dd = g4.compare_rows(wrows, back)
                if dd is not None:
                    res.fail("spec", "C09:splitter:%s-%s:%s" % (infmt, real_out, dd[1]), inp,
                             "model %d: field %s of row %d: %r -> %r" % (m, dd[1], dd[0], dd[2], dd[3]))
            elif real_out == "PDB":
                # C10 at this observation point: whatever is written satisfies the limits
                bad = [r for r in back if r["serial"] is None or r["resSeq"] is None or r["serial"] > 99999 or r["resSeq"] > 9999]
                if bad:
                    res.fail("spec", "C09:splitter:%s-%s:limits" % (infmt, real_out), inp, "model %d: %r" % (m, g4.plain(bad[0])))
                # ... and is a renaming: as many rows, chains and residues as the model has, grouped the same way
                if len(back) != len(want):
                    res.fail("spec", "C09:splitter:%s-%s:rows" % (infmt, real_out), inp, "model %d: %d rows written, %d in the model" % (m, len(back), len(want)))
                else:
                    fwd, bwd = {}, {}
                    for a, b2 in zip(want, back):
                        ka, kb = (a["chain"], a["resSeq"], a["iCode"]), (b2["chain"], b2["resSeq"], b2["iCode"])
                        if fwd.setdefault(ka, kb) != kb or bwd.setdefault(kb, ka) != ka or \
                                fwd.setdefault(("chain", a["chain"]), b2["chain"]) != b2["chain"] or \
                                bwd.setdefault(("chain", b2["chain"]), a["chain"]) != a["chain"]:
                            res.fail("spec", "C09:splitter:%s-%s:renaming-not-one-to-one" % (infmt, real_out), inp,
                                     "model %d: %r -> %r clashes with an earlier row" % (m, ka, kb))
                            break
            if real_out == "PDB":
                lines = text.split("\n")
                if lines and lines[-1] == "":
                    lines.pop()
                reqs.append((["pdb.bracketed"] + kinds_of_text(lines, back if not fits else want), inp, m))
        if corr is not None and all(g4.wire_ok(r) for r in rows):
            corr.append({"req": ["split.run", infmt, outfmt] + [g4.wire(r) for r in rows], "inp": inp, "written": written,
                         "ext": ".pdb" if real_out == "PDB" else ".cif", "listing": listing})
    return reqs


def judge_split_corr(ctx, res, corr):
    """written files (parsed back) against the splitter model: one file per model number, named by it, holding the table
    the model hands to the writer (charges compared as numbers: a mmCIF-derived table spells them differently)"""
    def norm(r):
        return dict(g4.plain(r), charge=g4.charge_norm(r["charge"]))
    for c, resp in zip(corr, ctx.driver.ask([c["req"] for c in corr])):
        files = {}
        for part in resp.split("|") if resp else []:
            head, _, body = part.partition("=")
            kind, _, rows = body.partition(":")
            files[head] = (kind, [g4.unwire(x) for x in rows.split(";")] if rows and kind != "skipped" else [])
        want_names = sorted("sample_model_%s" % h for h, (k, _) in files.items() if k != "skipped")
        if sorted(c["listing"]) != want_names:
            res.fail("corr", "C09:corr:splitter:files", c["inp"], "tool wrote %r, model %r" % (c["listing"], want_names))
            continue
        for head, (kind, rows) in files.items():
            if kind == "skipped":
                continue
            m = int(head[: -len(c["ext"])]) if head.endswith(c["ext"]) else None
            got = c["written"].get(m)
            if got is None:
                res.fail("corr", "C09:corr:splitter:files", c["inp"], "model writes %s, the tool wrote no such file" % head)
                break
            if [norm(r) for r in rows] != [norm(r) for r in got]:
                k = next((i for i, (a, b) in enumerate(zip(rows, got)) if norm(a) != norm(b)), -1)
                res.fail("corr", "C09:corr:splitter:table", c["inp"],
                         "file of model %s: row %d model=%r tool=%r (rows: model %d, tool %d)" % (
                             m, k, rows[k] if k >= 0 else None, got[k] if k >= 0 else None, len(rows), len(got)))
                break


def judge_split(ctx, res, reqs):
    for (_, inp, m), r in zip(reqs, ctx.driver.ask([q[0] for q in reqs])):
        if r != "ok":
            res.fail("spec", "C09:splitter:bracketing:%s" % r, inp, "file of model %d: %s" % (m, r))


def run_splitter(ctx, res, only_fit=False):
    """splitter.main on multi-model samples, all format combinations (`only_fit`: only the families in which a model
    needs fitting — what the C10 check adds at this observation point)"""
    rng = ctx.rng
    reqs = []
    corr = []
    for k in range(0 if only_fit else ctx.pick(6, 40)):
        rows = [r for r in g4.random_table(rng, nmodels=rng.randint(2, 4), nchains=rng.randint(1, 3)) if g4.within_limits(r)]
        for infmt in ("PDB", "mmCIF"):
            for outfmt in ("keep", "PDB", "mmCIF"):
                res.case(("splitter", k, infmt, outfmt), nontrivial=True)
                reqs += split_case(res, rows, infmt, outfmt, corr)
    # mmCIF tables that need fitting per model (multi-character chain ids, numbers > 9999): C10 through splitter.main
    for k in range(ctx.pick(3, 20)):
        rows = g4.random_table(rng, nmodels=rng.randint(2, 3), nchains=rng.randint(1, 3), multichar_chains=True,
                               big_numbers=rng.random() < 0.5)
        rows = [r for r in rows if g4.within_limits(dict(r, chain="A", resSeq=1, serial=1))]
        for outfmt in ("PDB", "mmCIF"):
            res.case(("splitter-fit", k, outfmt), nontrivial=True)
            reqs += split_case(res, rows, "mmCIF", outfmt, corr, fits=False)
    # models whose chain sets differ (a later model drops one chain and brings a new one), every model needing a fit
    for k in range(ctx.pick(4, 30)):
        rows = g4.random_table(rng, nmodels=rng.randint(2, 3), nchains=rng.randint(2, 4), multichar_chains=True)
        rows = [r for r in rows if g4.within_limits(dict(r, chain="A", resSeq=1, serial=1))]
        models = sorted({r["model"] for r in rows})
        chains = list(dict.fromkeys(r["chain"] for r in rows))
        if len(models) < 2 or len(chains) < 2:
            continue
        varied = []
        for r in rows:
            if r["model"] != models[0]:
                if r["chain"] == chains[0]:
                    continue                                    # dropped in the later models
                if r["chain"] == chains[-1]:
                    r = dict(r, chain=chains[-1] + "n")         # a chain the first model does not have
            varied.append(r)
        res.case(("splitter-chain-sets-differ", k), nontrivial=True)
        reqs += split_case(res, varied, "mmCIF", "PDB", corr, fits=False)
    # multi-model mmCIF files in which only SOME models need fitting (serials that keep counting past 99999 in a later
    # model, a two-character chain id that occurs in one model only): the models that fit are written unchanged
    for k in range(ctx.pick(4, 30)):
        rows = [r for r in g4.random_table(rng, nmodels=rng.randint(2, 3), nchains=rng.randint(1, 3)) if g4.within_limits(r)]
        models = sorted({r["model"] for r in rows})
        if len(models) < 2:
            continue
        bad = rng.choice(models[1:] if rng.random() < 0.7 else models)
        how = rng.randrange(3)
        chains = sorted({r["chain"] for r in rows if r["model"] == bad})
        victim = rng.choice(chains)
        mixed = []
        for r in rows:
            if r["model"] == bad:
                if how == 0:
                    r = dict(r, serial=r["serial"] + 100000)
                elif how == 1 and r["chain"] == victim:
                    r = dict(r, chain=victim + "2")
                elif how == 2:
                    r = dict(r, resSeq=r["resSeq"] + 10000)
            mixed.append(r)
        for outfmt in ("PDB",):
            res.case(("splitter-some-models-fit", k, outfmt), nontrivial=True)
            reqs += split_case(res, mixed, "mmCIF", outfmt, corr, fits="per-model")
    judge_split(ctx, res, reqs)
    judge_split_corr(ctx, res, corr)


def reparse_case(case):
    """a file is read, the returned table is edited in place, the same unchanged file is read again: the second reading
    must be the file's content (the reader is a function of the file, not of earlier calls)"""
    from rnapolis.parser_v2 import parse_cif_atoms, parse_pdb_atoms
    rows, fmt = case["rows"], case["format"]
    out = {"diff": None, "raises": None}
    with tempfile.TemporaryDirectory() as d:
        path = os.path.join(d, "table." + ("pdb" if fmt == "PDB" else "cif"))
        with open(path, "w") as f:
            f.write(g4.emit_pdb(rows) if fmt == "PDB" else g4.emit_cif(rows))
        try:
            with warnings.catch_warnings():
                warnings.simplefilter("ignore")
                parse = parse_pdb_atoms if fmt == "PDB" else parse_cif_atoms
                text = open(path).read()
                via = case.get("via", "file")

                def read():
                    # the three kinds of argument the readers accept: an open file, the text, an in-memory stream
                    if via == "str":
                        return parse(text)
                    if via == "stringio":
                        return parse(io.StringIO(text))
                    with open(path) as f:
                        return parse(f)
                df1 = read()
                for col in list(df1.columns)[:]:
                    if col in ("chainID", "auth_asym_id", "label_asym_id"):
                        df1[col] = "Z"
                    elif col in ("tempFactor", "B_iso_or_equiv", "x", "Cartn_x"):
                        df1[col] = 0.0
                if len(df1):
                    df1.drop(df1.index[-1], inplace=True)
                df2 = read()
            back = g4.rows_of(df2)
            want = [dict(r, _raw=(r["x"] / 1000, r["y"] / 1000, r["z"] / 1000, r["occ"] / 100, r["b"] / 100)) for r in rows]
            out["diff"] = g4.compare_rows(want, back)
        except Exception as e:  # noqa: BLE001
            out["raises"] = "%s: %s" % (exc_name(e), str(e)[:160])
    return out


def run_reparse(ctx, res):
    rng = ctx.rng
    cases = []
    for k in range(ctx.pick(12, 120)):
        rows = [r for r in g4.random_table(rng) if g4.within_limits(r)]
        if rows:
            cases.append({"source": "reparse", "rows": rows, "format": rng.choice(["PDB", "mmCIF"]), "via": rng.choice(["file", "str", "stringio"])})
    for case, o in zip(cases, parallel_map(reparse_case, cases)):
        res.case(("reparse", case["format"], case["via"], len(case["rows"])), nontrivial=True)
        res.count("family:read-edit-read:%s:%s" % (case["format"], case["via"]))
        judge_reparse(res, case, o)


def judge_reparse(res, case, o):
    inp = {"source": "reparse", "format": case["format"], "via": case.get("via", "file"), "rows": case["rows"]}
    if o["raises"]:
        res.fail("spec", "C09:reader:second-read-raises", inp, o["raises"])
    elif o["diff"] is not None:
        d = o["diff"]
        res.fail("spec", "C09:reader:second-read-differs:%s" % d[1], inp,
                 "after the first table was edited in place, reading the unchanged content again (%s) gives %s of row %d: %r -> %r"
                 % (inp["via"], d[1], d[0], d[2], d[3]))


# ------------------------------------------------------------------------------------------------- entry points
def run(ctx):
    import time
    T = [time.time()]

    def lap(name):
        T.append(time.time())
        res.notes.append("%s %.1fs" % (name, T[-1] - T[-2]))
    res = Result("C09")
    res.rule = ("atom tables within PDB limits from the G4 grammar (1-4 character names incl. primes / leading digits / "
                "4-character hydrogens, 1-2 letter elements, negative coordinates and numbers, charges, insertion codes, "
                "altlocs, hetero groups, 1-4 models sharing residue identities, 1-62 chains), each as a PDB-derived and as a "
                "mmCIF-derived frame (both null markers, label_ ids different from auth_ ids, 5-decimal coordinates), "
                "hand-made minimal shapes, and every *.pdb / *.cif of the repository's tests (first rows in quick); "
                "non-trivial = at least one atom; distinct by format and content")
    cases = build_cases(ctx, res)
    outs = parallel_map(real, cases)
    for c, o in zip(cases, outs):
        if "skip" in o:
            res.count("corpus file skipped (%s)" % o["skip"])
    cases, outs = [c for c, o in zip(cases, outs) if "skip" not in o], [o for o in outs if "skip" not in o]
    lap("real code on %d tables" % len(cases))
    judge(ctx, res, cases, outs)
    lap("model + judge")
    # independent emitter: what the generator meant is what the reader reads
    for case, o in zip(cases, outs):
        if case["source"] == "gen":
            got = [g4.plain(r) for r in o["rows"]]
            want = case["rows"]
            if case["format"] == "mmCIF":
                got = [dict(g, charge=g4.charge_norm(g["charge"])) for g in got]
                want = [dict(w, charge=g4.charge_norm(w["charge"])) for w in want]
            if got != want:
                k = next((i for i, (a, b) in enumerate(zip(got, want)) if a != b), -1)
                res.fail("corr", "C09:corr:reader-vs-independent-emitter:%s" % case["format"], case_input(case),
                         "row %d read=%r emitted=%r" % (k, got[k] if k >= 0 else len(got), want[k] if k >= 0 else len(want)))
    run_splitter(ctx, res)
    lap("splitter")
    run_reparse(ctx, res)
    lap("read-edit-read")
    for case, o in list(zip(cases, outs))[:3]:
        res.sample({"family": case["family"], "format": o["fmt"], "rows": o["n"], "first": g4.plain(o["rows"][0]) if o["rows"] else None})
    __import__("corr.fn_common", fromlist=["run_fn"]).run_fn(ctx, res, "C09")  # regenerated functions vs the real ones (tools/py2lean.py)
    return res


def signatures_of(ctx, case):
    res = Result("C09")
    if case.get("source") == "splitter":
        judge_split(ctx, res, split_case(res, case["rows"], case["in"], case["out"]))
        return res
    if case.get("source") == "reparse":
        judge_reparse(res, case, reparse_case(case))
        return res
    o = real(case)
    if "skip" not in o:
        judge(ctx, res, [case], [o])
    return res


def pdb_charge_text(c):
    n = g4.charge_norm(c)
    if n is None:
        return ""
    return "%d%s" % (abs(n), "+" if n > 0 else "-") if isinstance(n, int) else str(n)


def as_generated(case):
    """a corpus table re-expressed as generated rows (so that it can be shrunk and replayed without the file)"""
    o = real(case)
    if "skip" in o or not o["wire_ok"]:
        return None
    rows = [dict(g4.plain(r), charge=pdb_charge_text(r["charge"])) for r in o["rows"]]
    if not all(g4.within_limits(r) for r in rows):
        return None
    return {"source": "gen", "format": case["format"], "rows": rows, "emit_seed": None, "family": "from:" + os.path.basename(case["file"])}


def shrink(ctx, failure):
    """delta-debug the rows of a table while the same signature is reported"""
    case = failure["input"]
    sig = failure["signature"]

    def sigs(c):
        return [f for f in signatures_of(ctx, c).failures if f["signature"] == sig]

    if case.get("source") == "file":
        g = as_generated(case)
        if g is None or not sigs(g):
            return failure
        case = g
    rows = ddmin(case["rows"], lambda rs: bool(sigs(dict(case, rows=rs))), max_steps=60)
    fs = sigs(dict(case, rows=rows))
    return fs[0] if fs else failure


def replay(ctx, data):
    case = data["input"]
    res = signatures_of(ctx, case)
    if case.get("source") == "splitter":
        print("splitter.main on %d rows, %s -> %s" % (len(case["rows"]), case["in"], case["out"]))
    elif case.get("source") == "reparse":
        print("read (%s), edit the returned table in place, read the same content again: %d rows, %s" % (case.get("via", "file"), len(case["rows"]), case["format"]))
    else:
        o = real(case)
        print("table: format=%s rows=%d fits=%s" % (o["fmt"], o["n"], o["fits"]))
        if "pdb_text" in o:
            print("write_pdb output:\n" + o["pdb_text"][:1500])
    for f in res.failures:
        print("%s %s: %s" % (f["kind"].upper(), f["signature"], f["detail"][:400]))
    if not res.failures:
        print("no failure on this input")

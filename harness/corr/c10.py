"""C10 — fitting an atom table to PDB limits is a structure-preserving renaming or a clean refusal.

Real code: parser_v2.can_write_pdb, fit_to_pdb (+ write_pdb, parse_pdb_atoms for the read-back).
Model (Lean, through the driver): fit.canwrite, fit.fit (Except ValueError), fit.spec (the decidable C10 predicate
`Fit.specCheck` on (input table, returned table)), fit.refuses.

SPEC checks on what the real code returns (never more than the statement demands):
  * the call either returns a table or raises ValueError (any other exception is a violation);
  * a returned table has serial <= 99999, one-character chain ids, residue numbers <= 9999; as many rows in the
    same order with every field other than serial / chain / number / insertion code unchanged; old chain <-> new
    chain and old (chain, number, icode) <-> new (chain, number, icode) are one-to-one;
  * a table that already fits comes back unchanged;
  * ValueError only when no fit exists: it is a violation when rows + chain changes + 1 <= 99999, chains <= 62 and
    every chain has <= 9999 residues (then a fit certainly exists);
  * write_pdb of the result, read back with parse_pdb_atoms, gives the same rows.
CORR checks: can_write_pdb and the outcome of fit_to_pdb (table or ValueError) equal the model's.
"""
import os
import random
import traceback
import warnings

from core import Result, ddmin, exc_name, parallel_map
from corr import c09
from gen import g4

KINDS = ["many_atoms", "edge_atoms", "many_chains", "edge_chains", "many_residues", "edge_residues", "big_serial",
         "big_numbers", "interleaved", "spread_residues"]
_BIG = {}


# ------------------------------------------------------------------------------------------------- frames
def build_frame(case):
    import pandas as pd
    src = case["source"]
    if src == "gen":
        if case["format"] == "PDB":
            df = g4.pdb_frame(case["rows"])
            ed = case.get("edit")
            if ed:
                # a PDB-derived table edited afterwards (what unifier does when it copies identifiers of another file)
                with warnings.catch_warnings():
                    warnings.simplefilter("ignore")
                    fmt = df.attrs.get("format")
                    df = df.copy()
                    if ed["what"] == "chain":
                        df["chainID"] = [ed["value"] if c == ed["old"] else c for c in df["chainID"].astype(str)]
                    elif ed["what"] == "resSeq":
                        df["resSeq"] = [int(v) + ed["value"] for v in df["resSeq"]]
                    elif ed["what"] == "serial":
                        df["serial"] = [int(v) + ed["value"] for v in df["serial"]]
                    df.attrs["format"] = fmt
            return df
        seed = case.get("emit_seed")
        df = g4.cif_frame(case["rows"], random.Random(seed) if seed is not None else None)
        if case.get("permute_seed") is not None:
            # the same rows in another order, keeping their index labels (a sorted / re-assembled selection)
            fmt = df.attrs.get("format")
            order = list(range(len(df)))
            random.Random(case["permute_seed"]).shuffle(order)
            df = df.iloc[order].copy()
            df.attrs["format"] = fmt
        if case.get("subset_head") is not None:
            # a row selection of a parsed table (what splitter does per model): categorical columns keep the
            # categories of the rows that were dropped
            fmt = df.attrs.get("format")
            df = df.iloc[: case["subset_head"]].copy()
            df.attrs["format"] = fmt
        return df
    if src == "overflow":
        cols, _ = g4.overflow_cols(random.Random(case["seed"]), case["kind"], case.get("quick", False), case.get("side"))
        return g4.cif_frame_direct(cols)
    if src == "file":
        df = c09.build_frame({"source": "file", "format": "mmCIF", "file": case["file"], "head": case.get("head")})
        v = case.get("variant")
        with warnings.catch_warnings():
            warnings.simplefilter("ignore")
            if v == "chains" and "auth_asym_id" in df.columns:
                df["auth_asym_id"] = (df["auth_asym_id"].astype(str) + "x").astype("category")
            elif v == "serial" and "id" in df.columns:
                df["id"] = (pd.to_numeric(df["id"]) + 100000).astype(str).astype("category")
            elif v == "numbers" and "auth_seq_id" in df.columns:
                df["auth_seq_id"] = (pd.to_numeric(df["auth_seq_id"]) + 10000).astype(str).astype("category")
        df.attrs["format"] = "mmCIF"
        return df
    raise ValueError(src)


def call_site(e):
    """the statement of parser_v2.py an exception comes from, as a short stable tag"""
    tb = traceback.extract_tb(e.__traceback__)
    line = ""
    for fr in tb:
        if fr.filename.endswith("parser_v2.py"):
            line = fr.line or ""
    words = "".join(c if c.isalnum() else " " for c in line).split()
    return "_".join(words)[:48] or "unknown"


# ------------------------------------------------------------------------------------------------- python spec (dict based, any size)
def py_spec(fits, rows, rows2):
    # whatever is returned satisfies the limits the statement names
    for r in rows2:
        if r["serial"] is None or r["resSeq"] is None or r["serial"] > 99999 or len(r["chain"]) > 1 or r["resSeq"] > 9999:
            return "fail:limits"
    if fits:
        a = [g4.plain(r) for r in rows]
        b = [g4.plain(r) for r in rows2]
        return "ok" if a == b else "fail:not-identity-on-fitting-table"
    if len(rows) != len(rows2):
        return "fail:row-count"
    for r in rows2:
        if r["serial"] is None or r["resSeq"] is None or r["serial"] > 99999 or len(r["chain"]) != 1 or r["resSeq"] > 9999:
            return "fail:limits"
    for r, s in zip(rows, rows2):
        for f in g4.FIELDS:
            if f in ("serial", "chain", "resSeq", "iCode"):
                continue
            if f in ("x", "y", "z", "occ", "b"):
                j = ("x", "y", "z", "occ", "b").index(f)
                if r["_raw"][j] != s["_raw"][j] and not (r["_raw"][j] is None and s["_raw"][j] is None):
                    return "fail:other-fields:" + f
            elif f == "charge":
                if g4.charge_norm(r[f]) != g4.charge_norm(s[f]):
                    return "fail:other-fields:" + f
            elif r[f] != s[f]:
                return "fail:other-fields:" + f
    for key, tag in ((lambda r: r["chain"], "chain-map"), (lambda r: (r["chain"], r["resSeq"], r["iCode"]), "residue-map")):
        fwd, bwd = {}, {}
        for r, s in zip(rows, rows2):
            a, b = key(r), key(s)
            if fwd.setdefault(a, b) != b or bwd.setdefault(b, a) != a:
                return "fail:" + tag
    return "ok"


def py_fits(rows):
    """the statement's limits on every row: serial <= 99999, one-character chain id, residue number <= 9999"""
    return bool(rows) and all(r["serial"] is not None and r["resSeq"] is not None and 0 <= r["serial"] <= 99999
                              and len(r["chain"]) == 1 and r["resSeq"] <= 9999 for r in rows)


def counts(rows):
    chains = []
    seen = set()
    res = {}
    changes = 0
    last = None
    for r in rows:
        c = r["chain"]
        if c not in seen:
            seen.add(c)
            chains.append(c)
        res.setdefault(c, set()).add((r["resSeq"], r["iCode"]))
        if last is not None and last != c:
            changes += 1
        last = c
    return len(rows), len(chains), max([len(v) for v in res.values()] or [0]), changes


# ------------------------------------------------------------------------------------------------- real code
def real(case):
    from rnapolis.parser_v2 import can_write_pdb, fit_to_pdb, parse_pdb_atoms, write_pdb
    out = {}
    with warnings.catch_warnings():
        warnings.simplefilter("ignore")
        try:
            df = build_frame(case)
        except Exception as e:  # noqa: BLE001
            if case["source"] == "file":
                return {"skip": exc_name(e)}
            raise
        fmt = df.attrs.get("format")
        out["fmt"] = fmt
        rows = g4.rows_of(df)
        out["n"] = len(rows)
        out["wire_ok"] = all(g4.wire_ok(r) for r in rows)
        out["rows"] = rows if len(rows) <= 3000 else None
        out["counts"] = counts(rows)
        try:
            out["canwrite"] = bool(can_write_pdb(df))
        except Exception as e:  # noqa: BLE001
            out["canwrite"] = "err %s" % exc_name(e)
        if case.get("refit"):
            # the table handed to fit_to_pdb is itself the RESULT of an earlier fit that was edited afterwards
            try:
                first = fit_to_pdb(df)
                ed = case["refit"]
                first = first.copy()
                fmt0 = df.attrs.get("format")
                col = {"chain": "chainID", "resSeq": "resSeq"}[ed["what"]] if "chainID" in first.columns else \
                    {"chain": "auth_asym_id", "resSeq": "auth_seq_id"}[ed["what"]]
                if ed["what"] == "chain":
                    first[col] = [str(c) + "2" for c in first[col]]
                else:
                    first[col] = [int(v) + 12000 for v in first[col]]
                if not first.attrs.get("format"):
                    first.attrs["format"] = fmt0
                df = first
                rows = g4.rows_of(df)
                out["n"] = len(rows)
                out["wire_ok"] = all(g4.wire_ok(r) for r in rows)
                out["rows"] = rows if len(rows) <= 3000 else None
                out["counts"] = counts(rows)
                out["fmt"] = df.attrs.get("format")
                try:
                    out["canwrite"] = bool(can_write_pdb(df))
                except Exception as e:  # noqa: BLE001
                    out["canwrite"] = "err %s" % exc_name(e)
            except Exception as e:  # noqa: BLE001
                return {"skip": "refit-setup:" + exc_name(e)}
        try:
            df2 = fit_to_pdb(df)
        except Exception as e:  # noqa: BLE001
            out["fit"] = ("err", exc_name(e), call_site(e), str(e)[:160])
            out["wire"] = [g4.wire(r) for r in rows] if out["wire_ok"] and case.get("model", True) else None
            return out
        rows2 = g4.rows_of(df2)
        out["fit"] = ("ok",)
        out["same_object"] = df2 is df
        out["rows2"] = rows2 if len(rows2) <= 3000 else None
        out["wire2"] = [g4.wire(r) for r in rows2] if all(g4.wire_ok(r) for r in rows2) else None
        out["wire"] = [g4.wire(r) for r in rows] if out["wire_ok"] else None
        # "a table that already fits is returned unchanged": whether it fits is read off the rows themselves
        # (the three limits the statement names), not only off can_write_pdb's own answer
        out["fits_by_rows"] = py_fits(rows)
        out["spec"] = py_spec(out["canwrite"] is True or out["fits_by_rows"], rows, rows2)
        if case.get("readback", True):
            try:
                text = write_pdb(df2)
                back = g4.rows_of(parse_pdb_atoms(text))
                d = g4.compare_rows(rows2, back)
                out["readback"] = None if d is None else "%s of row %d: %r -> %r" % (d[1], d[0], d[2], d[3])
                out["readback_field"] = None if d is None else d[1]
                out["pdb_lines"] = text.split("\n")[:-1] if len(rows2) <= 3000 else None
            except Exception as e:  # noqa: BLE001
                out["readback"] = "raises %s at %s: %s" % (exc_name(e), call_site(e), str(e)[:120])
                out["readback_field"] = "raises:" + exc_name(e)
        if not case.get("model", True):
            out["wire"] = None
    return out


# ------------------------------------------------------------------------------------------------- inputs
def build_cases(ctx):
    rng = ctx.rng
    cases = []
    for i in range(ctx.pick(30, 400)):
        rows = [r for r in g4.random_table(rng) if g4.within_limits(r)]
        if rows:
            cases.append({"source": "gen", "format": "mmCIF", "rows": rows, "emit_seed": rng.randrange(1 << 30), "family": "fits:cif"})
            if i % 3 == 0:
                cases.append({"source": "gen", "format": "PDB", "rows": rows, "family": "fits:pdb"})
    for i in range(ctx.pick(90, 1200)):
        kw = {"multichar_chains": rng.random() < 0.7, "big_numbers": rng.random() < 0.5}
        if not kw["multichar_chains"] and not kw["big_numbers"]:
            kw["serial0"] = rng.choice([99990, 100000, 123456])
        if i % 9 == 0:
            kw["nchains"] = rng.choice([30, 61, 62, 63, 64, 70])
            kw["max_res"] = 1
            kw["nmodels"] = 1
        rows = g4.random_table(rng, **kw)
        cases.append({"source": "gen", "format": "mmCIF", "rows": rows, "emit_seed": rng.randrange(1 << 30), "family": "rename:small"})
    # row selections of tables whose dropped rows overflow the limits (the selection itself fits)
    for i in range(ctx.pick(24, 300)):
        rows = [r for r in g4.random_table(rng) if g4.within_limits(r)]
        if not rows:
            continue
        extra = []
        for r in rng.sample(rows, min(len(rows), rng.randint(1, 3))):
            k = rng.randrange(3)
            if k == 0:
                extra.append(dict(r, chain=rng.choice(["A-2", "AA", "Bx"])))
            elif k == 1:
                extra.append(dict(r, resSeq=10000 + rng.randrange(500)))
            else:
                extra.append(dict(r, serial=100000 + rng.randrange(500)))
        cases.append({"source": "gen", "format": "mmCIF", "rows": rows + extra, "subset_head": len(rows),
                      "emit_seed": rng.randrange(1 << 30), "family": "selection-of-overflowing"})
    # the rows of a table that needs fitting in another order (index labels kept): atoms must keep THAT order
    for i in range(ctx.pick(30, 400)):
        kw = {"multichar_chains": True, "big_numbers": rng.random() < 0.5}
        rows = g4.random_table(rng, **kw)
        if len(rows) >= 2:
            cases.append({"source": "gen", "format": "mmCIF", "rows": rows, "emit_seed": rng.randrange(1 << 30),
                          "permute_seed": rng.randrange(1 << 30), "family": "rename:rows-permuted"})
    # PDB-derived tables edited afterwards so that they no longer fit
    for i in range(ctx.pick(30, 400)):
        rows = [r for r in g4.random_table(rng) if g4.within_limits(r)]
        if not rows:
            continue
        k = rng.randrange(3)
        if k == 0:
            ed = {"what": "chain", "old": rng.choice(rows)["chain"], "value": rng.choice(["AA", "A-2", "Bx"])}
        elif k == 1:
            ed = {"what": "resSeq", "value": 10000}
        else:
            ed = {"what": "serial", "value": 100000}
        cases.append({"source": "gen", "format": "PDB", "rows": rows, "edit": ed, "family": "pdb-derived-edited"})
        if i % 3 == 0:
            cases.append({"source": "gen", "format": "PDB", "rows": rows, "edit": ed, "refit": {"what": rng.choice(["chain", "resSeq"])},
                          "family": "fitted-edited-refitted"})
    # hand-made minimal shapes
    base = {"record": "ATOM", "serial": 1, "name": "P", "altLoc": "", "resName": "G", "chain": "AA", "resSeq": 1, "iCode": "",
            "x": 1000, "y": -2000, "z": 3, "occ": 100, "b": 2050, "element": "P", "charge": "", "model": 1}
    hand = [[base], [base, dict(base, serial=2, iCode="A")], [dict(base, chain="A", serial=100000)],
            [dict(base, chain="A", resSeq=10000)], [base, dict(base, serial=2, chain="B"), dict(base, serial=3)],
            [dict(base, altLoc="A", occ=50), dict(base, serial=2, altLoc="B", occ=50)],
            [dict(base, charge="2+", name="MG", element="MG", resName="MG", record="HETATM")],
            [base, dict(base, serial=2, model=2)]]
    for rows in hand:
        cases.append({"source": "gen", "format": "mmCIF", "rows": rows, "emit_seed": None, "family": "hand"})
    files = g4.corpus_files("cif")
    for k, p in enumerate(files):
        cases.append({"source": "file", "file": p, "head": ctx.pick(250, 20000), "variant": ["chains", "serial", "numbers"][k % 3],
                      "family": "corpus:renamed"})
    reps = ctx.pick(1, 3)
    for kind in KINDS:
        for _ in range(reps):
            big = kind in ("many_atoms", "edge_atoms", "interleaved")
            for side in ((0, 1) if kind.startswith("edge_") else (None,)):
                if ctx.quick and kind == "edge_atoms" and side == 0:
                    continue    # fitting 10^5 rows takes the real code ~30 s: thorough only
                cases.append({"source": "overflow", "kind": kind, "seed": rng.randrange(1 << 30), "family": "overflow:" + kind,
                              "side": side, "readback": not (big and ctx.quick), "model": True, "quick": ctx.quick})
    return cases


# ------------------------------------------------------------------------------------------------- judging
def judge(ctx, res, cases, outs):
    D = ctx.driver
    reqs, idx = [], []
    for ci, (case, o) in enumerate(zip(cases, outs)):
        if o.get("wire") is None:
            continue
        fmt = o["fmt"]
        reqs.append(["fit.canwrite", fmt] + o["wire"]); idx.append((ci, "canwrite"))
        reqs.append(["fit.fit", fmt] + o["wire"]); idx.append((ci, "fit"))
        if o["fit"][0] == "ok" and o.get("wire2") is not None and o["n"] <= 1500:
            reqs.append(["fit.spec", fmt] + o["wire"] + o["wire2"]); idx.append((ci, "spec"))
    resp = D.ask(reqs)
    for (ci, what), r in zip(idx, resp):
        case, o = cases[ci], outs[ci]
        inp = dict(case)
        if what == "canwrite":
            if str(o["canwrite"]).lower() != r:
                res.fail("corr", "C10:corr:can_write_pdb", inp, "impl=%r model=%r" % (o["canwrite"], r))
        elif what == "fit":
            if o["fit"][0] == "ok":
                if r != "ok " + ";".join(o["wire2"] or []):
                    mine = r[3:].split(";") if r.startswith("ok ") else None
                    k = -1
                    if mine and o["wire2"]:
                        k = next((i for i, (a, b) in enumerate(zip(mine, o["wire2"])) if a != b), -1)
                    res.fail("corr", "C10:corr:fit_to_pdb:table", inp, "model=%s impl row %d: model=%r impl=%r" % (
                        r[:40], k, g4.unwire(mine[k]) if mine and k >= 0 else None, g4.unwire(o["wire2"][k]) if k >= 0 else None))
            else:
                if o["fit"][1] == "ValueError" and r != "err ValueError":
                    res.fail("corr", "C10:corr:fit_to_pdb:refusal", inp, "impl raises ValueError (%s), model=%s" % (o["fit"][3], r[:60]))
        elif what == "spec":
            py = "fail:other-fields" if o["spec"].startswith("fail:other-fields") else o["spec"]
            if r != py:
                res.fail("corr", "C10:corr:spec-evaluators", inp, "Lean specCheck=%s python=%s" % (r, o["spec"]))
    for case, o in zip(cases, outs):
        inp = dict(case)
        n, nch, nres, nchg = o["counts"]
        res.case((case["family"], case.get("seed"), case.get("file"), n, nch, nres, tuple(o.get("wire") or ())[:3]), nontrivial=n > 0)
        res.count("family:" + case["family"])
        res.count("rows", n)
        res.count("chains>62" if nch > 62 else "chains<=62")
        res.count("canwrite:%s" % o["canwrite"])
        if o["fit"][0] == "ok":
            res.count("outcome:identity" if o["canwrite"] is True else "outcome:renamed")
            if o["canwrite"] is True and not o["same_object"]:
                res.count("fits but a different object is returned")
            if o["spec"] != "ok":
                res.fail("spec", "C10:fit_to_pdb:result:%s" % o["spec"], inp,
                         "the table returned by fit_to_pdb violates the statement: %s (rows=%d chains=%d)" % (o["spec"], n, nch))
            if o.get("readback"):
                res.fail("spec", "C10:fit-write-read:%s" % o["readback_field"], inp,
                         "write_pdb + parse_pdb_atoms of the fitted table: %s" % o["readback"])
            # layout of the written records (C09's statement) — only where every TER serial (last serial + 1) fits too
            if o.get("pdb_lines") is not None and o.get("rows2") is not None and o["spec"] == "ok" and not o.get("readback") \
                    and all(r["serial"] is not None and r["serial"] <= 99998 for r in o["rows2"]):
                bad = c09.layout_failures(o["pdb_lines"], o["rows2"])
                for kind, ln in bad[:1]:
                    res.fail("spec", "C10:fit-write:layout:%s" % kind, inp, "record %r" % ln)
        else:
            _, exc, site, msg = o["fit"]
            res.count("outcome:%s" % exc)
            if exc != "ValueError":
                res.fail("spec", "C10:fit_to_pdb:raises:%s:%s" % (exc, site), inp,
                         "fit_to_pdb raises %s (%s) instead of returning a table or ValueError; rows=%d chains=%d residues/chain<=%d"
                         % (exc, msg, n, nch, nres))
            elif n + nchg + 1 <= 99999 and nch <= 62 and nres <= 9999:
                res.fail("spec", "C10:fit_to_pdb:refuses-fittable", inp,
                         "ValueError (%s) although a fit exists: rows=%d chain changes=%d chains=%d residues/chain<=%d" % (msg, n, nchg, nch, nres))


def run(ctx):
    import time
    res = Result("C10")
    res.rule = ("mmCIF- and PDB-derived frames: G4 tables within PDB limits (fit = identity); small tables that need renaming "
                "(multi-character chain ids, numbers > 9999, ids > 99999, insertion codes, altlocs, charges, 1-4 models, 1-70 "
                "chains); every *.cif of the repository's tests with chain ids / ids / numbers pushed over the limits; huge "
                "tables built column-wise (>= 99999 atoms, 61-70 chains, 9999-10500 residues in a chain, interleaved chains); "
                "non-trivial = at least one atom; distinct by family and content")
    t0 = time.time()
    cases = build_cases(ctx)
    outs = parallel_map(real, cases)
    res.notes.append("real code on %d tables %.1fs" % (len(cases), time.time() - t0))
    for c, o in zip(cases, outs):
        if "skip" in o:
            res.count("corpus file skipped (%s)" % o["skip"])
    cases, outs = [c for c, o in zip(cases, outs) if "skip" not in o], [o for o in outs if "skip" not in o]
    t0 = time.time()
    judge(ctx, res, cases, outs)
    res.notes.append("model + judge %.1fs" % (time.time() - t0))
    __import__("corr.c10_tools", fromlist=["run_tools"]).run_tools(ctx, res)   # unifier.main (wpOPS)
    # splitter.main, the other tool C10 names as an observation point (families of corr/c09.py that need fitting)
    c09.run_splitter(ctx, res, only_fit=True)
    for case, o in list(zip(cases, outs))[:2] + list(zip(cases, outs))[-2:]:
        res.sample({"family": case["family"], "rows": o["n"], "counts(rows,chains,max residues,chain changes)": o["counts"],
                    "outcome": o["fit"][:2], "canwrite": o["canwrite"]})
    return res


def signatures_of(ctx, case):
    res = Result("C10")
    o = real(case)
    if "skip" not in o:
        judge(ctx, res, [case], [o])
    return res, o


def shrink(ctx, failure):
    if failure["input"].get("source") == "unifier":
        return __import__("corr.c10_tools", fromlist=["shrink"]).shrink(ctx, failure)
    case = failure["input"]
    sig = failure["signature"]

    def sigs(c):
        return [f for f in signatures_of(ctx, c)[0].failures if f["signature"] == sig]

    if case.get("source") == "file":
        o = real(case)
        if "skip" in o or not o["wire_ok"] or o["rows"] is None:
            return failure
        rows = [dict(g4.plain(r), charge=c09.pdb_charge_text(r["charge"])) for r in o["rows"]]
        g = {"source": "gen", "format": "mmCIF", "rows": rows, "emit_seed": None, "family": "from:" + os.path.basename(case["file"])}
        if not sigs(g):
            return failure
        case = g
    if case.get("source") != "gen":
        return failure
    rows = ddmin(case["rows"], lambda rs: bool(sigs(dict(case, rows=rs))), max_steps=60)
    fs = sigs(dict(case, rows=rows))
    return fs[0] if fs else failure


def replay(ctx, data):
    if data["input"].get("source") == "unifier":
        return __import__("corr.c10_tools", fromlist=["replay"]).replay(ctx, data)
    case = data["input"]
    res, o = signatures_of(ctx, case)
    print("table: format=%s rows=%d (rows, chains, max residues per chain, chain changes)=%s" % (o.get("fmt"), o.get("n", 0), o.get("counts")))
    print("can_write_pdb:", o.get("canwrite"), " fit_to_pdb:", o.get("fit"))
    if o.get("wire") is not None and o.get("n", 0) <= 2000:
        print("model fit:", ctx.driver.ask1("fit.fit", o["fmt"], *o["wire"])[:300])
    for f in res.failures:
        print("%s %s: %s" % (f["kind"].upper(), f["signature"], f["detail"][:400]))
    if not res.failures:
        print("no failure on this input")

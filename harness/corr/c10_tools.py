"""C10 at the observation point `unifier.main` (and a model correspondence for it).

The REAL `unifier.main` is run in-process (patched sys.argv, temporary directories) on 2-3 small generated structures
per case: A/C/G/U residues with standard heavy atoms in shuffled order, some hydrogens, some alternative atom names
(O1P, C1*, ...), now and then a non-nucleotide residue, an unknown atom, a residue with one atom missing in one file,
different identifiers per file (multi-character chain ids and numbers > 9999 in mmCIF files, so that PDB output
needs fitting), mixed PDB / mmCIF inputs, `-f PDB`, `-f mmCIF` and `-f keep`.

`unifier.fit_to_pdb`, `unifier.write_pdb`, `unifier.write_cif` are wrapped by recording spies (the wrapped functions
still do the work), so the tables the tool hands to them are seen exactly.

SPEC (what C10 states, observed at this tool; signatures `C10:unifier:<what>`):
  * every `fit_to_pdb` call returns a table for which the C10 predicate holds relative to its argument
    (`c10.py_spec`: limits, same rows in the same order, one-to-one renaming) or raises ValueError;
    a result that holds the same atoms in another order is reported as `fit-reorders-rows`;
  * every table handed to `write_pdb` satisfies the limits (`pdb-derived-unfit-written` when it is a PDB-derived
    table that `fit_to_pdb` returned as it was; `limits` otherwise) and the written file reads back to that table;
  * on the written files (read back with parse_pdb_atoms / parse_cif_atoms): the same number of residues and of atoms
    per residue in all outputs; every kept atom has the coordinates of an input atom of the same file whose renamed
    name it carries; the atoms of one input residue are written together under one identifier; no hydrogens.
    Component order of the atoms is *observed* (counted), not demanded: C10 does not state it, and the tool sorts a
    residue lexicographically when every atom name of the file is a standard heavy atom of that residue type
    (pandas categorical sort; the model mirrors it, so the exact order is covered by the correspondence).
CORR (`C10:corr:unifier:<what>`): outcome (files / exit 1 / exception) and every table handed to a writer equal the
Lean model's (`uni.run`, Model/Unifier.lean).
"""
import contextlib
import io
import os
import sys
import tempfile
import warnings

from core import exc_name, parallel_map
from gen import g4

_COMP = {}


def components():
    """the component tables the tool itself loads (atom_id, alt_atom_id in file order)"""
    if not _COMP:
        import csv
        import rnapolis.unifier as u
        d = os.path.dirname(os.path.abspath(u.__file__))
        for c in "ACGU":
            with open(os.path.join(d, "component_%s.csv" % c), newline="") as f:
                _COMP[c] = [(r["atom_id"], r["alt_atom_id"]) for r in csv.DictReader(f)]
    return _COMP


def valid_names(c):
    return [a for a, _ in components()[c] if not a.startswith("H")]


def rename(c, n):
    m = {alt: a for a, alt in components()[c]}
    return m.get(n, n)


# ------------------------------------------------------------------------------------------------- generation
def gen_case(rng):
    comp = components()
    nres = rng.randint(1, 5)
    nfiles = rng.choice([2, 2, 3])
    names = [rng.choice("ACGU") for _ in range(nres)]
    # the heavy atoms every file has in residue i (standard names)
    base = []
    for c in names:
        v = valid_names(c)
        k = rng.randint(3, min(9, len(v)))
        base.append(rng.sample(v, k))
    alt_of = {c: {a: alt for a, alt in comp[c] if alt != a} for c in "ACGU"}
    hyd = {c: [a for a, _ in comp[c] if a.startswith("H")] + [alt for a, alt in comp[c] if a.startswith("H") and alt != a] for c in "ACGU"}
    missing = None
    if rng.random() < 0.35:
        missing = (rng.randrange(nfiles), rng.randrange(nres))
    files = []
    used_xyz = set()

    def xyz():
        while True:
            t = (rng.randint(-99999, 99999), rng.randint(-99999, 99999), rng.randint(-99999, 99999))
            if t not in used_xyz:
                used_xyz.add(t)
                return t
    same_ids = rng.random() < 0.25
    for fi in range(nfiles):
        fmt = rng.choice(["mmCIF", "mmCIF", "PDB"])
        if fmt == "mmCIF":
            chain = rng.choice(["AA", "B1", "chainX", "A", "Z9z"]) if not same_ids else "AA"
        else:
            chain = rng.choice("ABCXYZabc019") if not same_ids else "A"
        # numbers with one digit count per file: text order = numeric order (mmCIF frames are ordered by the text)
        lo = rng.choice([10, 10, 100, 1000, 10000, 20000] if fmt == "mmCIF" else [10, 100, 1000])
        if same_ids:
            lo = 10
        num = lo + (0 if same_ids else rng.randrange(0, 5))
        rows = []
        serial = rng.choice([1, 1, 50, 99990 if fmt == "mmCIF" else 1])
        pending = []
        for ri, c in enumerate(names):
            icode = ""
            if ri > 0:
                if not same_ids and rng.random() < 0.07:
                    icode = rng.choice("AB")      # same number as the previous residue, an insertion code
                else:
                    num += 1 if same_ids else rng.choice([1, 1, 2])
            atoms = list(base[ri])
            if missing == (fi, ri) and len(atoms) > 1:
                atoms.pop(rng.randrange(len(atoms)))
            atoms = [alt_of[c][a] if a in alt_of[c] and rng.random() < 0.3 else a for a in atoms]
            atoms += rng.sample(hyd[c], rng.randint(0, 3))
            if rng.random() < 0.15:
                atoms.append(rng.choice(["XX1", "O1", "CM2"]))
            rng.shuffle(atoms)
            pending.append((c, num, icode, atoms))
            if rng.random() < 0.15:
                # a non-nucleotide residue in between (dropped by the tool)
                num += 1
                pending.append((rng.choice(["PSU", "HOH", "DA", "MG"]), num, "", [rng.choice(["O", "MG", "N1", "C2"])]))
        for (rn, n, ic, atoms) in pending:
            for a in atoms:
                x, y, z = xyz()
                rows.append({"record": "ATOM", "serial": serial, "name": a, "altLoc": "", "resName": rn, "chain": chain, "resSeq": n,
                             "iCode": ic, "x": x, "y": y, "z": z, "occ": 100, "b": rng.randint(0, 9999),
                             "element": g4.element_of(a, rng), "charge": "", "model": 1})
                serial += 1
        files.append({"fmt": fmt, "rows": rows})
    return {"files": files, "out": rng.choice(["PDB", "PDB", "mmCIF", "keep"])}


# ------------------------------------------------------------------------------------------------- real run
def run_tool(case):
    """unifier.main on the case -> picklable record"""
    from rnapolis import unifier
    from rnapolis.parser_v2 import parse_cif_atoms, parse_pdb_atoms
    rec = {"fit": [], "written": [], "outcome": None, "outputs": [], "parsed": []}
    orig = (unifier.fit_to_pdb, unifier.write_pdb, unifier.write_cif)

    def spy_fit(df):
        rows = g4.rows_of(df)
        entry = {"fmt": df.attrs.get("format"), "in": rows}
        rec["fit"].append(entry)
        try:
            out = orig[0](df)
        except Exception as e:  # noqa: BLE001
            entry["err"] = exc_name(e)
            raise
        entry["out"] = g4.rows_of(out)
        entry["same"] = out is df
        return out

    def spy_wpdb(df, output=None):
        rec["written"].append({"kind": "pdb", "fmt": df.attrs.get("format"), "rows": g4.rows_of(df),
                               "fit_same": bool(rec["fit"]) and rec["fit"][-1].get("same", False)})
        return orig[1](df, output)

    def spy_wcif(df, output=None):
        rec["written"].append({"kind": "cif", "fmt": df.attrs.get("format"), "rows": g4.rows_of(df)})
        return orig[2](df, output)

    with tempfile.TemporaryDirectory() as d, warnings.catch_warnings():
        warnings.simplefilter("ignore")
        paths = []
        for i, f in enumerate(case["files"]):
            p = os.path.join(d, "f%d.%s" % (i, "pdb" if f["fmt"] == "PDB" else "cif"))
            with open(p, "w") as fh:
                fh.write(g4.emit_pdb(f["rows"]) if f["fmt"] == "PDB" else g4.emit_cif(f["rows"]))
            paths.append(p)
            with open(p) as fh:
                df = parse_pdb_atoms(fh) if f["fmt"] == "PDB" else parse_cif_atoms(fh)
            rec["parsed"].append(g4.rows_of(df))
        argv = sys.argv
        sys.argv = ["unifier", "-o", os.path.join(d, "out"), "-f", case["out"]] + paths
        unifier.fit_to_pdb, unifier.write_pdb, unifier.write_cif = spy_fit, spy_wpdb, spy_wcif
        buf = io.StringIO()
        try:
            with contextlib.redirect_stdout(buf), contextlib.redirect_stderr(buf):
                unifier.main()
            rec["outcome"] = "ok"
        except SystemExit as e:
            rec["outcome"] = "exit:%r" % (e.code,)
        except Exception as e:  # noqa: BLE001
            rec["outcome"] = "err:" + exc_name(e)
            rec["detail"] = str(e)[:200]
        finally:
            sys.argv = argv
            unifier.fit_to_pdb, unifier.write_pdb, unifier.write_cif = orig
        for i, f in enumerate(case["files"]):
            real_out = f["fmt"] if case["out"] == "keep" else case["out"]
            p = os.path.join(d, "out", "f%d.%s" % (i, "pdb" if real_out == "PDB" else "cif"))
            if os.path.exists(p) and os.path.getsize(p) > 0:
                text = open(p).read()
                try:
                    back = g4.rows_of(parse_pdb_atoms(text) if real_out == "PDB" else parse_cif_atoms(text))
                    rec["outputs"].append({"i": i, "kind": real_out, "rows": back,
                                           "lines": text.split("\n")[:-1] if real_out == "PDB" else None})
                except Exception as e:  # noqa: BLE001
                    rec["outputs"].append({"i": i, "kind": real_out, "rows": None, "err": exc_name(e)})
            else:
                rec["outputs"].append({"i": i, "kind": real_out, "rows": None})
    return rec


# ------------------------------------------------------------------------------------------------- judging
def residues_of(rows):
    """runs of rows with one (chain, number, insertion code)"""
    out = []
    for r in rows:
        k = (r["chain"], r["resSeq"], r["iCode"])
        if out and out[-1][0] == k:
            out[-1][1].append(r)
        else:
            out.append((k, [r]))
    return out


def slim(case):
    return {"source": "unifier", "out": case["out"],
            "files": [{"fmt": f["fmt"], "rows": [g4.plain(r) for r in f["rows"]]} for f in case["files"]]}


def judge_spec(res, case, rec):
    from corr.c10 import py_spec
    inp = slim(case)
    # --- every fit_to_pdb call
    for e in rec["fit"]:
        if "err" in e:
            if e["err"] != "ValueError":
                res.fail("spec", "C10:unifier:fit-raises:%s" % e["err"], inp, "fit_to_pdb inside unifier.main raised %s" % e["err"])
            continue
        fits = all(r["serial"] is not None and r["resSeq"] is not None and r["serial"] <= 99999 and len(r["chain"]) == 1
                   and r["resSeq"] <= 9999 for r in e["in"])
        s = py_spec(fits, e["in"], e["out"])
        if s != "ok":
            key = lambda r: (r["name"], r["x"], r["y"], r["z"])
            if len(e["in"]) == len(e["out"]) and sorted(map(key, e["in"])) == sorted(map(key, e["out"])) \
                    and list(map(key, e["in"])) != list(map(key, e["out"])):
                res.fail("spec", "C10:unifier:fit-reorders-rows", inp,
                         "fit_to_pdb called by unifier.main returns the atoms in another order: in=%r out=%r" % (
                             [r["name"] for r in e["in"]][:12], [r["name"] for r in e["out"]][:12]))
            elif e.get("same") and e["fmt"] == "PDB" and s == "fail:limits":
                pass        # reported below, at the writer, as `pdb-derived-unfit-written`
            else:
                res.fail("spec", "C10:unifier:fit:%s" % s, inp, "fit_to_pdb called by unifier.main: %s" % s)
    # --- every table handed to write_pdb satisfies the limits and the file reads back to it
    pdb_written = [w for w in rec["written"] if w["kind"] == "pdb"]
    pdb_outputs = [o for o in rec["outputs"] if o["kind"] == "PDB" and o["rows"] is not None]
    for w in pdb_written:
        bad = [r for r in w["rows"] if r["serial"] is None or r["resSeq"] is None or r["serial"] > 99999 or len(r["chain"]) != 1
               or r["resSeq"] > 9999]
        if bad:
            sig = "pdb-derived-unfit-written" if (w["fmt"] == "PDB" and w["fit_same"]) else "limits"
            res.fail("spec", "C10:unifier:%s" % sig, inp,
                     "the table handed to write_pdb (format %s, returned unchanged by fit_to_pdb: %s) violates the limits: "
                     "chain=%r number=%r serial=%r" % (w["fmt"], w["fit_same"], bad[0]["chain"], bad[0]["resSeq"], bad[0]["serial"]))
    if len(pdb_written) == len(pdb_outputs):
        for w, o in zip(pdb_written, pdb_outputs):
            ok_limits = all(r["serial"] is not None and 0 <= r["serial"] <= 99999 and len(r["chain"]) == 1
                            and -999 <= r["resSeq"] <= 9999 for r in w["rows"])
            if not ok_limits:
                continue
            d = g4.compare_rows(w["rows"], o["rows"])
            if d is not None:
                res.fail("spec", "C10:unifier:write-read:%s" % d[1], inp,
                         "file f%d read back differs from the table handed to write_pdb: %s of row %d: %r -> %r" % (
                             o["i"], d[1], d[0], d[2], d[3]))
    # --- the written files (not judged when a table that violates the limits was written: reported above, and the
    # columns of such a file are shifted)
    outs = [o for o in rec["outputs"] if o["rows"] is not None]
    if rec["outcome"] != "ok" or len(outs) != len(case["files"]) or any(f["signature"].endswith(("unfit-written", ":limits"))
                                                                        for f in res.failures if f["input"] is inp):
        return
    shapes = []
    for o in outs:
        f = case["files"][o["i"]]
        src = {(r["x"], r["y"], r["z"]): r for r in f["rows"]}
        # runs of output atoms that come from one input residue (the written identifiers may coincide for two positions
        # when the vote over the files picks the same identifier twice — a property of the tool, not of C10: counted)
        runs = []
        for a in o["rows"]:
            s = src.get((a["x"], a["y"], a["z"]))
            if s is None:
                res.fail("spec", "C10:unifier:coordinates", inp,
                         "f%d: output atom %s at %r has the coordinates of no input atom" % (o["i"], a["name"], (a["x"], a["y"], a["z"])))
                return
            k = (s["chain"], s["resSeq"], s["iCode"])
            if runs and runs[-1][0] == k:
                runs[-1][1].append((a, s))
            else:
                runs.append((k, [(a, s)]))
        if len({k for k, _ in runs}) != len(runs):
            res.fail("spec", "C10:unifier:residue-split", inp, "f%d: the atoms of one input residue are not written together" % o["i"])
            return
        shapes.append([len(g) for _, g in runs])
        idents = []
        for _, g in runs:
            order = []
            ids = {(a["chain"], a["resSeq"], a["iCode"]) for a, _ in g}
            if len(ids) != 1:
                res.fail("spec", "C10:unifier:residue-identifiers", inp,
                         "f%d: the atoms of one input residue are written under %d identifiers %r" % (o["i"], len(ids), sorted(ids)))
                return
            idents.append(next(iter(ids)))
            for a, s in g:
                c = s["resName"]
                if c not in "ACGU" or len(c) != 1:
                    res.fail("spec", "C10:unifier:kept-non-nucleotide", inp, "f%d: atom of residue %s kept" % (o["i"], c))
                    return
                if a["name"] != rename(c, s["name"]):
                    res.fail("spec", "C10:unifier:name", inp,
                             "f%d: input atom %s of %s is written as %s (component name: %s)" % (o["i"], s["name"], c, a["name"], rename(c, s["name"])))
                    return
                if a["name"].startswith("H") or a["name"] not in valid_names(c):
                    res.fail("spec", "C10:unifier:hydrogen-or-unknown-kept", inp, "f%d: atom %s of %s kept" % (o["i"], a["name"], c))
                    return
                order.append(valid_names(c).index(a["name"]))
            if order != sorted(order):
                # NOT demanded by C10 (the statement is about fitting).  It happens when every atom name of the whole file
                # is a standard heavy atom of this residue type: the categorical name column is then sorted by category
                # (lexicographic) position — mirrored by the model (`sortKeyOf`), logged here as an observation.
                res.count("unifier:observation:residue-not-in-component-order")
                if len(res.notes) < 12 and not any(n.startswith("observation (not C10)") for n in res.notes):
                    res.notes.append("observation (not C10): unifier wrote a residue in lexicographic instead of component order: "
                                     "f%d %r" % (o["i"], [a["name"] for a, _ in g]))
        if len(set(idents)) != len(idents):
            res.count("unifier:observation:two-positions-one-identifier")
    if any(s != shapes[0] for s in shapes):
        res.fail("spec", "C10:unifier:same-shape", inp, "atoms per residue differ between the outputs: %r" % (shapes,))


def model_request(case, rec):
    req = ["uni.run", case["out"]]
    for f, rows in zip(case["files"], rec["parsed"]):
        if not all(g4.wire_ok(r) for r in rows):
            return None
        req.append("@" + f["fmt"])
        for r in rows:
            req.append(g4.hx(str(r["resSeq"])) + ":" + g4.wire(r))
    return req


def judge_corr(res, case, rec, resp):
    inp = slim(case)
    if rec["outcome"].startswith("exit:"):
        want = "exit1" if rec["outcome"] == "exit:1" else rec["outcome"]
        if resp != want:
            res.fail("corr", "C10:corr:unifier:outcome", inp, "tool: %s, model: %s" % (rec["outcome"], resp[:80]))
        return
    if rec["outcome"].startswith("err:"):
        if resp != "crash " + rec["outcome"][4:]:
            res.fail("corr", "C10:corr:unifier:outcome", inp, "tool raises %s (%s), model: %s" % (rec["outcome"][4:], rec.get("detail"), resp[:80]))
        return
    if not resp.startswith("files "):
        res.fail("corr", "C10:corr:unifier:outcome", inp, "tool ran to the end, model: %s" % resp[:80])
        return
    parts = resp[6:].split("|") if resp[6:] else []
    written = list(rec["written"])
    for p in parts:
        head, _, body = p.partition("=")
        kind, _, rows = body.partition(":")
        if kind == "skipped":
            # the tool skipped the file as well iff nothing was recorded for it: checked through the counts below
            continue
        if not written:
            res.fail("corr", "C10:corr:unifier:files", inp, "model writes %s, the tool wrote fewer files" % head)
            return
        w = written.pop(0)
        mine = [g4.unwire(x) for x in rows.split(";")] if rows else []
        if w["kind"] != kind:
            res.fail("corr", "C10:corr:unifier:format", inp, "%s: tool wrote %s, model %s" % (head, w["kind"], kind))
            return
        theirs = [g4.plain(r) for r in w["rows"]]
        if mine != theirs:
            k = next((i for i, (a, b) in enumerate(zip(mine, theirs)) if a != b), -1)
            res.fail("corr", "C10:corr:unifier:table", inp,
                     "%s: table handed to write_%s differs at row %d: model=%r tool=%r (rows: model %d, tool %d)" % (
                         head, kind, k, mine[k] if k >= 0 else None, theirs[k] if k >= 0 else None, len(mine), len(theirs)))
            return
    if written:
        res.fail("corr", "C10:corr:unifier:files", inp, "the tool wrote %d more file(s) than the model" % len(written))


def run_tools(ctx, res):
    """called from c10.run: unifier.main on generated cases"""
    import time
    t0 = time.time()
    rng = ctx.rng
    cases = [gen_case(rng) for _ in range(ctx.pick(70, 900))]
    recs = parallel_map(run_tool, cases)
    reqs, idx = [], []
    for i, (case, rec) in enumerate(zip(cases, recs)):
        q = model_request(case, rec)
        if q is not None:
            reqs.append(q)
            idx.append(i)
    resp = ctx.driver.ask(reqs)
    for i, r in zip(idx, resp):
        judge_corr(res, cases[i], recs[i], r)
    for case, rec in zip(cases, recs):
        fmts = "+".join(f["fmt"] for f in case["files"])
        res.case(("unifier", fmts, case["out"], tuple(tuple((r["name"], r["x"]) for r in f["rows"][:4]) for f in case["files"])),
                 nontrivial=True)
        res.count("unifier:%s->%s" % (fmts, case["out"]))
        res.count("unifier:outcome:%s" % rec["outcome"])
        res.count("unifier:fit-calls", len(rec["fit"]))
        res.count("unifier:fit-renamed", sum(1 for e in rec["fit"] if "out" in e and not e["same"]))
        judge_spec(res, case, rec)
    res.notes.append("unifier.main on %d cases %.1fs" % (len(cases), time.time() - t0))


# ------------------------------------------------------------------------------------------------- replay / shrink
def signatures_of(ctx, case):
    from core import Result
    res = Result("C10")
    rec = run_tool(case)
    q = model_request(case, rec)
    if q is not None:
        judge_corr(res, case, rec, ctx.driver.ask([q])[0])
    judge_spec(res, case, rec)
    return res, rec


def shrink(ctx, failure):
    """fewer files, then fewer rows per file, while the same signature is reported"""
    from core import ddmin
    case = {"files": [dict(f) for f in failure["input"]["files"]], "out": failure["input"]["out"]}
    sig = failure["signature"]

    def hit(c):
        if not c["files"] or any(not f["rows"] for f in c["files"]):
            return []
        try:
            return [f for f in signatures_of(ctx, c)[0].failures if f["signature"] == sig]
        except Exception:  # noqa: BLE001
            return []
    while len(case["files"]) > 1:
        for k in range(len(case["files"])):
            c = dict(case, files=case["files"][:k] + case["files"][k + 1:])
            if hit(c):
                case = c
                break
        else:
            break
    for k in range(len(case["files"])):
        def with_rows(rs, k=k):
            fs = list(case["files"])
            fs[k] = dict(fs[k], rows=rs)
            return dict(case, files=fs)
        rows = ddmin(case["files"][k]["rows"], lambda rs: bool(hit(with_rows(rs))), max_steps=40)
        case = with_rows(rows)
    fs = hit(case)
    return fs[0] if fs else failure


def replay(ctx, data):
    inp = data["input"]
    case = {"files": inp["files"], "out": inp["out"]}
    res, rec = signatures_of(ctx, case)
    print("unifier.main -f %s on %s: %s" % (case["out"], [f["fmt"] for f in case["files"]], rec["outcome"]))
    for e in rec["fit"]:
        print("  fit_to_pdb(%s, %d rows): %s" % (e["fmt"], len(e["in"]), e.get("err") or ("returned unchanged" if e.get("same") else "renamed")))
    for w in rec["written"]:
        print("  write_%s: %s" % (w["kind"], [(r["name"], r["chain"], r["resSeq"], r["serial"]) for r in w["rows"]][:12]))
    for f in res.failures:
        print("%s %s: %s" % (f["kind"].upper(), f["signature"], f["detail"][:400]))
    if not res.failures:
        print("no failure on this input")

"""C11 — interaction lists are well-formed and self-consistent.

On the REAL output of `extract_base_interactions` for every structure and model number the Lean
specification predicates are evaluated:
  * `Pairs.specWF` on base pairs and on stackings: no repeat, no self interaction, lower residue
    (chain, number, insertion code) first, sorted;
  * `Pairs.specSaenger`: Saenger class present exactly when the regenerated table defines one for
    (one-letter names, LW class), and equal to it; `ann.saenger1`: same answer for a pair and its reverse;
  * `Pairs.specBph` for base-phosphate and base-ribose lists: never a residue with itself, at least one
    base donor atom -> phosphate/ribose oxygen contact within 4.0 A (exact arithmetic, 1e-6 band), class
    implied by the classes of the donor atoms in contact (one of them, or 4 from 3+5, or 8 from 7+9), at
    most one class per ordered residue pair;
  * every participant is a residue of the analysed model (also on hand-built multi-model structures,
    where the annotation of model k must equal the annotation of model k alone).
Functional: `mergeClean` vs `merge_and_clean_bph_br`, `bphClasses` vs `detect_bph_br_classification`,
`saenger` vs `detect_saenger`; `write_csv` / `write_json` rows vs the lists.
"""
import csv
import json
import math
import os
import tempfile

import numpy

from core import Result, call
from corr.c03 import dump_residues, index_map, load_residues, parse_verdict
from gen import g3pairs as G
from corr import cli_annotator


def rkey(res):
    """(chain, number, icode or ' ') of a common.Residue — the key of Residue.__lt__"""
    return (res.chain or "", res.number if res.number is not None else 0, res.icode or " ")


def row_arg(k1, k2, b1, b2, cls, sae):
    return ":".join([G.hx(k1[0]), str(k1[1]), G.hx(k1[2]), G.hx(k2[0]), str(k2[1]), G.hx(k2[2]),
                     G.hx(b1), G.hx(b2), cls, sae if sae is not None else "~"])


def annotate(residues, model):
    """BaseInteractions from the real code; when the stacking stage raises (another property's business)
    the pair stage is still observed"""
    from rnapolis.annotator import extract_base_interactions, find_pairs, find_stackings
    from rnapolis.common import BaseInteractions
    s = G.structure(residues)
    st, val = call(extract_base_interactions, s, model)
    note = None
    if st != "ok":
        note = val
        st2, fp = call(find_pairs, s, model)
        if st2 != "ok":
            return None, "find_pairs:" + fp
        st3, sk = call(find_stackings, s, model)
        val = BaseInteractions(fp[0], sk if st3 == "ok" else [], fp[2], fp[1], [])
        note = "find_stackings:" + (sk if st3 != "ok" else val and "?")
    return val, note


def build_inputs(ctx, res):
    rng = ctx.rng
    inputs = []
    files = G.QUICK_FILES if ctx.quick else G.THOROUGH_FILES + G.BIG_FILES[:3]
    templates = []
    contact_templates = []
    for name in files:
        try:
            models = G.models_of(name)
        except Exception as e:  # noqa: BLE001
            res.notes.append("cannot read %s: %s" % (name, type(e).__name__))
            continue
        small = name in G.SMALL_FILES
        per_model = []
        for m in models[: (3 if ctx.quick else 8)]:
            s = G.load(name, m)
            rs = s.residues
            if not G.finite(rs):
                continue
            per_model.append((m, rs))
            inputs.append(("corpus:%s#%d" % (name, m), rs, m))
            if m == models[0] and len(models) > 1:
                # the reader asked for a model the file does not have (it falls back to the first one); the result is
                # annotated without a model argument, as the tools do
                try:
                    inputs.append(("reader-absent-model:%s" % name, G.load(name, max(models) + 1).residues, None))
                except Exception:  # noqa: BLE001
                    pass
            if m == models[0]:
                inputs.append(("corpus-nomodel:%s" % name, rs, None))
                try:
                    from rnapolis.annotator import find_pairs
                    fp = find_pairs(s, m)
                    templates += G.template_pairs(s, fp[0])[:30]
                    contact_templates += G.template_pairs(s, (fp[1] + fp[2]))[:30]
                except Exception:  # noqa: BLE001
                    pass
                # one residue listed in two places (backbone records, the following residue, then the base records):
                # two entries share every identifier, and no contact may join them
                from gen import g3
                for _ in range(2):
                    try:
                        sp = g3.split_residue(g3.window(g3.mk_structure(list(rs)), rng, 30), rng, base_together=True)
                    except Exception:  # noqa: BLE001
                        sp = None
                    if sp is not None:
                        inputs.append(("split-residue:%s" % name, list(sp.residues), m))
                R = G.random_rotation(rng)
                inputs.append(("rigid:%s" % name, G.moved(rs, R, [rng.uniform(-300, 300) for _ in range(3)]), m))
                if small or not ctx.quick:
                    for sigma in (0.05, 0.2):
                        inputs.append(("jitter%g:%s" % (sigma, name), G.jittered(rng, G.nucleotides(rs), sigma), m))
                    inputs.append(("thin:%s" % name, G.thinned(rng, rs), m))
        # hand-built multi-model structures: model k thinned differently, later models moved away
        if per_model:
            parts = []
            for q, (m, rs) in enumerate(per_model[:2]):
                sub = G.thinned(rng, rs, p_res=0.2, p_atom=0.0)
                if q == 1:
                    sub = G.moved(sub, G.random_rotation(rng), [3.0, -2.0, 1.0])
                parts.append((m, sub))
            if len(parts) == 1 and (small or not ctx.quick):
                # single-model file: fabricate a second model from a moved, differently thinned copy
                m, rs = per_model[0]
                sub = [G.rebuild(r, model=m + 1) for r in G.moved(G.thinned(rng, rs, 0.3, 0.0), G.random_rotation(rng), [2.0, 1.0, -3.0])]
                parts.append((m + 1, sub))
            if len(parts) == 2:
                inputs.append(("multimodel:%s" % name, parts, "multi"))
                if small:
                    # the same two models written to a file and read back with a model number the file does not have
                    # (the reader falls back to the first model); annotated without a model argument, as the tools do
                    from gen import g3
                    from rnapolis.parser import read_3d_structure
                    fd, tmp = tempfile.mkstemp(suffix=".cif")
                    os.close(fd)
                    try:
                        g3.write_cif(g3.mk_structure([r for _, part in parts for r in part]), tmp)
                        with open(tmp) as f:
                            got = read_3d_structure(f, max(q for q, _ in parts) + 5)
                        inputs.append(("reader-absent-model:%s" % name, list(got.residues), None))
                    except Exception:  # noqa: BLE001
                        res.count("reader-absent-model:not-built")
                    finally:
                        os.unlink(tmp)
    for tag, rs in G.placements(rng, templates, ctx.pick(200, 10000)):
        inputs.append(("place:" + tag.split(":")[0].rstrip("+-.0123456789e"), rs, None))
    # base donor ... phosphate / ribose oxygen contacts of the corpus with the oxygen moved to 4.0 A +- delta from the
    # nearest donor atom (the acceptor residue is cut down to that oxygen and its phosphorus, so the contact stands or
    # falls with this one distance); half of them a few hundred Angstroms from the origin
    for tag, rs in contact_placements(rng, contact_templates, ctx.pick(240, 4000)):
        inputs.append((tag, rs, None))
    return inputs


def contact_placements(rng, templates, n):
    from rnapolis.tertiary import BASE_DONORS, PHOSPHATE_ACCEPTORS, RIBOSE_ACCEPTORS
    out = []
    if not templates:
        return out
    guard = 0
    while len(out) < n and guard < 20 * n:
        guard += 1
        ri, rj = templates[rng.randrange(len(templates))]
        donors = [a for a in ri.atoms if a.name in BASE_DONORS.get(ri.one_letter_name, [])]
        oxygens = [b for b in rj.atoms if b.name in PHOSPHATE_ACCEPTORS + RIBOSE_ACCEPTORS]
        near = sorted(((float(numpy.linalg.norm(a.coordinates - b.coordinates)), a.name, b.name, a, b) for a in donors for b in oxygens),
                      key=lambda t: t[:3])
        near = [t for t in near if t[0] < 4.6]
        if not near:
            continue
        _, _, _, a, b = near[0] if rng.random() < 0.7 else rng.choice(near)
        delta = rng.choice([2e-5, 1e-4, 1e-3, 1e-2]) * rng.choice([-1, 1])
        keep = {b.name, "P"}
        r2 = G.place_distance(ri, G.rebuild(rj, keep=lambda x: x.name in keep), a, b, 4.0 + delta)
        if r2 is None:
            continue
        rs = [ri, r2] if rng.random() < 0.5 else [r2, ri]
        fam = "place-contact"
        if rng.random() < 0.5:
            t = [rng.choice([-1, 1]) * rng.uniform(150, 900) for _ in range(3)]
            rs = G.moved(rs, G.AXIS_PERMS[0], t)
            fam += "@far"
        out.append((fam, rs))
    return out


def merged_by_identity(residues):
    """entries with equal (label, auth, model) are one residue: their atoms are joined at the first entry's place"""
    from rnapolis.tertiary import Residue3D
    first = {}
    out = []
    for r in residues:
        k = (r.label, r.auth, r.model)
        if k in first:
            q = out[first[k]]
            out[first[k]] = Residue3D(q.label, q.auth, q.model, q.one_letter_name, tuple(q.atoms) + tuple(r.atoms))
        else:
            first[k] = len(out)
            out.append(r)
    return out


def rows_of(bi, residues, model):
    """protocol rows for base pairs and stackings + BPh/BR index triples + participants not in the model"""
    idx = index_map(residues, model)
    missing = []

    def base(r):
        i = idx.get((r.label, r.auth))
        if i is None:
            missing.append(r.full_name)
            return "?"
        return residues[i].one_letter_name

    bp_rows = [row_arg(rkey(p.nt1), rkey(p.nt2), base(p.nt1), base(p.nt2), p.lw.value,
                       p.saenger.value if p.saenger is not None else None) for p in bi.basePairs]
    st_rows = [row_arg(rkey(p.nt1), rkey(p.nt2), base(p.nt1), base(p.nt2),
                       p.topology.value if p.topology is not None else "none", None) for p in bi.stackings]

    def triples(items, attr):
        out = []
        for p in items:
            d = idx.get((p.nt1.label, p.nt1.auth))
            a = idx.get((p.nt2.label, p.nt2.auth))
            if d is None or a is None:
                missing.append("%s>%s" % (p.nt1.full_name, p.nt2.full_name))
                continue
            v = getattr(p, attr)
            out.append((d, a, int(v.name[1:]) if v is not None else 99))
        return out

    return bp_rows, st_rows, triples(bi.basePhosphateInteractions, "bph"), triples(bi.baseRiboseInteractions, "br"), missing


def expected_csv(bi):
    rows = [["nt1", "nt2", "type", "classification-1", "classification-2"]]
    for p in bi.basePairs:
        rows.append([p.nt1.full_name, p.nt2.full_name, "base pair", p.lw.value, p.saenger.value if p.saenger is not None else ""])
    for p in bi.stackings:
        rows.append([p.nt1.full_name, p.nt2.full_name, "stacking", p.topology.value if p.topology is not None else "", ""])
    for p in bi.basePhosphateInteractions:
        rows.append([p.nt1.full_name, p.nt2.full_name, "base-phosphate interaction", p.bph.value if p.bph is not None else "", ""])
    for p in bi.baseRiboseInteractions:
        rows.append([p.nt1.full_name, p.nt2.full_name, "base-ribose interaction", p.br.value if p.br is not None else "", ""])
    for p in bi.otherInteractions:
        rows.append([p.nt1.full_name, p.nt2.full_name, "other interaction", "", ""])
    return rows


def jres(r):
    return {"label": None if r.label is None else {"chain": r.label.chain, "number": r.label.number, "name": r.label.name},
            "auth": None if r.auth is None else {"chain": r.auth.chain, "number": r.auth.number, "icode": r.auth.icode, "name": r.auth.name}}


def expected_json(bi):
    return {
        "basePairs": [{"nt1": jres(p.nt1), "nt2": jres(p.nt2), "lw": p.lw.value,
                       "saenger": p.saenger.value if p.saenger is not None else None} for p in bi.basePairs],
        "stackings": [{"nt1": jres(p.nt1), "nt2": jres(p.nt2),
                       "topology": p.topology.value if p.topology is not None else None} for p in bi.stackings],
        "baseRiboseInteractions": [{"nt1": jres(p.nt1), "nt2": jres(p.nt2), "br": p.br.value if p.br is not None else None}
                                   for p in bi.baseRiboseInteractions],
        "basePhosphateInteractions": [{"nt1": jres(p.nt1), "nt2": jres(p.nt2), "bph": p.bph.value if p.bph is not None else None}
                                      for p in bi.basePhosphateInteractions],
        "otherInteractions": [{"nt1": jres(p.nt1), "nt2": jres(p.nt2)} for p in bi.otherInteractions],
    }


def check_writers(res, tag, bi, inp):
    from rnapolis.annotator import write_csv, write_json
    from rnapolis.common import Structure2D
    s2 = Structure2D(bi, "", "", "", [], [], [], [], [])
    d = tempfile.mkdtemp(prefix="c11-")
    try:
        pc, pj = os.path.join(d, "a.csv"), os.path.join(d, "a.json")
        st, v = call(write_csv, pc, s2)
        if st != "ok":
            res.fail("spec", "C11:write_csv:raises:" + v, inp(), "write_csv raised " + v)
        else:
            with open(pc, newline="") as f:
                got = [r for r in csv.reader(f)]
            if got != expected_csv(bi):
                diff = next((k for k, (a, b) in enumerate(zip(got, expected_csv(bi))) if a != b), min(len(got), len(expected_csv(bi))))
                res.fail("spec", "C11:write_csv:rows", inp(), "row %d: file=%r lists=%r" % (
                    diff, got[diff] if diff < len(got) else None, expected_csv(bi)[diff] if diff < len(expected_csv(bi)) else None))
        st, v = call(write_json, pj, s2)
        if st != "ok":
            res.fail("spec", "C11:write_json:raises:" + v, inp(), "write_json raised " + v)
        else:
            with open(pj) as f:
                got = json.load(f)
            if got.get("baseInteractions") != expected_json(bi):
                res.fail("spec", "C11:write_json:rows", inp(), "baseInteractions in the JSON file differ from the lists")
        res.count("writer-comparisons")
    finally:
        for n in os.listdir(d):
            os.unlink(os.path.join(d, n))
        os.rmdir(d)


def signature_of(fail):
    return "C11:" + fail.split(" ")[0]


def run(ctx):
    res = Result("C11")
    res.rule = ("inputs: corpus files (every model, with/without the model argument), rigid motions, jitter, thinning, hand-built "
                "two-model structures (models thinned differently), synthetic placements around the thresholds; random class "
                "lists for merge_and_clean_bph_br; random and threshold-straddling donor/acceptor geometry for every (base, atom) "
                "for detect_bph_br_classification; all (letter, letter, LW) triples for detect_saenger; non-trivial = the "
                "annotation has at least one interaction; distinct by (family, interaction lists)")
    rng = ctx.rng
    D = ctx.driver
    inputs = build_inputs(ctx, res)
    reqs, where = [], []
    for k, (tag, rs, m) in enumerate(inputs):
        fam = tag.split(":")[0]
        res.count("family:" + fam)
        if m == "multi":
            # rs = [(model, residues), (model, residues)]
            allres = [r for _, part in rs for r in part]
            for mk, part in rs:
                inp = lambda: {"family": tag, "model": mk, "multi": [[q, dump_residues(p)] for q, p in rs]}  # noqa: E731,B023
                a, na = annotate(allres, mk)
                b, nb = annotate(part, mk)
                res.case((tag, mk, repr(a)[:200]), nontrivial=bool(a and (a.basePairs or a.stackings)))
                if a is None or b is None:
                    res.count("multimodel-raise")
                    continue
                res.count("multimodel-comparisons")
                if a != b:
                    res.fail("spec", "C11:multimodel:annotation-depends-on-other-models", inp(),
                             "annotation of model %d inside a %d-model structure differs from the annotation of that model alone" % (mk, len(rs)))
                _, _, _, _, missing = rows_of(a, part, mk)
                if missing:
                    res.fail("spec", "C11:participant-not-in-model", inp(), "participants outside model %d: %s" % (mk, missing[:5]))
            continue
        inp = lambda: {"family": tag, "model": m, "residues": dump_residues(rs)}  # noqa: E731,B023
        bi, note = annotate(rs, m)
        if note:
            res.count("raise:" + str(note).split(":")[0] + ":" + str(note).split(":")[-1])
        if bi is None:
            # find_pairs itself raised: reported by C03; nothing to check here
            continue
        shown = merged_by_identity([r for r in rs if m is None or r.model == m])
        bp_rows, st_rows, bph, br, missing = rows_of(bi, shown, m)
        n_int = len(bi.basePairs) + len(bi.stackings) + len(bi.basePhosphateInteractions) + len(bi.baseRiboseInteractions)
        res.case((fam, repr(bi)[:400]), nontrivial=n_int > 0)
        res.count("base-pairs", len(bi.basePairs)); res.count("stackings", len(bi.stackings))
        res.count("base-phosphate", len(bi.basePhosphateInteractions)); res.count("base-ribose", len(bi.baseRiboseInteractions))
        if missing:
            res.fail("spec", "C11:participant-not-in-model", inp(), "participants that are not residues of the analysed model: %s" % missing[:5])
        for lst, name in ((bi.basePhosphateInteractions, "bph"), (bi.baseRiboseInteractions, "br")):
            if len(set(lst)) != len(lst):
                res.fail("spec", "C11:%s-repeat" % name, inp(), "an interaction is listed twice")
        enc = G.encode(shown)
        reqs.append(["ann.wf", ",".join(bp_rows) or "-"]); where.append((k, "wf-pairs"))
        reqs.append(["ann.saenger", ",".join(bp_rows) or "-"]); where.append((k, "saenger"))
        reqs.append(["ann.wf", ",".join(st_rows) or "-"]); where.append((k, "wf-stackings"))
        reqs.append(["ann.bph", enc, "bph", ",".join("%d-%d-%d" % t for t in bph) or "-"]); where.append((k, "bph"))
        reqs.append(["ann.bph", enc, "br", ",".join("%d-%d-%d" % t for t in br) or "-"]); where.append((k, "br"))
        if fam.startswith("corpus") or fam in ("thin", "place") and rng.random() < 0.2:
            check_writers(res, tag, bi, inp)
    resp = G.ask_parallel(D, reqs)
    for (k, what), r in zip(where, resp):
        tag, rs, m = inputs[k]
        inp = lambda: {"family": tag, "model": m, "residues": dump_residues(rs)}  # noqa: E731,B023
        if what in ("wf-pairs", "wf-stackings", "saenger"):
            if r == "ok":
                continue
            if not r.startswith("fail;"):
                res.fail("corr", "C11:driver", inp(), "driver answered %r" % r[:200])
                continue
            for f in r.split(";")[1:]:
                res.fail("spec", "C11:%s:%s" % (what, f.split(" ")[0]), inp(), f)
        else:
            head, fails, und, notes = parse_verdict(r)
            res.undecided += und
            res.count("%s-contacts(exact)" % what, int(notes.get("contacts", "0")))
            if head not in ("ok", "fail"):
                res.fail("corr", "C11:driver", inp(), "driver answered %r" % r[:200])
            for f in fails:
                res.fail("spec", signature_of(f), inp(), f)

    functional_merge(ctx, res)
    functional_bphclass(ctx, res)
    functional_saenger(ctx, res)
    for (tag, rs, m) in inputs[:3] + inputs[-2:]:
        res.sample({"family": tag, "model": m if m != "multi" else "two models", "residues": len(rs)})
    __import__("corr.fn_common", fromlist=["run_fn"]).run_fn(ctx, res, "C11")  # regenerated functions vs the real ones (tools/py2lean.py)
    # the command-line tool as an observation point: what annotator.main writes for a file and a set of options is what
    # the library computes for that file (harness/corr/cli_annotator.py)
    cli_annotator.judge(res, "C11", cli_annotator.evaluate(ctx))
    return res


# ------------------------------------------------------------------------------------------------
# functional correspondences

def functional_merge(ctx, res):
    from rnapolis.annotator import merge_and_clean_bph_br
    rng = ctx.rng
    cases = []
    for _ in range(ctx.pick(600, 6000)):
        nkeys = rng.randint(1, 4)
        n = rng.randint(0, 9)
        pool = rng.choice([[3, 5, 4], [7, 9, 8], [3, 5, 7, 9], list(range(10))])
        rows = sorted((rng.randrange(nkeys), rng.choice(pool)) for _ in range(n)) if rng.random() < 0.7 else \
            [(rng.randrange(nkeys), rng.choice(pool)) for _ in range(n)]
        cases.append(rows)
    reqs = [["ann.merge", ",".join("%d:%d" % r for r in rows) or "-"] for rows in cases]
    resp = ctx.driver.ask(reqs)
    implied = []
    for rows, r in zip(cases, resp):
        st, val = call(merge_and_clean_bph_br, [("k%d" % k, "k%d" % k, c) for k, c in rows])
        res.case(("merge", tuple(rows)), nontrivial=len(rows) > 1)
        res.count("family:merge")
        if st != "ok":
            res.fail("spec", "C11:merge:raises:" + val, {"rows": rows}, "merge_and_clean_bph_br raised")
            continue
        impl = ";".join("%s:%s" % (key[0][1:], ",".join(str(c) for c in cs)) for key, cs in val.items())
        if impl != r:
            res.fail("corr", "C11:merge", {"rows": rows}, "impl=%r model=%r" % (impl, r))
        for key, cs in val.items():
            if len(cs) > 1:
                res.fail("spec", "C11:merge:two-classes", {"rows": rows}, "a residue pair keeps %r" % list(cs))
            given = sorted({c for k, c in rows if "k%d" % k == key[0]})
            for c in cs:
                implied.append((rows, given, c))
    resp = ctx.driver.ask([["ann.implied", ",".join(map(str, given)) or "-", str(c)] for _, given, c in implied])
    for (rows, given, c), r in zip(implied, resp):
        if r != "true":
            res.fail("spec", "C11:merge:class-not-implied", {"rows": rows},
                     "merge_and_clean_bph_br gives class %d to a residue pair whose contacts have classes %r" % (c, given))


def functional_bphclass(ctx, res):
    import rnapolis.common as C
    import rnapolis.tertiary as T
    from rnapolis.annotator import detect_bph_br_classification
    from rnapolis.tertiary import torsion_angle
    rng = ctx.rng
    names_all = sorted({n for v in T.BASE_ATOMS.values() for n in v} | {n for v in T.BASE_DONORS.values() for n in v})
    cases = []
    for _ in range(ctx.pick(800, 8000)):
        base = rng.choice(list(T.BASE_ATOMS) + ["N", "a"])
        names = list(T.BASE_ATOMS.get(base, T.BASE_ATOMS["A"]))
        if rng.random() < 0.3:
            names = [n for n in names if rng.random() > 0.25]
        donor = rng.choice(names_all if rng.random() < 0.3 else (T.BASE_DONORS.get(base) or names_all))
        if donor not in names:
            names.append(donor)
        pos = {n: [round(rng.uniform(-3, 3), 3) for _ in range(3)] for n in names}
        acc = [round(rng.uniform(-4, 4), 3) for _ in range(3)]
        lab = C.ResidueLabel("A", 1, base)
        auth = C.ResidueAuth("A", 1, None, base)
        atoms = tuple(T.Atom(None, lab, auth, 1, n, *map(float, p), None) for n, p in pos.items())
        r = T.Residue3D(lab, auth, 1, base, atoms)
        # sometimes put the acceptor right at the +-90 degree torsion boundary of a torsion-dependent entry
        if rng.random() < 0.35:
            refs = {("A", "N6"): ("N1", "C6"), ("G", "N2"): ("N3", "C2"), ("C", "N4"): ("N3", "C4")}.get((base, donor))
            if refs and all(x in pos for x in refs):
                p1, p2, p3 = (numpy.array(pos[x], dtype=float) for x in (refs[0], refs[1], donor))
                axis = p3 - p2
                if numpy.linalg.norm(axis) > 1e-3 and numpy.linalg.norm(numpy.cross(p2 - p1, axis)) > 1e-3:
                    ref = numpy.cross(numpy.cross(p2 - p1, axis), axis)
                    ref = -ref / numpy.linalg.norm(ref)  # direction of torsion 0
                    ang = math.radians(rng.choice([90.0, -90.0]) + rng.choice([-1, 1]) * rng.choice([1e-3, 1e-2, 0.1, 0.0]))
                    u = axis / numpy.linalg.norm(axis)
                    v = math.cos(ang) * ref + math.sin(ang) * numpy.cross(u, ref)
                    acc = [float(x) for x in (p3 + 2.8 * v + 0.7 * u)]
        a = T.Atom(None, None, None, 1, "OP1", float(acc[0]), float(acc[1]), float(acc[2]), None)
        d = r.find_atom(donor)
        st, val = call(detect_bph_br_classification, r, d, a)
        cases.append((r, donor, acc, st, val))
    reqs = [["ann.bphclass", G.encode_residue(r), G.hx(donor), G.rat(acc[0]), G.rat(acc[1]), G.rat(acc[2])] for r, donor, acc, _, _ in cases]
    resp = ctx.driver.ask(reqs)
    for (r, donor, acc, st, val), m in zip(cases, resp):
        res.case(("bphclass", r.one_letter_name, donor, tuple(acc)), nontrivial=val is not None)
        res.count("family:bphclass")
        inp = {"residue": dump_residues([r]), "donor": donor, "acceptor": acc}
        if st != "ok":
            res.fail("spec", "C11:bphclass:raises:" + str(val), inp, "detect_bph_br_classification raised")
            continue
        allowed = [int(x) for x in m.split(",") if x] if m not in ("no-donor",) else []
        if len(allowed) == 2:
            res.undecided += 1
            ok = val in allowed
        elif len(allowed) == 1:
            ok = val == allowed[0]
        else:
            ok = val is None
        if not ok:
            res.fail("corr", "C11:bphclass", inp, "impl=%r model=%r" % (val, m))


def functional_saenger(ctx, res):
    import rnapolis.common as C
    import rnapolis.tertiary as T
    from rnapolis.annotator import detect_saenger
    letters = ["A", "C", "G", "U", "T", "N", "a", "P"]
    cases = []
    for sweep in (0, 1):
      for b1 in letters:
        for b2 in letters:
            for lw in C.LeontisWesthof:
                r1 = T.Residue3D(C.ResidueLabel("A", 1, b1), None, 1, b1, ())
                r2 = T.Residue3D(C.ResidueLabel("A", 2, b2), None, 1, b2, ())
                f = detect_saenger(r1, r2, lw)
                b = detect_saenger(r2, r1, lw.reverse)
                cases.append((b1, b2, lw.value, f.value if f is not None else "~", b.value if b is not None else "~"))
    resp = ctx.driver.ask([["ann.saenger1", G.hx(b1), G.hx(b2), lw] for b1, b2, lw, _, _ in cases])
    for (b1, b2, lw, f, b), r in zip(cases, resp):
        res.case(("saenger", b1, b2, lw), nontrivial=f != "~")
        res.count("family:saenger")
        inp = {"b1": b1, "b2": b2, "lw": lw}
        if f != b:
            res.fail("spec", "C11:saenger:reverse-differs", inp, "pair gets %s, its reverse gets %s" % (f, b))
        if r != "%s %s" % (f, b):
            res.fail("corr", "C11:saenger", inp, "impl=%r model=%r" % ((f, b), r))


# ------------------------------------------------------------------------------------------------

def replay(ctx, data):
    if "input" not in data:
        # an obligation replay: names the theorems / correspondences that no longer check
        print(json.dumps({k: data.get(k) for k in ("no_longer_checks", "correspondence", "note")}, indent=1)[:4000])
        for c in data.get("correspondence", [])[:1]:
            replay(ctx, {"input": c["input"], "signature": c["signature"]})
        return
    if cli_annotator.is_cli(data["input"]):
        return cli_annotator.replay_cli("C11", data["input"])
    inp = data["input"]
    if "rows" in inp:
        from rnapolis.annotator import merge_and_clean_bph_br
        rows = [tuple(r) for r in inp["rows"]]
        print("impl:", call(merge_and_clean_bph_br, [("k%d" % k, "k%d" % k, c) for k, c in rows]))
        print("model:", ctx.driver.ask1("ann.merge", ",".join("%d:%d" % r for r in rows) or "-"))
        return
    if "donor" in inp:
        from rnapolis.annotator import detect_bph_br_classification
        from rnapolis.tertiary import Atom
        r = load_residues(inp["residue"])[0]
        acc = inp["acceptor"]
        a = Atom(None, None, None, 1, "OP1", float(acc[0]), float(acc[1]), float(acc[2]), None)
        print("impl:", call(detect_bph_br_classification, r, r.find_atom(inp["donor"]), a))
        print("model:", ctx.driver.ask1("ann.bphclass", G.encode_residue(r), G.hx(inp["donor"]), *[G.rat(x) for x in acc]))
        return
    if "b1" in inp:
        print("model:", ctx.driver.ask1("ann.saenger1", G.hx(inp["b1"]), G.hx(inp["b2"]), inp["lw"]))
        return
    if "multi" in inp:
        parts = [(q, load_residues(p)) for q, p in inp["multi"]]
        allres = [r for _, p in parts for r in p]
        mk = inp["model"]
        a, _ = annotate(allres, mk)
        b, _ = annotate(dict(parts)[mk], mk)
        print("inside multi-model structure:", a)
        print("model alone:", b)
        print("equal:", a == b)
        return
    rs = load_residues(inp["residues"])
    m = inp.get("model")
    bi, note = annotate(rs, m)
    print("residues:", [r.full_name for r in rs], "note:", note)
    print("impl:", bi)
    if bi is None:
        return
    shown = [r for r in rs if m is None or r.model == m]
    bp_rows, st_rows, bph, br, missing = rows_of(bi, shown, m)
    enc = G.encode(shown)
    print("participants outside the model:", missing)
    print("spec wf(base pairs):", ctx.driver.ask1("ann.wf", ",".join(bp_rows) or "-"))
    print("spec saenger:", ctx.driver.ask1("ann.saenger", ",".join(bp_rows) or "-"))
    print("spec wf(stackings):", ctx.driver.ask1("ann.wf", ",".join(st_rows) or "-"))
    print("spec bph:", ctx.driver.ask1("ann.bph", enc, "bph", ",".join("%d-%d-%d" % t for t in bph) or "-"))
    print("spec br:", ctx.driver.ask1("ann.bph", enc, "br", ",".join("%d-%d-%d" % t for t in br) or "-"))
    print("exact bph contacts:", ctx.driver.ask1("ann.bcontacts", enc, "bph"))
    print("exact br contacts:", ctx.driver.ask1("ann.bcontacts", enc, "br"))

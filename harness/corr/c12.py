"""C12 — secondary-structure objects are pure: queries and derivations never change them.

History-level correspondence: random / exhaustive call sequences over the public query and
derivation methods are executed on ONE real BpSeq object; every answer is compared (i) with the
answer of a FRESH object built from the original data (the property itself: spec), and (ii) with the
Lean object model (`ss.history`, the subject of theorem `history_as_fresh`).  The first sentence of
the property (what the two removals return) is checked against `ss.nopk` / `ss.noiso` (model) and
directly against the object's own dot-bracket / stems (spec).
"""
import itertools

from core import Result, call, parallel_map
from gen import g1
from corr.c01 import component_sizes, stems_of

OPS = ["str", "pairs", "dot_bracket", "fcfs", "all_dot_brackets", "elements", "without_isolated", "without_pseudoknots"]
# further public calls that must not disturb the object either; they are compared with fresh objects (the property
# itself) AND with the extended Lean object model (`ss.history_ext`, Model/PureExt.lean, theorem
# `C12Ext.history_as_fresh_ext`), which receives the FULL history.  `eq~SEQ~p1.p2...` = `b == <that structure>`.
EXTRA_OPS = ["convert_none", "convert_default", "convert_raises", "convert_notopt", "sequence", "pairs_dict", "roundtrip"]


# public calls that are compared with fresh objects only (not operations of either Lean object model)
HARNESS_ONLY_OPS = ["paired_5to3", "paired_all"]


def eq_op(seq, pairs):
    return "eq~%s~%s" % (seq, ".".join(map(str, pairs)))


def eq_variants(seq, pairs):
    """`__eq__` against a copy, against the structure without its first pair, and against a shorter one"""
    out = [eq_op(seq, pairs)]
    k = next((i for i, p in enumerate(pairs) if p), None)
    if k is not None:
        q = list(pairs)
        q[q[k] - 1] = 0
        q[k] = 0
        out.append(eq_op(seq, q))
    if len(seq) > 1:
        out.append(eq_op(seq[:-1], [0] * (len(seq) - 1)))
    return out


def answer(b, op):
    """canonical text of one answer of the real object"""
    if op == "str":
        return call(lambda: str(b))
    if op == "pairs":
        return call(lambda: ",".join("%d:%d" % (i, b.pairs[i]) for i in sorted(b.pairs)))
    if op == "dot_bracket":
        return call(lambda: b.dot_bracket.structure)
    if op == "fcfs":
        return call(lambda: b.fcfs.structure)
    if op == "all_dot_brackets":
        return call(lambda: ",".join(sorted(d.structure for d in b.all_dot_brackets)))
    if op == "elements":
        return call(lambda: "|".join(str(e) for l in b.elements for e in l))
    if op == "without_isolated":
        return call(lambda: str(b.without_isolated()))
    if op == "without_pseudoknots":
        return call(lambda: str(b.without_pseudoknots()))
    if op == "convert_none":
        # the documented call with an explicit solver; None = "no solver available"
        return call(lambda: b.convert_to_dot_bracket(None).structure)
    if op == "convert_default":
        import pulp
        return call(lambda: b.convert_to_dot_bracket(pulp.LpSolverDefault).structure)
    if op == "sequence":
        return call(lambda: b.sequence)
    if op in ("convert_raises", "convert_notopt"):
        # a present solver that fails: raises PulpSolverError / reports "not solved"
        from corr.c13 import Spy
        return call(lambda: b.convert_to_dot_bracket(Spy("raises" if op == "convert_raises" else "notsolved")).structure)
    if op == "pairs_dict":
        return call(lambda: ",".join("%d:%d" % (i, b.pairs[i]) for i in sorted(b.pairs)))
    if op == "roundtrip":
        from rnapolis.common import BpSeq

        def rt():
            r = BpSeq.from_string(str(b))
            return "%s|%s" % (r, r == b)
        return call(rt)
    if op in HARNESS_ONLY_OPS:
        return call(lambda: ",".join("%d:%d" % (e.index_, e.pair) for e in b.paired(op == "paired_5to3")))
    if op.startswith("eq~"):
        _, s2, p2 = op.split("~")
        other = g1.mk_bpseq(s2, [int(x) for x in p2.split(".")] if p2 else [])
        return call(lambda: str(b == other))
    raise ValueError(op)


def real(case):
    seq, pairs, ops = case[:3]
    b = g1.mk_bpseq(seq, pairs)
    derived = None
    if len(case) > 3 and case[3]:
        # the object under test is itself the RESULT of derivations (they must hand out objects that are pure too);
        # what a fresh copy of it is, is read off its entries when it is handed out
        for name in case[3]:
            b = getattr(b, name)()
        seq = "".join(e.sequence for e in b.entries)
        pairs = [e.pair for e in b.entries]
        derived = (seq, pairs)
    got, fresh = [], []
    for op in ops:
        got.append(answer(b, op))
        fresh.append(answer(g1.mk_bpseq(seq, pairs), op))
    final_text = call(lambda: str(b))
    final_pairs = call(lambda: ",".join("%d:%d" % (i, b.pairs[i]) for i in sorted(b.pairs)))
    f = g1.mk_bpseq(seq, pairs)
    db = call(lambda: f.dot_bracket.structure)
    out = {"got": got, "fresh": fresh, "final_text": final_text, "final_pairs": final_pairs, "db": db, "derived": derived}
    # first sentence of the property, on a fresh object
    f2 = g1.mk_bpseq(seq, pairs)
    nopk = call(lambda: f2.without_pseudoknots())
    if nopk[0] == "ok" and db[0] == "ok":
        level0 = set()
        stack = []
        for i, c in enumerate(db[1]):
            if c == "(":
                stack.append(i)
            elif c == ")":
                j = stack.pop()
                level0.add((j + 1, i + 1))
        got0 = {(e.index_, e.pair) for e in nopk[1].entries if e.pair > e.index_}
        out["nopk_ok"] = (got0 == level0) and "".join(e.sequence for e in nopk[1].entries) == seq
        out["nopk_text"] = str(nopk[1])
    f3 = g1.mk_bpseq(seq, pairs)
    noiso = call(lambda: f3.without_isolated())
    if noiso[0] == "ok":
        long_pairs = {p for s in stems_of(pairs) if len(s) >= 2 for p in s}
        got1 = {(e.index_, e.pair) for e in noiso[1].entries if e.pair > e.index_}
        out["noiso_ok"] = (got1 == long_pairs) and "".join(e.sequence for e in noiso[1].entries) == seq
        out["noiso_text"] = str(noiso[1])
    return out


def tool_removals(ctx, res, structs):
    """`motif_extractor` with --remove-isolated / --remove-pseudoknots on a dot-bracket file that spells the structure with
    the first-come-first-served levels (legal, not the optimal spelling): what it prints is what the library gives for the
    structure the removals leave - the pairs written with round brackets by the structure's OWN optimal notation"""
    from corr.c07 import real_cli
    rng = ctx.rng
    knotted = [(q, p) for q, p in structs if any(x > 1 for x in (component_sizes(p) or []))]
    knotted = rng.sample(knotted, min(len(knotted), ctx.pick(120, 1200)))
    cases = [(q, p, True, rng.random() < 0.4, True) for q, p in knotted] + [(q, p, True, True, False) for q, p in knotted[: len(knotted) // 3]]
    for c, o in zip(cases, parallel_map(real_cli, cases)):
        res.count("tool:motif_extractor:" + ("+".join(n for n, f in (("remove-isolated", c[3]), ("remove-pseudoknots", c[4])) if f)))
        res.case(("tool", tuple(c[1]), c[3], c[4]), nontrivial=True)
        inp = {"seq": c[0], "pairs": c[1], "family": "tool:motif_extractor", "dbn": True, "remove_isolated": c[3], "remove_pseudoknots": c[4]}
        if "err" in o:
            res.fail("spec", "C12:tool:raises:" + str(o["err"]), inp, "motif_extractor.main raised %s" % o["err"])
        elif o["out"] != o["exp"]:
            res.fail("spec", "C12:tool:removal-differs-from-library", inp,
                     "printed %r, the library's removals give %r" % (o["out"][:160], o["exp"][:160]))


def run(ctx):
    res = Result("C12")
    res.rule = ("cases = (structure, call sequence over %d public methods); quick: all sequences of length <=2 on a few structures, "
                "random sequences of length 3-4 on many; thorough: length <=8 random, <=4 exhaustive on small structures; "
                "non-trivial = structure has >=1 pair and the sequence has >=2 calls; distinct by (pairing, sequence)" % len(OPS))
    rng = ctx.rng
    structs = [c for c in g1.handmade()] + [c for _, c in g1.corpus()]
    structs += list(g1.exhaustive(ctx.pick(6, 7)))
    for _ in range(ctx.pick(200, 3000)):
        structs.append(g1.planted(rng, n=rng.randint(8, 120), maxlen=3))
    for _ in range(ctx.pick(200, 3000)):
        structs.append(g1.small_dense(rng))
    structs = [(s, p) for s, p in structs if (lambda z: z is not None and max(z or [0]) <= 6)(component_sizes(p))]
    cases = []
    # exhaustive short histories on a handful of structures with isolated pairs and pseudoknots
    seeds = [g1.from_dbn("(.[.).]"), g1.from_dbn("((..)).(.)"), g1.from_dbn("(([..))..].(.)"), g1.from_dbn("...."),
             g1.from_dbn("(.[[[.)..]]]", "gCaUNcgau?Aa")]
    for s, p in seeds:
        for x in HARNESS_ONLY_OPS:
            for op in OPS:
                cases.append((s, p, [x, op, x]))
                cases.append((s, p, [op, x, x]))
        for chain in (("without_pseudoknots",), ("without_isolated",), ("without_pseudoknots", "without_isolated")):
            for op in OPS:
                cases.append((s, p, [op, "str", op], chain))
                cases.append((s, p, ["without_isolated", op, "str"], chain))
                cases.append((s, p, ["without_pseudoknots", op, "str"], chain))
    for s, p in seeds:
        for x in EXTRA_OPS + eq_variants(s, p):
            for op in OPS:
                cases.append((s, p, [x, op]))
                cases.append((s, p, [op, x, op]))
        # explicit-solver conversions against each other and against the cached notations, in every order
        conv = ["convert_none", "convert_default", "convert_raises", "convert_notopt", "dot_bracket", "fcfs"]
        for a in conv:
            for b_ in conv:
                cases.append((s, p, [a, b_, a]))
    kmax = ctx.pick(2, 4)
    for s, p in seeds:
        for k in range(1, kmax + 1):
            for ops in itertools.product(OPS, repeat=k):
                cases.append((s, p, list(ops)))
    lmax = ctx.pick(4, 8)
    for s, p in structs:
        k = rng.randint(2, lmax)
        cases.append((s, p, [rng.choice(OPS) for _ in range(k)]))
        if rng.random() < 0.5:
            # one of the further public calls somewhere in the history
            ops = [rng.choice(OPS) for _ in range(k)]
            for _ in range(rng.randint(1, 2)):
                ops.insert(rng.randrange(len(ops) + 1), rng.choice(EXTRA_OPS + eq_variants(s, p)))
            cases.append((s, p, ops))
        # bias: a removal first, then queries (where aliasing would show)
        cases.append((s, p, [rng.choice(["without_isolated", "without_pseudoknots"])] + [rng.choice(OPS) for _ in range(k - 1)]))
        r = rng.random()
        if r < 0.25:
            # the iterator-returning query somewhere in the history
            ops = [rng.choice(OPS) for _ in range(k)]
            ops.insert(rng.randrange(len(ops) + 1), rng.choice(HARNESS_ONLY_OPS))
            if rng.random() < 0.5:
                ops.append(rng.choice(HARNESS_ONLY_OPS))
            cases.append((s, p, ops))
        elif r < 0.5:
            # a history on an object that is itself the result of one or two derivations
            chain = rng.choice([("without_pseudoknots",), ("without_isolated",), ("without_pseudoknots", "without_isolated"),
                                ("without_isolated", "without_pseudoknots")])
            cases.append((s, p, [rng.choice(OPS) for _ in range(k)], chain))
    outs = parallel_map(real, cases)
    reqs, idx = [], []
    # a derived object is judged as the structure it holds when it is handed out
    def subject(c, o):
        return (o["derived"][0], o["derived"][1]) if o.get("derived") else (c[0], c[1])

    def mk_inp(c, o):
        d = {"seq": c[0], "pairs": c[1], "ops": c[2]}
        if o.get("derived"):
            d["derived_by"] = list(c[3])
            d["subject"] = {"seq": o["derived"][0], "pairs": o["derived"][1]}
        return d
    for ci, (c, o) in enumerate(zip(cases, outs)):
        (seq, pairs), ops = subject(c, o), c[2]
        ps = g1.pstr(pairs)
        db = o["db"][1] if o["db"][0] == "ok" else "err:" + o["db"][1]
        reqs.append(["ss.history", seq, ps, db, ",".join(x for x in ops if x in OPS)]); idx.append((ci, "hist"))
        reqs.append(["ss.history_ext", seq, ps, db, ",".join(x for x in ops if x not in HARNESS_ONLY_OPS)]); idx.append((ci, "hist_ext"))
        if "nopk_text" in o:
            reqs.append(["ss.nopk", seq, ps, db]); idx.append((ci, "nopk"))
        if "noiso_text" in o:
            reqs.append(["ss.noiso", seq, ps]); idx.append((ci, "noiso"))
    resp = ctx.driver.ask(reqs)

    def ent_text(r):
        # "ok SEQ p1,p2,..." -> BPSEQ text
        if not r.startswith("ok "):
            return r
        body = r[3:]
        s, _, ps = body.partition(" ")
        pl = [int(x) for x in ps.split(",")] if ps and ps != "-" else []
        return "\n".join("%d %s %d" % (i + 1, c, p) for i, (c, p) in enumerate(zip(s, pl)))

    for (ci, what), r in zip(idx, resp):
        o = outs[ci]
        (seq, pairs), ops = subject(cases[ci], o), cases[ci][2]
        inp = mk_inp(cases[ci], o)
        if what == "hist_ext":
            keep = [i for i, x in enumerate(ops) if x not in HARNESS_ONLY_OPS]
            o = dict(o, got=[o["got"][i] for i in keep], fresh=[o["fresh"][i] for i in keep])
            ops = [ops[i] for i in keep]
            # the FULL history on the extended object model, compared step by step with the real object's own
            # answers (state machine vs object) and with fresh objects (what the theorem says the model answers)
            model = []
            for a, op in zip(r.split(";") if r else [], ops):
                if a.startswith("ok:"):
                    t = bytes.fromhex(a[3:]).decode() if a[3:] != "" else ""
                    if op == "all_dot_brackets":
                        t = ",".join(sorted(t.split(",")))
                    model.append(("ok", t))
                else:
                    model.append(("err", a[4:]))
            if len(model) != len(ops):
                res.fail("corr", "C12:history_ext:len", inp, "driver answered %r" % (r[:200],))
                continue
            for who, real_answers in (("object", o["got"]), ("fresh", o["fresh"])):
                k = next((i for i, (m, f) in enumerate(zip(model, real_answers)) if m != tuple(f)), None)
                if k is not None:
                    opn = ops[k].split("~")[0]
                    res.fail("corr", "C12:history_ext:%s:%s" % (who, opn), inp,
                             "extended model differs from the %s's answer at step %d (%s): model=%r real=%r" % (
                                 "real object" if who == "object" else "fresh object", k, ops[k], model[k], tuple(real_answers[k])))
                    break
        elif what == "hist":
            model = []
            mops = [x for x in ops if x in OPS]
            for a, op in zip(r.split(";") if r else [], mops):
                if a.startswith("ok:"):
                    t = bytes.fromhex(a[3:]).decode() if a[3:] != "" else ""
                    if op == "all_dot_brackets":
                        t = ",".join(sorted(t.split(",")))
                    model.append(("ok", t))
                else:
                    model.append(("err", a[4:]))
            fresh = [tuple(x) for x, op in zip(o["fresh"], ops) if op in OPS]
            if model != fresh:
                k = next((i for i, (m, f) in enumerate(zip(model, fresh)) if m != f), None)
                res.fail("corr", "C12:history:%s" % (mops[k] if k is not None else "len"), inp,
                         "model answer differs from a fresh object's at step %r: model=%r fresh=%r" % (k, model[k] if k is not None else model, fresh[k] if k is not None else fresh))
        elif what == "nopk":
            if ent_text(r) != o["nopk_text"]:
                res.fail("corr", "C12:without_pseudoknots", inp, "impl=%r model=%r" % (o["nopk_text"], ent_text(r)))
        else:
            if ent_text("ok " + r) != o["noiso_text"]:
                res.fail("corr", "C12:without_isolated", inp, "impl=%r model=%r" % (o["noiso_text"], ent_text("ok " + r)))
    for c, o in zip(cases, outs):
        (seq, pairs), ops = subject(c, o), c[2]
        npairs = sum(1 for p in pairs if p)
        res.case((tuple(pairs), tuple(ops)), nontrivial=npairs > 0 and len(ops) >= 2)
        res.count("len%d" % len(ops))
        for op in ops:
            res.count("op:" + op.split("~")[0])
        if o.get("derived"):
            res.count("subject-is-a-derived-object")
        inp = mk_inp(c, o)
        for k, (g, f) in enumerate(zip(o["got"], o["fresh"])):
            if tuple(g) != tuple(f):
                first_mut = next((x for x in ops[:k] if x.startswith("without_")), ops[0])
                res.fail("spec", "C12:answer-differs-from-fresh", inp,
                         "step %d (%s): object answered %r, a fresh copy answers %r" % (k, ops[k], g, f))
                break
        exp_text = "\n".join("%d %s %d" % (i + 1, c, p) for i, (c, p) in enumerate(zip(seq, pairs)))
        if o["final_text"] != ("ok", exp_text):
            mut = next((x for x in ops if x.startswith("without_")), ops[0])
            res.fail("spec", "C12:receiver-text-changed", inp, "BPSEQ text after the history: %r" % (o["final_text"],))
        if o.get("nopk_ok") is False:
            res.fail("spec", "C12:without_pseudoknots:not-level0", inp, "without_pseudoknots != pairs written with round brackets / sequence changed")
        if o.get("noiso_ok") is False:
            res.fail("spec", "C12:without_isolated:not-long-stems", inp, "without_isolated != pairs of stems of length >= 2 / sequence changed")
    for c, o in list(zip(cases, outs))[::max(1, len(cases) // 5)][:5]:
        res.sample({"seq": c[0][:30], "pairs": c[1][:30], "ops": c[2], "answers": [a[1][:40] for a in o["got"]]})
    tool_removals(ctx, res, structs)
    return res


def shrink(ctx, f):
    """shortest prefix/sub-sequence of the history that still differs from fresh"""
    from core import ddmin
    inp = f["input"]
    if "ops" not in inp:
        return f

    def bad(ops):
        o = real((inp["seq"], inp["pairs"], ops, tuple(inp.get("derived_by", []))))
        sub = inp.get("subject", inp)
        exp = "\n".join("%d %s %d" % (i + 1, c, p) for i, (c, p) in enumerate(zip(sub["seq"], sub["pairs"])))
        return any(tuple(g) != tuple(fr) for g, fr in zip(o["got"], o["fresh"])) or o["final_text"] != ("ok", exp)
    ops = ddmin(inp["ops"], bad) if len(inp["ops"]) > 1 else inp["ops"]
    g = dict(f)
    g["input"] = dict(inp, ops=ops)
    return g


def replay(ctx, data):
    inp = data["input"]
    if inp.get("family") == "tool:motif_extractor":
        from corr.c07 import real_cli
        o = real_cli((inp["seq"], inp["pairs"], True, inp["remove_isolated"], inp["remove_pseudoknots"]))
        print("printed :", o.get("out", o))
        print("library :", o.get("exp"))
        if o.get("out") != o.get("exp"):
            print("SPEC FAILURE C12:tool:removal-differs-from-library")
        return
    o = real((inp["seq"], inp["pairs"], inp["ops"], tuple(inp.get("derived_by", []))))
    if inp.get("derived_by"):
        print("object under test = result of", " . ".join(inp["derived_by"]), "on the given structure")
    for k, op in enumerate(inp["ops"]):
        print(op, "object:", o["got"][k], "fresh:", o["fresh"][k])
    print("final text:", o["final_text"])

"""C13 — dot-bracket generation survives every solver configuration and solver fault.

Configurations {HiGHS available, CBC default, none} x fault behaviours {ok, raises PulpSolverError,
status not-solved / infeasible / unbounded / undefined} x structures, through `BpSeq.dot_bracket`
(configuration patched on the pulp module, harness side) and `convert_to_dot_bracket(spy)`.
Functional correspondence with the Lean model `convert`; spec: never raises, result lossless
(`ss.lossless`), and equal to the FCFS encoding whenever the solver did not deliver an optimum.
"""
import pulp

from core import history_probe, Result, call, parallel_map
from gen import g1
from corr.c01 import component_sizes

FAULTS = ["ok", "raises", "notsolved", "infeasible", "unbounded", "undefined",
          # a solver error without / with an empty / with a multi-line message
          "raises-noargs", "raises-empty", "raises-multiline",
          # the solver stops early: status "not solved" / "undefined" but an integer-feasible incumbent is left in the
          # variables (sol_status = IntegerFeasible) — not an optimal solution, so the result must be FCFS
          "incumbent-notsolved", "incumbent-undefined"]
RAISES = {"raises": ("injected",), "raises-noargs": (), "raises-empty": ("",), "raises-multiline": ("first line\nsecond line",)}
INCUMBENT = {"incumbent-notsolved": pulp.LpStatusNotSolved, "incumbent-undefined": pulp.LpStatusUndefined}
STATUS = {"notsolved": pulp.LpStatusNotSolved, "infeasible": pulp.LpStatusInfeasible,
          "unbounded": pulp.LpStatusUnbounded, "undefined": pulp.LpStatusUndefined}


class Spy(pulp.LpSolver):
    name = "SPY"

    def __init__(self, fault="ok"):
        super().__init__(msg=False)
        self.fault = fault
        self.called = 0
        self.ones = None

    def available(self):
        return True

    def actualSolve(self, lp, **kw):
        self.called += 1
        if self.fault in RAISES:
            raise pulp.PulpSolverError(*RAISES[self.fault])
        if self.fault in INCUMBENT:
            pulp.PULP_CBC_CMD(msg=False).actualSolve(lp)          # leaves a feasible assignment in the variables
            lp.assignStatus(INCUMBENT[self.fault], pulp.LpSolutionIntegerFeasible)
            return INCUMBENT[self.fault]
        if self.fault in STATUS:
            lp.assignStatus(STATUS[self.fault])
            return STATUS[self.fault]
        st = pulp.PULP_CBC_CMD(msg=False).actualSolve(lp)
        self.ones = []
        for v in lp.variables():
            if v.varValue == 1:
                _, i, o = v.getName().split("_")
                self.ones.append((int(i), int(o)))
        return st


def real(case):
    seq, pairs, cfg, fault = case
    out = {}
    b = g1.mk_bpseq(seq, pairs)
    out["fcfs"] = call(lambda: g1.mk_bpseq(seq, pairs).fcfs.structure)
    spy = Spy(fault)
    if cfg == "direct":
        r = call(lambda: b.convert_to_dot_bracket(spy).structure)
    elif cfg == "direct-none":
        r = call(lambda: b.convert_to_dot_bracket(None).structure)
    else:
        old_h, old_d = pulp.HiGHS_CMD, pulp.LpSolverDefault
        try:
            if cfg.startswith("highs"):
                # a genuine HiGHS_CMD subclass (code that tests isinstance(solver, pulp.HiGHS_CMD) sees a HiGHS solver);
                # the default solver next to it is healthy CBC / a failing solver / absent
                class FakeHighs(old_h):
                    def __init__(self, *a, **k):
                        pulp.LpSolver.__init__(self, msg=False)

                    def available(self):
                        return True

                    def actualSolve(self, lp, **kw):
                        return spy.actualSolve(lp, **kw)
                pulp.HiGHS_CMD = FakeHighs
                if cfg == "highs+bad-default":
                    pulp.LpSolverDefault = Spy("raises")
                elif cfg == "highs+no-default":
                    pulp.LpSolverDefault = None
            else:
                class NoHighs:
                    def __init__(self, *a, **k):
                        pass

                    def available(self):
                        return False
                pulp.HiGHS_CMD = NoHighs
                pulp.LpSolverDefault = spy if cfg in ("cbc", "tool") else None
            if cfg == "tool":
                r = call(lambda: printed_by_motif_extractor(seq, pairs))
            else:
                r = call(lambda: b.dot_bracket.structure)
        finally:
            pulp.HiGHS_CMD, pulp.LpSolverDefault = old_h, old_d
    out["res"] = r
    out["called"] = spy.called
    out["ones"] = spy.ones
    return out


def printed_by_motif_extractor(seq, pairs):
    """the notation the command-line tool prints for a BPSEQ file (under whatever solver configuration is in force)"""
    import contextlib
    import io
    import os
    import sys
    import tempfile
    from rnapolis import motif_extractor
    fd, path = tempfile.mkstemp(suffix=".bpseq")
    with os.fdopen(fd, "w") as f:
        f.write(str(g1.mk_bpseq(seq, pairs)))
    old, buf = sys.argv, io.StringIO()
    sys.argv = ["motif_extractor", "--bpseq", path]
    try:
        with contextlib.redirect_stdout(buf):
            motif_extractor.main()
    finally:
        sys.argv = old
        os.unlink(path)
    lines = buf.getvalue().splitlines()
    k = lines.index("Full dot-bracket:")
    block = []
    for line in lines[k + 1:]:
        if len(line) != len(seq) and not line.startswith(">"):
            break
        block.append(line)
    cand = [x for x in block if not x.startswith(">")]
    if len(cand) < 2 or cand[0] != seq:
        raise ValueError("printed block is not sequence + notation: %r" % block[:3])
    return cand[1]


def real_history(case):
    """the same object asked twice: first a call that succeeds, then one whose solver cannot deliver"""
    seq, pairs, cfg, fault = case
    out = {"fcfs": call(lambda: g1.mk_bpseq(seq, pairs).fcfs.structure), "called": 1, "ones": None}
    b = g1.mk_bpseq(seq, pairs)
    if cfg == "after-ok":
        call(lambda: b.convert_to_dot_bracket(Spy("ok")).structure)
        out["res"] = call(lambda: b.convert_to_dot_bracket(Spy(fault)).structure)
    elif cfg == "after-ok+derivations":
        # between the two conversions the object is asked for derived objects and views (none of them may touch it)
        call(lambda: b.convert_to_dot_bracket(Spy("ok")).structure)
        for name in ("without_isolated", "without_pseudoknots"):
            call(lambda: getattr(b, name)())
        call(lambda: b.elements)
        call(lambda: list(b.paired(only5to3=True)))
        out["res"] = call(lambda: b.convert_to_dot_bracket(Spy(fault)).structure)
    elif cfg == "after-dot_bracket":
        call(lambda: b.dot_bracket.structure)
        out["res"] = call(lambda: b.convert_to_dot_bracket(Spy(fault)).structure if fault != "none" else b.convert_to_dot_bracket(None).structure)
    else:
        raise ValueError(cfg)
    return out


def real_any(case):
    return real_history(case) if case[2].startswith("after-") else real(case)


def late_crossings(rng):
    """many stems in a row with crossings only between stems far apart in the 5'->3' numbering (two-digit stem
    indices): hairpins, two openers, a run of hairpins, and partners that close across them"""
    h0, h1 = rng.randint(0, 2), rng.randint(6, 10)
    body = "(..)" * h0 + "[[.{{." + "(..)" * h1 + "<<.}}.AA.]].>>.aa" + "(..)" * rng.randint(0, 2)
    return g1.from_dbn(body, g1.seq_for(len(body), rng))


def run(ctx):
    res = Result("C13")
    res.rule = ("cases = (structure, configuration in {highs, cbc, none, direct spy, direct None}, fault in {ok, raises, notsolved, "
                "infeasible, unbounded, undefined}); structures: hand-made, corpus, exhaustive n<=7, planted, dense, ladders; "
                "non-trivial = structure has a crossing (the solver is actually consulted); distinct by (pairing, cfg, fault)")
    rng = ctx.rng
    structs = [("hand", c) for c in g1.handmade()] + [("corpus:" + n, c) for n, c in g1.corpus()]
    structs += [("exh", c) for c in g1.exhaustive(ctx.pick(6, 8))]
    for _ in range(ctx.pick(150, 2500)):
        structs.append(("planted", g1.planted(rng, n=rng.randint(10, 200))))
    for _ in range(ctx.pick(150, 2500)):
        structs.append(("dense", g1.small_dense(rng)))
    for k in (2, 3, 5, 8):
        structs.append(("ladder%d" % k, g1.ladder(k)))
    for _ in range(ctx.pick(6, 60)):
        structs.append(("late-crossings", late_crossings(rng)))
    cases, meta = [], []
    for tag, (seq, pairs) in structs:
        sizes = component_sizes(pairs)
        if sizes is None or max(sizes or [0]) > 9:
            continue
        knotted = any(s > 1 for s in sizes)
        combos = [(c, f) for c in ("highs", "cbc", "direct") for f in FAULTS] + [("none", "ok"), ("direct-none", "ok")]
        combos += [(c, f) for c in ("highs+bad-default", "highs+no-default") for f in ("raises", "notsolved", "ok")]
        if knotted:
            combos += [("tool", f) for f in ("ok", "raises", "notsolved")]
            combos += [("after-ok", f) for f in ("raises", "infeasible", "incumbent-notsolved")] + \
                      [("after-dot_bracket", f) for f in ("none", "raises", "undefined")] + \
                      [("after-ok+derivations", f) for f in ("raises", "notsolved")]
        if tag == "exh" or not knotted:
            combos = rng.sample(combos, 4) + [("none", "ok")]
        for cfg, fault in combos:
            cases.append((seq, pairs, cfg, fault))
            meta.append((tag, knotted))
    outs = parallel_map(real_any, cases)
    history_probe(ctx, res, real_any, cases, "dot_bracket-under-faults")
    reqs, idx = [], []
    for ci, ((seq, pairs, cfg, fault), o) in enumerate(zip(cases, outs)):
        ps = g1.pstr(pairs)
        solver = "0" if cfg in ("none", "direct-none") else "1"
        if cfg.startswith("after-"):
            continue        # same-object histories: judged against the statement below, no model line
        if fault == "ok":
            if o["ones"] is None:
                outcome, ones = "notopt", "-"  # solver never consulted (no crossing or no solver): outcome irrelevant
            else:
                outcome, ones = "optimal", ",".join("%d_%d" % p for p in o["ones"]) or "-"
        elif fault in RAISES:
            outcome, ones = "raises", "-"
        else:
            outcome, ones = "notopt", "-"
        reqs.append(["ss.convert", seq, ps, solver, outcome, ones]); idx.append((ci, "model"))
        cannot = cfg in ("none", "direct-none") or (fault != "ok" and o["called"] > 0)
        if cannot and o["res"][0] == "ok":
            reqs.append(["ss.fcfs", seq, ps]); idx.append((ci, "fcfsdef"))
        if o["res"][0] == "ok":
            reqs.append(["ss.lossless", seq, ps, o["res"][1]]); idx.append((ci, "lossless"))
    resp = ctx.driver.ask(reqs)
    for (ci, what), r in zip(idx, resp):
        seq, pairs, cfg, fault = cases[ci]
        o = outs[ci]
        inp = {"seq": seq, "pairs": pairs, "cfg": cfg, "fault": fault, "family": meta[ci][0]}
        if what == "fcfsdef":
            # the first-come-first-served encoding as DEFINED in Lean (each stem, in 5'->3' order, on the lowest level
            # not taken by an earlier crossing stem; theorem C16.fcfs_is_greedy_identity)
            if r != "ok " + o["res"][1]:
                res.fail("spec", "C13:fallback-not-fcfs", inp, "solver could not deliver an optimum; result %r is not the first-come-first-served encoding %r" % (o["res"][1], r))
        elif what == "model":
            impl = ("ok " + o["res"][1]) if o["res"][0] == "ok" else "err " + o["res"][1]
            if impl != r:
                res.fail("corr", "C13:convert", inp, "impl=%r model=%r" % (impl, r))
        else:
            if r != "ok":
                res.fail("spec", "C13:not-lossless:%s" % r, inp, "returned notation is not a lossless encoding: %s" % r)
    for (seq, pairs, cfg, fault), o, (tag, knotted) in zip(cases, outs, meta):
        res.case((tuple(pairs), cfg, fault), nontrivial=knotted)
        res.count("cfg:" + cfg)
        res.count("fault:" + fault)
        res.count("solver-consulted" if o["called"] else "solver-not-consulted")
        inp = {"seq": seq, "pairs": pairs, "cfg": cfg, "fault": fault, "family": tag}
        if o["res"][0] != "ok":
            site = "no-solver" if cfg in ("none", "direct-none") else fault
            res.fail("spec", "C13:raises:%s:%s" % (site, o["res"][1]), inp, "asking for the dot-bracket raised %s" % o["res"][1])
            continue
        cannot = cfg in ("none", "direct-none") or (fault != "ok" and o["called"] > 0)
        if cannot and o["fcfs"][0] == "ok" and o["res"][1] != o["fcfs"][1]:
            res.fail("spec", "C13:fallback-not-fcfs", inp, "solver could not deliver an optimum but the result %r is not the FCFS encoding %r" % (o["res"][1], o["fcfs"][1]))
    for c, o in list(zip(cases, outs))[::max(1, len(cases) // 6)][:6]:
        res.sample({"seq": c[0][:30], "pairs": c[1][:30], "cfg": c[2], "fault": c[3], "result": o["res"], "solver_calls": o["called"]})
    return res


def replay(ctx, data):
    inp = data["input"]
    o = real((inp["seq"], inp["pairs"], inp["cfg"], inp["fault"]))
    print("impl:", o)

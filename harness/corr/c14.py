"""C14 — outputs are a deterministic function of the input.

(i)  Site inventory (tie to the source): every place where rnapolis iterates a hash-ordered collection
     (tools/site_inventory.py, AST) must be on the committed allow-list (tools/site_allowlist.json), each
     entry classified (int elements / int tuples / covered by a Props.C14 theorem).  A new site breaks the
     tie and is reported unless the differential run below exhibits the failure itself.
(ii) Seed-differential run (search + spec): every output named in the property is computed in fresh
     interpreters under PYTHONHASHSEED in {0,1,2,3,random} (thorough: 12 values) and twice in-process;
     the digests must agree byte for byte.
"""
import json
import os
import subprocess
import sys

from core import Result, VERIF
from gen import g1
from corr.c01 import components_ok

WORKER = os.path.join(VERIF, "harness", "det_worker.py")
QUICK_FILES = ["1A1T_1_B.cif", "1DFU_1_M-N.cif", "4WTI_1_T-P.cif", "1ATO.pdb", "1ehz-assembly-1.cif"]


def run_worker(jobs, seed):
    env = dict(os.environ)
    env["PYTHONHASHSEED"] = str(seed)
    env["LOGLEVEL"] = "ERROR"
    # stderr goes to a temporary file, not a pipe: the workers of all seeds run concurrently and are read one after the
    # other, so a worker that fills a stderr pipe (warnings of the annotated files) would block for ever
    import tempfile
    errf = tempfile.TemporaryFile()
    p = subprocess.Popen(["/venv/bin/python", WORKER], stdin=subprocess.PIPE, stdout=subprocess.PIPE, stderr=errf, env=env)
    p.errfile = errf
    return p


def fr3d_listing(rng):
    """the repository's FR3D listing for 184D plus extra cWW lines giving some nucleotides 2-3 competing partners"""
    base = open("/repo/tests/184D-fr3d.txt").read().splitlines()
    units = sorted({l.split("\t")[0] for l in base if l.count("\t") >= 2} | {l.split("\t")[2] for l in base if l.count("\t") >= 2})
    comp = {"DG": "DC", "DC": "DG", "DA": "DT", "DT": "DA", "G": "C", "C": "G", "A": "U", "U": "A"}
    extra = []
    for _ in range(rng.randint(2, 8)):
        u = rng.choice(units)
        name = u.split("|")[3]
        cands = [v for v in units if v != u and v.split("|")[3] == comp.get(name)]
        if not cands:
            continue
        for v in rng.sample(cands, min(len(cands), rng.randint(1, 3))):
            extra.append("%s\tcWW\t%s\t0" % (u, v))
            if rng.random() < 0.5:
                extra.append("%s\tcWW\t%s\t0" % (v, u))
    lines = base + extra
    rng.shuffle(lines)
    return "\n".join(lines) + "\n"


def conformers(path, rng, outdir, tag):
    """two files with the same residue identifiers and different geometry: the structure rewritten as it is, and a copy in
    which C1' of a third of the nucleotides is turned by 180 degrees about the line from the glycosidic nitrogen through
    the base centroid (no hydrogen-bonding atom moves; the cis/trans orientation of the pairs of those nucleotides
    changes).  What is computed for one of them must not depend on the other having been read in the same process."""
    import dataclasses
    import numpy as np
    from gen import g3
    from rnapolis.tertiary import BASE_ATOMS
    st = g3.load(path)
    first = st.residues[0].model if st.residues else 1
    st = g3.mk_structure([r for r in st.residues if r.model == first])
    chosen = {i for i in range(len(st.residues)) if rng.random() < 0.34}

    def turn(ri, ai, a):
        r = st.residues[ri]
        if ri not in chosen or a.name != "C1'":
            return a
        n = r.find_atom("N9") or r.find_atom("N1")
        base = [b for b in r.atoms if b.name in BASE_ATOMS.get(r.one_letter_name, [])]
        if n is None or len(base) < 3:
            return a
        o = np.array([n.x, n.y, n.z])
        u = np.mean([[b.x, b.y, b.z] for b in base], axis=0) - o
        if np.linalg.norm(u) < 1e-6:
            return a
        u = u / np.linalg.norm(u)
        v = np.array([a.x, a.y, a.z]) - o
        w = 2 * np.dot(v, u) * u - v
        q = o + w
        return dataclasses.replace(a, x=float(q[0]), y=float(q[1]), z=float(q[2]))
    a = os.path.join(outdir, "%s-as-read.cif" % tag)
    b = os.path.join(outdir, "%s-other-conformer.cif" % tag)
    g3.write_cif(st, a)
    g3.write_cif(g3.map_atoms(st, turn), b)
    return [a, b]


def inventory_check(res):
    out = subprocess.run([sys.executable, os.path.join(VERIF, "tools", "site_inventory.py")], stdout=subprocess.PIPE, check=True).stdout
    sites = json.loads(out)
    allow = json.load(open(os.path.join(VERIF, "tools", "site_allowlist.json")))
    key = lambda s: (s["module"], s["function"], s["expr"], s["kind"])
    allowed = {key(a): a for a in allow}
    new = []
    for s in sites:
        res.count("site:" + (allowed[key(s)]["class"] if key(s) in allowed else "NEW"))
        if key(s) not in allowed:
            new.append(s)
    res.dist["sites_total"] = len(sites)
    return sites, new


def run(ctx):
    res = Result("C14")
    res.rule = ("jobs = corpus 3D files (annotation lists, JSON, CSV, BPSEQ, dot-bracket, extended dot-bracket, all dot-brackets in order, "
                "elements, write_pdb/write_cif text) + generated knotted BPSEQs (text, optimal/FCFS/all dot-brackets in order, elements, "
                "removals); each job evaluated under every sampled PYTHONHASHSEED in a fresh interpreter and twice in-process, and "
                "once more with the whole job list in the opposite order; "
                "non-trivial = job with >1 member in all_dot_brackets or a 3D file; distinct by job")
    sites, new_sites = inventory_check(res)
    rng = ctx.rng
    jobs = []
    tdir = "/repo/tests"
    files = QUICK_FILES if ctx.quick else sorted(f for f in os.listdir(tdir) if f.endswith((".cif", ".pdb")))
    for f in files:
        p = os.path.join(tdir, f)
        if os.path.exists(p) and os.path.getsize(p) < ctx.pick(400_000, 3_000_000):
            jobs.append({"kind": "file", "path": p, "find_gaps": False, "all": True})
            if not ctx.quick:
                jobs.append({"kind": "file", "path": p, "find_gaps": True, "all": True})
    # the same molecule twice (same identifiers, other conformation), each in its own file
    import tempfile
    cdir = tempfile.mkdtemp(prefix="c14-conformers-")
    for f in (["1A1T_1_B.cif", "1DFU_1_M-N.cif"] if ctx.quick else ["1A1T_1_B.cif", "1DFU_1_M-N.cif", "4WTI_1_T-P.cif", "1E7K_1_C.cif", "1ehz-assembly-1.cif"]):
        if os.path.exists(os.path.join(tdir, f)):
            for p in conformers(os.path.join(tdir, f), rng, cdir, f.split(".")[0]):
                jobs.append({"kind": "file", "path": p, "find_gaps": False, "all": True})
    # the command-line tool on a plain and on a gzipped copy of a corpus file, with every file-writing option
    import gzip
    import shutil
    for f in ["1E7K_1_C.cif", "1ATO.pdb"]:
        src = os.path.join(tdir, f)
        if os.path.exists(src):
            plain = os.path.join(cdir, "tool-" + f)
            shutil.copy(src, plain)
            with open(src, "rb") as a, gzip.open(plain + ".gz", "wb") as b:
                b.write(a.read())
            for p in (plain, plain + ".gz"):
                jobs.append({"kind": "tool", "path": p, "flags": ["-c", "-j", "-b", "-p", "--inter-stem-csv", "--stems-csv"]})
                jobs.append({"kind": "tool", "path": p, "flags": ["-f", "-a", "--stems-csv"]})
    # residues under names the one-letter table does not know, with the atoms that tell the bases apart left out (a
    # pyrimidine without O4 / N4, a purine without O6 / N6 / N2): the letter is then chosen among equally good candidates
    src = os.path.join(tdir, "1ATO.pdb")
    if os.path.exists(src):
        drop = {"U": ("PYO", {"O4"}), "C": ("PYC", {"N4"}), "G": ("PUG", {"O6", "N2"}), "A": ("PUA", {"N6"})}
        seen, lines = {}, []
        for ln in open(src).read().splitlines():
            if ln.startswith(("ATOM", "HETATM")) and ln[17:20].strip() in drop:
                key = (ln[21], ln[22:27])
                seen.setdefault(key, len(seen))
                if seen[key] % 3 == 0:
                    new, gone = drop[ln[17:20].strip()]
                    if ln[12:16].strip() in gone:
                        continue
                    ln = "HETATM" + ln[6:17] + new + ln[20:]
            lines.append(ln)
        amb = os.path.join(cdir, "ambiguous-bases-1ATO.pdb")
        open(amb, "w").write("\n".join(lines) + "\n")
        jobs.append({"kind": "file", "path": amb, "find_gaps": False, "all": True})
    # adapter path: corpus structure + FR3D listings in which one nucleotide has several competing canonical pairs
    for _ in range(ctx.pick(6, 40)):
        jobs.append({"kind": "external", "path": os.path.join(tdir, "184D.cif"), "listing": fr3d_listing(rng), "find_gaps": False})
    structs = [c for c in g1.handmade()]
    for k in (3, 4, 5):
        structs.append(g1.ladder(k))
    while len(structs) < ctx.pick(60, 600):
        c = g1.small_dense(rng) if rng.random() < 0.6 else g1.planted(rng, n=rng.randint(12, 80), maxlen=3)
        if components_ok(c[1], 6):
            structs.append(c)
    for seq, pairs in structs:
        jobs.append({"kind": "bpseq", "seq": seq, "pairs": pairs, "all": True})
    seeds = ["0", "1", "2", "3", "random"] if ctx.quick else [str(i) for i in range(10)] + ["random", "random"]
    # the last worker gets the jobs in the opposite order under the first seed: what is computed for an input must not
    # depend on which other inputs the process handled before it
    procs = [(s, run_worker(jobs, s), False) for s in seeds] + [(seeds[0], run_worker(jobs, seeds[0]), True)]
    for _, p, rev in procs:
        p.stdin.write(json.dumps(jobs[::-1] if rev else jobs).encode())
        p.stdin.close()
    results = {}
    for i, (s, p, rev) in enumerate(procs):
        out = p.stdout.read()
        p.wait()
        p.errfile.seek(0)
        err = p.errfile.read()
        p.errfile.close()
        if p.returncode != 0:
            raise RuntimeError("det_worker failed under seed %s: %s" % (s, err.decode()[-500:]))
        got = json.loads(out)
        results[(i, s + ", inputs in the opposite order" if rev else s)] = got[::-1] if rev else got
    ref_key = next(iter(results))
    for ji, job in enumerate(jobs):
        ref = results[ref_key][ji]["first"]
        nontrivial = job["kind"] in ("file", "external", "tool")
        name = os.path.basename(job["path"]) if job["kind"] in ("file", "external", "tool") else "bpseq"
        res.count("job:" + job["kind"])
        inp = {k: v for k, v in job.items()}
        bad = set()
        for (i, s), r in results.items():
            a, b = r[ji]["first"], r[ji]["second"]
            if "_error" in a:
                res.count("worker-error:" + a["_error"].split(":")[0])
            for k in sorted(set(a) | set(b) | set(ref)):
                if a.get(k) != b.get(k):
                    bad.add((k, "repeated call in one process"))
                if a.get(k) != ref.get(k):
                    bad.add((k, "PYTHONHASHSEED=%s vs %s" % (s, ref_key[1])))
        for k, how in sorted(bad)[:4]:
            res.fail("spec", "C14:%s:not-deterministic" % k, dict(inp, differs=how), "output %r differs: %s" % (k, how))
        res.case(("job", ji, name), nontrivial=nontrivial or len(job.get("pairs", [])) > 6)
    res.dist["seeds"] = len(seeds)
    res.dist["outputs_per_job"] = len(results[ref_key][0]["first"]) if jobs else 0
    for s in new_sites:
        res.fail("corr", "C14:new-hash-order-iteration:%s.%s:%s" % (s["module"], s["function"], s["expr"]), s,
                 "iteration over a hash-ordered collection that is not on the allow-list (tools/site_allowlist.json): %s line %s" % (s["expr"], s["line"]))
    res.sample({"job": jobs[0], "digests": results[ref_key][0]["first"]})
    res.sample({"job": {k: (v if k != "pairs" else v[:20]) for k, v in jobs[-1].items()}, "digests": results[ref_key][-1]["first"]})
    res.sample({"inventoried_sites": ["%s.%s: %s (%s)" % (s["module"], s["function"], s["expr"], s["kind"]) for s in sites]})
    return res


def replay(ctx, data):
    inp = dict(data["input"])
    inp.pop("differs", None)
    inp.pop("line", None)
    if "kind" not in inp or inp["kind"] not in ("file", "bpseq", "tool"):
        print("site:", data["input"])
        return
    for s in ["0", "1", "2", "3"]:
        p = run_worker([inp], s)
        out, _ = p.communicate(json.dumps([inp]).encode())
        print("PYTHONHASHSEED=%s" % s, json.loads(out)[0]["first"])

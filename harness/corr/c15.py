"""C15 — both reader generations and both file formats agree on structure content.

Inputs.  (a) generated single-conformer atom tables within PDB limits (G4 row format: 16 fields, fixed-point
numbers): 1-4 chains, residues numbered with negative numbers, gaps, steps back and insertion codes, standard /
deoxy / modified nucleotides and hetero groups, atom names with primes / leading digits / 4 characters, no alternate
location, one model (sometimes numbered != 1), every pair of atoms > 0.6 A apart, no atom name twice in a residue,
rows of a residue adjacent.  The P of a residue is placed at 2.4 A +- {1e-3, 1e-2, 0.1} (or exactly 2.4, or far)
from the O3' of the residue before it; nucleotides carry the glycosidic atoms (purine or pyrimidine set, sometimes
incomplete).  Each table is serialised to PDB and to mmCIF by the *independent* emitters of harness/gen/g4.py
(label_asym_id / label_seq_id different from the auth_ values, both mmCIF null markers).
(b) the structure files of /repo/tests that have no alternate location and one model (rule logged), through both
readers in their own format and — when the table fits the PDB limits — re-emitted in both formats.

Real code.  residue-level reader = `rnapolis.parser.read_3d_structure` (tertiary.Structure3D / Residue3D);
table-level reader = `rnapolis.parser_v2.parse_pdb_atoms / parse_cif_atoms` + `rnapolis.tertiary_v2.Structure`.

Specification (`spec` failures — the two real readers, or the two formats, disagree on what the statement names):
  * residues: keyed map (chain, number, insertion code, name) -> multiset of (atom name, x, y, z); floats compared
    exactly (both readers parse the same decimal text); every key once.  Residue order and atom order inside a
    residue are NOT compared (the statement does not pin them).  v1 identity = `Residue3D.auth` (the 4-tuple
    `ResidueAuth(chain, number, icode, name)`), v2 identity = `Residue.chain_id / residue_number / insertion_code /
    residue_name`.  Compared: v1 vs v2 in each format, PDB vs mmCIF in each reader.
  * connectivity: for every two residues that follow each other in a chain sorted by (number, insertion code):
    `Residue3D.is_connected` == `tertiary_v2.Residue.is_connected`, and both == (O3'...P distance < 2.4 A) computed
    exactly from the table; segments: `tertiary_v2.Structure.connected_residues` == the same walk made with
    `Residue3D.is_connected` over v1's residues, as sets of key tuples.  A pair within 1e-6 A of 2.4 A is undecided.
  * chi: |chi| of `Residue3D.chi` vs |chi| of `Structure.torsion_angles` for residues where both give a value
    (tolerance 1e-6 rad); residues whose four atoms are (nearly) collinear (model guard margin) are undecided.
Correspondence (`corr` failures): the Lean model (`rd.pdb`, `rd.cif`: Model/Readers.lean) against each real reader:
residues in the reader's own order with atoms in order and exact coordinates, v2 segments in order, connectivity
of consecutive pairs, quadrant and tan^2 of chi.
"""
import contextlib
import io
import math
import os
import random
import tempfile
import warnings
from fractions import Fraction as Fr

from core import Result, hexs, parallel_map
from gen import g4, g4v1

THR = Fr(12, 5)          # 2.4 A: the threshold the statement pins (bridge theorem `threshold_bridge`)
BAND = 1e-6
TOL = 1e-6
TMP = None

STD_PU = ["A", "G", "DA", "DG"]
STD_PY = ["C", "U", "DC", "DT", "T"]
MOD = ["PSU", "5MC", "H2U", "1MA", "OMG", "M2G", "7MG", "N"]
HET = ["HOH", "MG", "NA", "SO4", "GTP", "K"]
BACKBONE = ["P", "OP1", "OP2", "O5'", "C5'", "C4'", "O4'", "C3'", "O3'", "C2'", "O2'", "C1'"]
BASE_PU = ["N9", "C8", "N7", "C5", "C6", "N1", "C2", "N3", "C4", "O6", "N6", "N2"]
BASE_PY = ["N1", "C2", "O2", "N3", "C4", "O4", "N4", "C5", "C6", "C5M"]
EXTRA = ["H5'", "H5''", "HO2'", "H1'", "H8", "1H5'", "2H5'", "HO5'", "H2''", "HO3'", "H5'1", "2HO'", "O1P", "C1*", "H61"]
HETATOMS = {"HOH": ["O"], "MG": ["MG"], "NA": ["NA"], "K": ["K"], "SO4": ["S", "O1", "O2", "O3", "O4"],
            "GTP": ["PG", "O1G", "N9", "C4", "C1'", "O4'", "O3'", "P"]}
MARGINS = [("-1e-3", 2399), ("+1e-3", 2401), ("-1e-2", 2390), ("+1e-2", 2410), ("-0.1", 2300), ("+0.1", 2500),
           ("exact", 2400), ("bonded", 1600), ("far", 6100)]


def tmpdir():
    global TMP
    if TMP is None or not os.path.isdir(TMP):
        TMP = tempfile.mkdtemp(prefix="c15-")
    return TMP


# ------------------------------------------------------------------------------------------------ generator

def element_of(name):
    if name in ("MG", "NA", "K", "ZN"):
        return name
    for ch in name:
        if ch.isalpha():
            return ch
    return "C"


def conn_offset(rng):
    """(tag, offset in 1/1000 A) for the P relative to the O3' before it"""
    tag, d = rng.choice(MARGINS)
    r = rng.random()
    if r < 0.6 or tag == "exact":
        v = [0, 0, 0]
        v[rng.randrange(3)] = d * rng.choice([-1, 1])
        return tag, tuple(v)
    if r < 0.8 and d % 5 == 0:
        # 3-4-5 direction: exact length d
        a, b = 3 * d // 5, 4 * d // 5
        v = [a, b, 0]
        rng.shuffle(v)
        return tag, tuple(c * rng.choice([-1, 1]) for c in v)
    t, p = rng.uniform(0, math.pi), rng.uniform(0, 2 * math.pi)
    v = (round(d * math.sin(t) * math.cos(p)), round(d * math.sin(t) * math.sin(p)), round(d * math.cos(t)))
    return tag + "~", v


class Placer:
    """positions (1/1000 A) with every pair of atoms at least 0.6 A apart"""

    def __init__(self, rng, big):
        self.rng = rng
        self.pts = []
        self.origin = tuple(rng.choice([0, -30000, 40000, -800000, 9000000 - 200000]) if big else rng.choice([0, -20000, 15000])
                            for _ in range(3))
        self.span = 25

    def free(self, p):
        lim = 600 * 600
        return all((p[0] - q[0]) ** 2 + (p[1] - q[1]) ** 2 + (p[2] - q[2]) ** 2 >= lim for q in self.pts) and \
            all(-999999 <= c <= 9999999 for c in p)

    def fresh(self, near=None, radius=6000):
        rng = self.rng
        for _ in range(2000):
            if near is None:
                p = tuple(self.origin[k] + rng.randrange(-self.span * 1000, self.span * 1000 + 1) for k in range(3))
            else:
                p = tuple(near[k] + rng.randrange(-radius, radius + 1) for k in range(3))
            if self.free(p):
                self.pts.append(p)
                return p
        raise RuntimeError("no room")

    def at(self, p):
        if self.free(p):
            self.pts.append(p)
            return p
        return None


def gen_table(rng, size="small"):
    """one single-conformer table; returns (rows, meta)"""
    tags = set()
    big = rng.random() < 0.08
    P = Placer(rng, big)
    if big:
        tags.add("big-coordinates")
    nchains = rng.choice([1, 1, 2, 2, 3, 4]) if size == "small" else rng.choice([1, 2, 4, 6])
    chains = rng.sample(g4.CHAIN_ALPHABET, nchains)
    model = 1 if rng.random() < 0.85 else rng.choice([2, 7, 20, 9999])
    if model != 1:
        tags.add("model-not-1")
    residues = []   # (chain, num, icode, resname, record, [(name, xyz)])
    used = set()
    for ch in chains:
        nres = rng.randint(1, 4 if size == "small" else 9)
        num = rng.choice([1, 1, 1, 0, -3, -12, -999 + 5, 17, 98, 250, 998, 9990 - nres])
        prev_o3 = None
        centre = P.fresh()
        P.pts.pop()
        for _ in range(nres):
            icode = ""
            r = rng.random()
            if r < 0.15:
                icode = rng.choice("ABCXYZ")
                tags.add("icode")
            elif r < 0.85:
                num += rng.choice([1, 1, 1, 1, 2, 5])
            elif r < 0.93:
                num -= rng.choice([1, 2, 3])
                tags.add("number-steps-back")
            num = max(-999, min(9999, num))
            tries = 0
            while (ch, num, icode) in used and tries < 50:
                num = min(9999, num + 1)
                tries += 1
            if (ch, num, icode) in used:
                continue
            used.add((ch, num, icode))
            if num < 0:
                tags.add("negative-number")
            kind = rng.random()
            if kind < 0.12:
                rn = rng.choice(HET)
                rec = "HETATM"
                names = list(HETATOMS[rn])
                if len(names) > 2:
                    names = rng.sample(names, rng.randint(2, len(names)))
                tags.add("hetero")
            else:
                if kind < 0.5:
                    rn, base, chi = rng.choice(STD_PU), BASE_PU, ["N9", "C4"]
                elif kind < 0.85:
                    rn, base, chi = rng.choice(STD_PY), BASE_PY, ["N1", "C2"]
                else:
                    rn = rng.choice(MOD)
                    base, chi = rng.choice([(BASE_PU, ["N9", "C4"]), (BASE_PY, ["N1", "C2"])])
                    tags.add("modified")
                rec = "HETATM" if (rn in MOD and rng.random() < 0.5) else "ATOM"
                names = []
                if rng.random() < 0.9:
                    names.append("P")
                names += rng.sample([n for n in BACKBONE if n not in ("P", "O3'", "O4'", "C1'")], rng.randint(0, 4))
                gly = ["O4'", "C1'"] + chi
                if rng.random() < 0.15:
                    gly.remove(rng.choice(gly))
                    tags.add("chi-atom-missing")
                names += gly
                names += rng.sample([n for n in base if n not in chi], rng.randint(0, 3))
                if rng.random() < 0.3:
                    names += rng.sample(EXTRA, rng.randint(1, 2))
                if rng.random() < 0.9:
                    names.append("O3'")
                if rng.random() < 0.25:
                    rng.shuffle(names)
                    tags.add("atom-order-shuffled")
                seen = []
                for n in names:
                    if n not in seen:
                        seen.append(n)
                names = seen
            atoms = []
            for n in names:
                p = None
                if n == "P" and prev_o3 is not None and rng.random() < 0.9:
                    for _ in range(20):
                        tag, off = conn_offset(rng)
                        p = P.at(tuple(prev_o3[k] + off[k] for k in range(3)))
                        if p is not None:
                            tags.add("O3'-P:" + tag)
                            break
                if p is None:
                    p = P.fresh(near=centre, radius=5000 if n != "P" else 9000)
                atoms.append((n, p))
                if len(n) == 4:
                    tags.add("name4")
                if n[0].isdigit():
                    tags.add("name-leading-digit")
            o3 = [p for n, p in atoms if n == "O3'"]
            prev_o3 = o3[0] if o3 else None
            if o3:
                centre = o3[0]
            residues.append((ch, num, icode, rn, rec, atoms))
    if len(chains) > 1 and rng.random() < 0.08:
        rng.shuffle(residues)
        tags.add("residues-shuffled-across-chains")
    rows = []
    serial = rng.choice([1, 1, 1, 7, 1000, 90000])
    last = None
    for (ch, num, icode, rn, rec, atoms) in residues:
        if last is not None and ch != last:
            serial += 1
        last = ch
        for (n, p) in atoms:
            el = element_of(n) if rng.random() < 0.95 else ""
            rows.append({"record": rec, "serial": serial, "name": n, "altLoc": "", "resName": rn, "chain": ch, "resSeq": num,
                         "iCode": icode, "x": p[0], "y": p[1], "z": p[2], "occ": rng.choice([100, 100, 100, 50, 75, 0]),
                         "b": rng.randint(0, 9999), "element": el, "charge": rng.choice(["", "", "", "", "1+", "2-"]) if rec == "HETATM" else "",
                         "model": model})
            serial += 1
    meta = {"tags": sorted(tags), "nres": len(residues), "nchains": len(chains)}
    return rows, meta


def emit_cif(rows, rng):
    """mmCIF text by the independent emitter pieces of g4: label ids differ from auth ids, both null markers"""
    out = ["data_c15", "#", "loop_"] + ["_atom_site." + a for a in g4.CIF_ATTRS]
    lab, seq = {}, {}
    differ = rng.random() < 0.7
    for r in rows:
        nulls = (rng.choice("?."), rng.choice("?."))
        lc = ls = None
        if differ:
            lc = lab.setdefault(r["chain"], g4.CHAIN_ALPHABET[(len(lab) * 7 + 3) % 52])
            ls = seq.setdefault((r["chain"], r["resSeq"], r["iCode"]), len(seq) + 1)
        toks = g4.cif_tokens(r, lc, ls, nulls, False, None)
        out.append(" ".join(g4.cif_quote(t) for t in toks))
    out.append("#")
    return "\n".join(out) + "\n"


# ------------------------------------------------------------------------------------------------ real code

def sort_key(k):
    return (k[1], k[2] or "")


def walk_segments(chain_lists, conn):
    """the walk of `connected_residues` with connectivity `conn(i, j)` over per-chain sorted lists"""
    segs = []
    for lst in chain_lists:
        cur = []
        for r in lst:
            if not cur:
                cur = [r]
            elif conn(cur[-1], r):
                cur.append(r)
            else:
                if len(cur) > 1:
                    segs.append(cur)
                cur = [r]
        if len(cur) > 1:
            segs.append(cur)
    return segs


def fnum(v):
    return None if v is None or (isinstance(v, float) and math.isnan(v)) else float(v)


def real_v1(path):
    from rnapolis.parser import read_3d_structure
    with open(path) as f, contextlib.redirect_stdout(io.StringIO()), contextlib.redirect_stderr(io.StringIO()):
        s = read_3d_structure(f)
    rs = s.residues
    keys, out = [], []
    for r in rs:
        if r.auth is not None:
            k = (r.auth.chain, r.auth.number, r.auth.icode, r.auth.name)
        elif r.label is not None:
            k = (r.label.chain, r.label.number, None, r.label.name)
        else:
            k = (None, None, None, None)
        keys.append(k)
        out.append({"key": k, "letter": r.one_letter_name, "atoms": [(a.name, a.x, a.y, a.z) for a in r.atoms], "chi": fnum(r.chi)})
    chains = []
    for k in keys:
        if k[0] not in chains:
            chains.append(k[0])
    lists = [sorted([i for i, k in enumerate(keys) if k[0] == c], key=lambda i: sort_key(keys[i])) for c in chains]
    pairs = []
    for lst in lists:
        for i, j in zip(lst, lst[1:]):
            pairs.append((i, j, bool(rs[i].is_connected(rs[j]))))
    segs = walk_segments(lists, lambda i, j: rs[i].is_connected(rs[j]))
    return {"res": out, "pairs": pairs, "segs": segs}


def real_v2(text, fmt):
    from rnapolis.parser_v2 import parse_cif_atoms, parse_pdb_atoms
    from rnapolis.tertiary_v2 import Structure
    with warnings.catch_warnings(), contextlib.redirect_stdout(io.StringIO()), contextlib.redirect_stderr(io.StringIO()):
        warnings.simplefilter("ignore")
        df = parse_pdb_atoms(text) if fmt == "pdb" else parse_cif_atoms(text)
        st = Structure(df)
        rs = st.residues
        keys, out = [], []
        for r in rs:
            k = (r.chain_id, r.residue_number, r.insertion_code, r.residue_name)
            keys.append(k)
            out.append({"key": k, "atoms": [(a.name, float(a.coordinates[0]), float(a.coordinates[1]), float(a.coordinates[2]))
                                            for a in r.atoms_list]})
        ident = {id(r): i for i, r in enumerate(rs)}
        segs = [[ident[id(r)] for r in seg] for seg in st.connected_residues]
        chains = []
        for k in keys:
            if k[0] not in chains:
                chains.append(k[0])
        lists = [sorted([i for i, k in enumerate(keys) if k[0] == c], key=lambda i: sort_key(keys[i])) for c in chains]
        pairs = []
        for lst in lists:
            for i, j in zip(lst, lst[1:]):
                pairs.append((i, j, bool(rs[i].is_connected(rs[j]))))
        ta = st.torsion_angles
        chi = {}
        for _, row in ta.iterrows():
            ic = row["insertion_code"]
            ic = None if ic is None or (isinstance(ic, float) and math.isnan(ic)) else ic
            chi[(row["chain_id"], int(row["residue_number"]), ic, row["residue_name"])] = fnum(row["chi"])
        altcol = "altLoc" if fmt == "pdb" else "label_alt_id"
        modcol = "model" if fmt == "pdb" else "pdbx_PDB_model_num"
        has_alt = bool(altcol in df.columns and df[altcol].notna().any())
        nmodels = int(df[modcol].nunique()) if modcol in df.columns else 1
    return {"res": out, "pairs": pairs, "segs": segs, "chi": [(k, v) for k, v in chi.items()], "has_alt": has_alt,
            "nmodels": nmodels, "natoms": len(df)}


def close_pairs(text, fmt):
    """number of pairs of atom records within 0.5 A of each other (coordinates by an independent parse)"""
    import numpy as np
    from scipy.spatial import KDTree
    pts = []
    if fmt == "pdb":
        for line in text.split("\n"):
            if line[:6] in ("ATOM  ", "HETATM"):
                pts.append((float(line[30:38]), float(line[38:46]), float(line[46:54])))
    else:
        fd, path = tempfile.mkstemp(suffix=".cif", dir=tmpdir())
        with os.fdopen(fd, "w") as f:
            f.write(text)
        try:
            attrs, rows = g4v1.read_cif_tokens(path)
        finally:
            os.unlink(path)
        ix = [attrs.index(a) for a in ("Cartn_x", "Cartn_y", "Cartn_z")]
        pts = [tuple(float(r[i]) for i in ix) for r in rows]
    if len(pts) < 2:
        return 0
    return len(KDTree(np.array(pts)).query_pairs(0.5 + 1e-6))


def guarded(f, *a):
    try:
        return ("ok", f(*a))
    except Exception as e:  # noqa: BLE001
        return ("err", type(e).__name__, str(e)[:200])


def work(job):
    """one document in one format through both real readers (+ the mmCIF token table for the model)"""
    fmt, text = job["fmt"], job["text"]
    fd, path = tempfile.mkstemp(suffix="." + fmt, dir=tmpdir())
    with os.fdopen(fd, "w") as f:
        f.write(text)
    res = {}
    if job.get("before_text"):
        # another structure with the SAME residue identifiers but a different backbone geometry was read earlier in this
        # process: what is reported for the present document must not depend on it
        fd0, path0 = tempfile.mkstemp(suffix="." + fmt, dir=tmpdir())
        with os.fdopen(fd0, "w") as f:
            f.write(job["before_text"])
        try:
            guarded(real_v2, job["before_text"], fmt)
            guarded(real_v1, path0)
        finally:
            os.unlink(path0)
    try:
        res["v2"] = guarded(real_v2, text, fmt)
        if job.get("qualify"):
            res["close_pairs"] = close_pairs(text, fmt)
        if job.get("qualify_only"):
            return res
        res["v1"] = guarded(real_v1, path)
        if fmt == "cif":
            res["attrs"], res["rows"] = g4v1.read_cif_tokens(path)
    finally:
        os.unlink(path)
    return res


# ------------------------------------------------------------------------------------------------ model

def model_requests(fmt, text, w):
    if fmt == "pdb":
        return ["rd.pdb"] + [hexs(l) for l in text.split("\n")[:-1] if True]
    rows = ";".join(",".join(hexs(v) for v in row) for row in w["rows"]) or "-"
    return ["rd.cif", ",".join(w["attrs"]) or "-", rows]


def unhex(s):
    return "" if s == "-" else bytes.fromhex(s).decode("utf-8")


def parse_report(s):
    """'ok res=.. seg=.. pairs=.. chi=..' -> dict, or ('err', name)"""
    if s.startswith("err "):
        return ("err", s[4:])
    assert s.startswith("ok "), s[:80]
    parts = dict(p.split("=", 1) for p in s[3:].split(" ", 3))
    res = []
    if parts["res"] != "-":
        for r in parts["res"].split("|"):
            ident, atoms = r.split("@", 1)
            c, n, ic, nm = ident.split(":")
            al = []
            if atoms:
                for a in atoms.split("+"):
                    an, x, y, z = a.split(",")
                    al.append((unhex(an), Fr(x), Fr(y), Fr(z)))
            res.append({"key": (unhex(c), int(n), None if ic == "~" else unhex(ic), unhex(nm)), "atoms": al})
    segs = [] if parts["seg"] == "-" else [[int(i) for i in g.split(",")] for g in parts["seg"].split(";")]
    pairs = []
    if parts["pairs"] != "-":
        for p in parts["pairs"].split(","):
            ij, c1, c2, d = p.split(":")
            i, j = ij.split("-")
            pairs.append((int(i), int(j), c1 == "true", c2 == "true", None if d == "~" else Fr(d)))
    chi = [] if parts["chi"] == "-" else parts["chi"].split(",")
    return ("ok", {"res": res, "segs": segs, "pairs": pairs, "chi": chi})


# ------------------------------------------------------------------------------------------------ judging

def keyed(reslist):
    """key -> sorted atoms; None when a key occurs twice"""
    d = {}
    for r in reslist:
        if r["key"] in d:
            return None, r["key"]
        d[r["key"]] = sorted(r["atoms"])
    return d, None


def diff_keyed(a, b):
    """first difference between two keyed maps, or None"""
    for k in a:
        if k not in b:
            return "residue %r only in the first" % (k,)
    for k in b:
        if k not in a:
            return "residue %r only in the second" % (k,)
    for k in a:
        if a[k] != b[k]:
            x = [t for t in a[k] if t not in b[k]][:2]
            y = [t for t in b[k] if t not in a[k]][:2]
            return "residue %r: atoms differ: %r vs %r" % (k, x, y)
    return None


def dist_band(d2):
    """'yes' / 'no' / None (undecided) for sqrt(d2) < 2.4"""
    d = math.sqrt(float(d2))
    if abs(d - 2.4) <= BAND:
        return None
    return d2 < THR * THR


def exact_pairs(rows):
    """from the table: residue key3 -> {atom name: first (x, y, z) as Fractions}"""
    d = {}
    for r in rows:
        k = (r["chain"], r["resSeq"], r["iCode"] or None)
        d.setdefault(k, {}).setdefault(r["name"], (Fr(r["x"], 1000), Fr(r["y"], 1000), Fr(r["z"], 1000)))
    return d


def chi_close(a, b):
    return abs(abs(a) - abs(b)) <= TOL


class Observer:
    """for original corpus files (outside the quantifier: not serialised by the independent emitter) a disagreement of
    the two real readers is logged as an observation, not reported; the model correspondence still counts"""

    def __init__(self, res, name):
        self.res, self.name = res, name
        self.undecided = 0

    def __getattr__(self, k):
        return getattr(self.res, k)

    def fail(self, kind, signature, input, detail):
        if kind == "spec":
            self.res.count("observation on an original corpus file (not a verdict): " + signature)
            if len(self.res.notes) < 60:
                self.res.notes.append("observation %s %s: %s" % (self.name, signature, str(detail)[:300]))
        else:
            self.res.fail(kind, signature, input, detail)


def judge_case(res, case, outs, models):
    """outs: {fmt: work result}; models: {fmt: (report v1, report v2)}"""
    inp = case["input"]
    fam = case["family"]
    if fam == "corpus-original":
        real_res = res
        res = Observer(real_res, inp.get("file"))
        try:
            _judge_case(res, case, outs, models)
        finally:
            real_res.undecided += res.undecided
        return
    _judge_case(res, case, outs, models)


def _judge_case(res, case, outs, models):
    inp = case["input"]
    fam = case["family"]
    views = {}
    for fmt, w in outs.items():
        for gen in ("v1", "v2"):
            o = w.get(gen)
            if o is None:
                continue
            if o[0] != "ok":
                res.fail("spec", "C15:%s:%s:raises:%s" % (gen, fmt, o[1]), inp, "%s reader on %s raised %s: %s" % (gen, fmt, o[1], o[2]))
                continue
            views[(gen, fmt)] = o[1]
    # ---- residues: keyed maps
    maps = {}
    for (gen, fmt), v in views.items():
        m, dup = keyed(v["res"])
        if m is None:
            res.fail("spec", "C15:residues:%s:%s:residue-twice" % (gen, fmt), inp, "residue %r reported twice by %s on %s" % (dup, gen, fmt))
        else:
            maps[(gen, fmt)] = m
    for a, b, what in ((("v1", "pdb"), ("v2", "pdb"), "v1-vs-v2:pdb"), (("v1", "cif"), ("v2", "cif"), "v1-vs-v2:cif"),
                       (("v1", "pdb"), ("v1", "cif"), "pdb-vs-cif:v1"), (("v2", "pdb"), ("v2", "cif"), "pdb-vs-cif:v2")):
        if a in maps and b in maps:
            d = diff_keyed(maps[a], maps[b])
            res.count("compared residues " + what)
            if d is not None:
                res.fail("spec", "C15:residues:" + what, inp, "%s / %s: %s" % ("-".join(a), "-".join(b), d))
    # the table itself (generated inputs): what was written is what is read
    if case.get("rows") is not None:
        want = {}
        for r in case["rows"]:
            k = (r["chain"], r["resSeq"], r["iCode"] or None, r["resName"])
            want.setdefault(k, []).append((r["name"], r["x"] / 1000, r["y"] / 1000, r["z"] / 1000))
        want = {k: sorted(v) for k, v in want.items()}
        for key, m in maps.items():
            d = diff_keyed(want, m)
            if d is not None:
                res.fail("spec", "C15:residues:table-vs-%s:%s" % key, inp, "table / %s-%s: %s" % (key[0], key[1], d))
    # ---- connectivity
    for fmt in outs:
        if ("v1", fmt) not in views or ("v2", fmt) not in views:
            continue
        v1, v2 = views[("v1", fmt)], views[("v2", fmt)]
        k1 = [r["key"] for r in v1["res"]]
        k2 = [r["key"] for r in v2["res"]]
        p1 = {(k1[i], k1[j]): c for i, j, c in v1["pairs"]}
        p2 = {(k2[i], k2[j]): c for i, j, c in v2["pairs"]}
        exact = exact_pairs(case["rows"]) if case.get("rows") is not None else None
        undecided = False
        for pr in p1:
            if pr not in p2:
                continue
            verdict = "?"
            if exact is not None:
                a = exact.get(pr[0][:3], {}).get("O3'")
                b = exact.get(pr[1][:3], {}).get("P")
                if a is None or b is None:
                    verdict = False
                else:
                    verdict = dist_band(sum((a[q] - b[q]) ** 2 for q in range(3)))
            if verdict is None:
                undecided = True
                res.undecided += 1
                continue
            res.count("connectivity pairs compared")
            if verdict is True:
                res.count("pair connected")
            if p1[pr] != p2[pr]:
                res.fail("spec", "C15:connectivity:v1-vs-v2:" + fmt, inp, "pair %r: v1 is_connected=%s v2 is_connected=%s" % (pr, p1[pr], p2[pr]))
            elif verdict != "?" and p1[pr] != verdict:
                res.fail("spec", "C15:connectivity:threshold:" + fmt, inp,
                         "pair %r: both readers say %s, O3'-P below 2.4 A is %s" % (pr, p1[pr], verdict))
        if not undecided and set(p1) == set(p2):
            s1 = {tuple(k1[i] for i in seg) for seg in v1["segs"]}
            s2 = {tuple(k2[i] for i in seg) for seg in v2["segs"]}
            res.count("segment sets compared")
            if s1 != s2:
                res.fail("spec", "C15:segments:v1-vs-v2:" + fmt, inp,
                         "segments by Residue3D.is_connected %r, connected_residues %r" % (sorted(s1 - s2)[:2], sorted(s2 - s1)[:2]))
        # ---- chi magnitudes
        chi2 = dict(v2["chi"])
        mod = models.get(fmt)
        degenerate = set()
        if mod is not None and mod[1] is not None and mod[1][0] == "ok":
            m2 = mod[1][1]
            for r, c in zip(m2["res"], m2["chi"]):
                if c == "deg":
                    degenerate.add(r["key"])
        for r in v1["res"]:
            c1 = r["chi"]
            c2 = chi2.get(r["key"])
            if c1 is None or c2 is None:
                if c1 is not None:
                    res.count("chi only from v1 (v2 gives chi inside segments, for standard names)")
                continue
            if r["key"] in degenerate or min(abs(math.sin(c1)), abs(math.sin(c2))) < 1e-7 and abs(abs(c1) - abs(c2)) > TOL:
                res.undecided += 1
                continue
            res.count("chi magnitudes compared")
            if not chi_close(c1, c2):
                res.fail("spec", "C15:chi-magnitude:" + fmt, inp, "residue %r: chi v1 %.9f v2 %.9f" % (r["key"], c1, c2))
            elif abs(c1 + c2) > 1e-6 and abs(abs(c1) - math.pi) > 1e-6 and abs(c1) > 1e-6:
                res.count("chi with equal sign in both generations")
    # ---- correspondence: model vs each real reader
    for fmt, (m1, m2) in models.items():
        for gen, m in (("v1", m1), ("v2", m2)):
            o = outs[fmt].get(gen)
            if o is None or m is None:
                continue
            if m[0] == "err" or o[0] != "ok":
                if (m[0] == "err") != (o[0] != "ok"):
                    res.fail("corr", "C15:corr:%s:%s:error-mismatch" % (gen, fmt), inp, "model %r real %r" % (m[:2], o[:2]))
                continue
            mv, rv = m[1], o[1]
            res.count("model vs %s on %s" % (gen, fmt))
            if [r["key"] for r in mv["res"]] != [r["key"] for r in rv["res"]]:
                res.fail("corr", "C15:corr:%s:%s:residue-keys-or-order" % (gen, fmt), inp,
                         "model %r real %r" % ([r["key"] for r in mv["res"]][:6], [r["key"] for r in rv["res"]][:6]))
                continue
            bad = None
            for a, b in zip(mv["res"], rv["res"]):
                ma = [(n, float(x), float(y), float(z)) for n, x, y, z in a["atoms"]]
                if ma != [tuple(t) for t in b["atoms"]]:
                    bad = (a["key"], ma[:3], b["atoms"][:3])
                    break
            if bad:
                res.fail("corr", "C15:corr:%s:%s:atoms" % (gen, fmt), inp, "residue %r model %r real %r" % bad)
                continue
            band = set()
            for i, j, c1, c2, d in mv["pairs"]:
                if d is not None and dist_band(d) is None:
                    band.add((i, j))
            mp = {(i, j): (c1 if gen == "v1" else c2) for i, j, c1, c2, d in mv["pairs"]}
            rp = {(i, j): c for i, j, c in rv["pairs"]}
            if set(mp) != set(rp):
                res.fail("corr", "C15:corr:%s:%s:chain-order" % (gen, fmt), inp, "consecutive pairs model %r real %r" % (sorted(mp)[:5], sorted(rp)[:5]))
                continue
            for pr in mp:
                if pr not in band and mp[pr] != rp[pr]:
                    res.fail("corr", "C15:corr:%s:%s:is_connected" % (gen, fmt), inp, "pair %r model %s real %s" % (pr, mp[pr], rp[pr]))
            if not band:
                ms = mv["segs"]
                rsg = rv["segs"]
                same = (ms == rsg) if gen == "v2" else (sorted(map(tuple, ms)) == sorted(map(tuple, rsg)))
                if not same:
                    res.fail("corr", "C15:corr:%s:%s:segments" % (gen, fmt), inp, "model %r real %r" % (ms[:4], rsg[:4]))
            # chi: quadrant and tan^2
            real_chi = {}
            if gen == "v1":
                for r in rv["res"]:
                    real_chi[r["key"]] = (r["chi"], r["letter"])
            else:
                for k, v in rv["chi"]:
                    real_chi[k] = (v, None)
            for r, c in zip(mv["res"], mv["chi"]):
                if c in ("~", "deg") or r["key"] not in real_chi:
                    continue
                val, letter = real_chi[r["key"]]
                if gen == "v1":
                    nm = r["key"][3]
                    std = nm if len(nm) == 1 else (nm[1] if len(nm) == 2 and nm[0].upper() == "D" else None)
                    if std is None or letter != std:
                        continue      # one-letter name decided by rules outside the model (entity sequence, MODRES, atoms)
                if val is None:
                    res.fail("corr", "C15:corr:%s:%s:chi-missing" % (gen, fmt), inp, "residue %r model %s real none" % (r["key"], c))
                    continue
                sx, sy, t = c.split(" ")
                ok = True
                cs, sn = math.cos(val), math.sin(val)
                if abs(cs) > 1e-7 and (cs > 0) != (int(sx) > 0):
                    ok = False
                if abs(sn) > 1e-7 and (sn > 0) != (int(sy) > 0):
                    ok = False
                if ok and t != "inf" and abs(cs) > 1e-4 and abs(sn) > 1e-4:
                    tt = float(Fr(t))
                    if abs(math.tan(val) ** 2 - tt) > 1e-6 * max(1.0, tt):
                        ok = False
                res.count("model chi vs %s" % gen)
                if not ok:
                    res.fail("corr", "C15:corr:%s:%s:chi" % (gen, fmt), inp, "residue %r model %s real %.9f" % (r["key"], c, val))
    res.count("family " + fam)


# ------------------------------------------------------------------------------------------------ corpus

def corpus_rows(path):
    """the atom table of a corpus file by an independent parse, as G4 rows; None when it cannot be a table within
    PDB limits (then only the original file is used)"""
    rows = []
    if path.endswith(".pdb"):
        cur = 1
        for line in open(path).read().split("\n"):
            if line[:6] == "MODEL ":
                cur = int(line[10:14])
            elif line[:6] in ("ATOM  ", "HETATM"):
                try:
                    def fx(s, p):
                        q = Fr(s.strip())
                        v = q * 10 ** p
                        if v.denominator != 1:
                            raise ValueError
                        return int(v)
                    rows.append({"record": line[:6].strip(), "serial": int(line[6:11]), "name": line[12:16].strip(), "altLoc": line[16:17].strip(),
                                 "resName": line[17:20].strip(), "chain": line[21:22].strip(), "resSeq": int(line[22:26]),
                                 "iCode": line[26:27].strip(), "x": fx(line[30:38], 3), "y": fx(line[38:46], 3), "z": fx(line[46:54], 3),
                                 "occ": fx(line[54:60], 2), "b": fx(line[60:66] or "0", 2), "element": line[76:78].strip(),
                                 "charge": "", "model": cur})
                except ValueError:
                    return None
    else:
        attrs, toks = g4v1.read_cif_tokens(path)
        ix = {a: i for i, a in enumerate(attrs)}
        need = ["group_PDB", "id", "label_atom_id", "auth_asym_id", "auth_seq_id", "Cartn_x", "Cartn_y", "Cartn_z"]
        if any(a not in ix for a in need):
            return None

        def g(t, a, d=""):
            if a not in ix:
                return d
            v = t[ix[a]]
            return d if v in ("?", ".") else v
        for t in toks:
            try:
                def fx(s, p):
                    v = Fr(s) * 10 ** p
                    if v.denominator != 1:
                        raise ValueError
                    return int(v)
                rows.append({"record": g(t, "group_PDB"), "serial": int(g(t, "id")), "name": g(t, "auth_atom_id") or g(t, "label_atom_id"),
                             "altLoc": g(t, "label_alt_id"), "resName": g(t, "auth_comp_id") or g(t, "label_comp_id"),
                             "chain": g(t, "auth_asym_id"), "resSeq": int(g(t, "auth_seq_id")), "iCode": g(t, "pdbx_PDB_ins_code"),
                             "x": fx(g(t, "Cartn_x"), 3), "y": fx(g(t, "Cartn_y"), 3), "z": fx(g(t, "Cartn_z"), 3),
                             "occ": fx(g(t, "occupancy", "1.00"), 2), "b": fx(g(t, "B_iso_or_equiv", "0.00"), 2),
                             "element": g(t, "type_symbol"), "charge": "", "model": int(g(t, "pdbx_PDB_model_num", "1"))})
            except ValueError:
                return None
    if not rows or not all(g4.within_limits(r) for r in rows):
        return None
    return rows


def table_wellformed(rows):
    """the hypotheses of `readers_agree_*` on a table (python twin of `Readers.singleConformer`): for logging only"""
    seen_names = set()
    closed = set()
    last = None
    names = {}
    for r in rows:
        k3 = (r["chain"], r["resSeq"], r["iCode"])
        if (k3, r["resName"], r["name"]) in seen_names:
            return "atom name twice in a residue"
        seen_names.add((k3, r["resName"], r["name"]))
        if names.setdefault(k3, r["resName"]) != r["resName"]:
            return "two residue names under one (chain, number, icode)"
        if k3 != last:
            if k3 in closed:
                return "rows of a residue not adjacent"
            if last is not None:
                closed.add(last)
            last = k3
    return None


# ------------------------------------------------------------------------------------------------ entry points

def pmap_small(fn, items, nproc=8):
    """fork pool for a short list of heavy jobs (core.parallel_map runs lists shorter than 64 serially)"""
    from core import fork_map
    items = list(items)
    if len(items) < 2:
        return [fn(x) for x in items]
    return fork_map(fn, items, nproc=min(nproc, len(items)), chunksize=1)


def build_cases(ctx, res):
    rng = ctx.rng
    cases = []
    n = ctx.pick(260, 4000)
    for i in range(n):
        rows, meta = gen_table(rng, "small" if rng.random() < 0.8 else "large")
        rows = [r for r in rows]
        if not rows or not all(g4.within_limits(r) for r in rows):
            res.count("generated table outside limits (dropped)")
            continue
        pdb = g4.emit_pdb(rows, model_records=(rows[0]["model"] != 1 or rng.random() < 0.5), ter=rng.random() < 0.7)
        cif = emit_cif(rows, rng)
        case = {"family": "generated", "rows": rows, "meta": meta, "texts": {"pdb": pdb, "cif": cif},
                "input": {"family": "generated", "rows": [g4.wire(r) for r in rows], "pdb": pdb, "cif": cif}}
        if rng.random() < 0.25:
            # a look-alike read first: same identifiers, every P moved by 3 A (connected junctions break and vice versa)
            twin = [dict(r, x=r["x"] + 3000) if r["name"] == "P" and r["x"] + 3000 <= 9999999 else r for r in rows]
            case["before"] = {"pdb": g4.emit_pdb(twin), "cif": emit_cif(twin, random.Random(i))}
            case["input"]["read_before"] = case["before"]
            res.count("tag look-alike-read-before")
        cases.append(case)
        for t in meta["tags"]:
            res.count("tag " + t)
    return cases


def corpus_cases(ctx, res):
    cases = []
    cap = ctx.pick(3000, 10 ** 9)
    for path in g4v1.corpus_files():
        fmt = "cif" if path.endswith(".cif") else "pdb"
        text = open(path).read()
        natoms = sum(1 for l in text.split("\n") if l.startswith(("ATOM", "HETATM")))
        if natoms > cap:
            res.count("corpus file skipped in quick (more than %d atoms)" % cap)
            res.notes.append("corpus %s: skipped in quick (%d atoms)" % (os.path.basename(path), natoms))
            continue
        cases.append({"family": "corpus", "path": path, "fmt": fmt, "text": text, "natoms": natoms})
    return cases


def ask_parallel(ctx, reqs, nchunks=12):
    """the driver is single-threaded: split a long request list over several driver processes"""
    from concurrent.futures import ThreadPoolExecutor
    if len(reqs) < 2 * nchunks:
        return ctx.driver.ask(reqs)
    size = (len(reqs) + nchunks - 1) // nchunks
    chunks = [reqs[i:i + size] for i in range(0, len(reqs), size)]
    with ThreadPoolExecutor(max_workers=nchunks) as ex:
        parts = list(ex.map(ctx.driver.ask, chunks))
    return [a for p in parts for a in p]


def cif_rows_in_model(attrs, rows):
    """the typed-row model of the table-level reader (`Pdb.ofCifRow`) holds numbers with at most 3 (coordinates) / 2
    (occupancy, B) decimals and needs id / model number; other tables are outside it (the residue-level model has no limit)"""
    ix = {a: i for i, a in enumerate(attrs)}
    for a in ("id", "auth_seq_id", "Cartn_x", "Cartn_y", "Cartn_z", "occupancy", "B_iso_or_equiv", "pdbx_PDB_model_num"):
        if a not in ix:
            return False
    for row in rows:
        for a, p in (("Cartn_x", 3), ("Cartn_y", 3), ("Cartn_z", 3), ("occupancy", 2), ("B_iso_or_equiv", 2)):
            v = row[ix[a]]
            if "." in v and len(v.split(".", 1)[1]) > p:
                return False
            if v in ("?", "."):
                return False
    return True


def run_cases(ctx, res, cases, small=False):
    """cases with texts for one or two formats: real readers (pool), model (driver), judge"""
    jobs, index = [], []
    for k, c in enumerate(cases):
        for fmt in c["texts"]:
            jobs.append({"fmt": fmt, "text": c["texts"][fmt], "before_text": (c.get("before") or {}).get(fmt)})
            index.append((k, fmt))
    outs = (pmap_small if small else parallel_map)(work, jobs)
    reqs, rix = [], []
    for (k, fmt), o in zip(index, outs):
        c = cases[k]
        if len(c["texts"][fmt]) > c.get("model_cap_chars", 10 ** 12):
            continue
        reqs.append(model_requests(fmt, c["texts"][fmt], o))
        rix.append((k, fmt))
    answers = ask_parallel(ctx, reqs)
    models = {}
    for (k, fmt), ans in zip(rix, answers):
        a, b = ans.split(" ## ")
        m1, m2 = parse_report(a), parse_report(b)
        o = outs[index.index((k, fmt))]
        if fmt == "cif" and not cif_rows_in_model(o.get("attrs", []), o.get("rows", [])):
            m2 = None
            res.count("mmCIF table outside the typed-row model of the table-level reader (more decimals than PDB holds)")
        models.setdefault(k, {})[fmt] = (m1, m2)
    for k, c in enumerate(cases):
        o = {fmt: outs[i] for i, (kk, fmt) in enumerate(index) if kk == k}
        nres = c["meta"]["nres"] if "meta" in c else 2
        res.case((c["family"], c["input"].get("file"), c["input"].get("format"), tuple(c["input"].get("rows", []))), nontrivial=nres >= 2)
        judge_case(res, c, o, models.get(k, {}))


def run(ctx):
    import time
    t0 = time.time()
    res = Result("C15")
    res.rule = ("generated single-conformer atom tables within PDB limits (1-6 chains; negative numbers, gaps, steps back, insertion "
                "codes; standard/deoxy/modified nucleotides and hetero groups; names with primes, leading digits, 4 characters; "
                "one model, no altloc; all atoms > 0.6 A apart; P placed 2.4 A +-{1e-3,1e-2,0.1} / exactly / far from the "
                "previous O3'; glycosidic atoms of purines and pyrimidines, sometimes incomplete), each emitted as PDB and mmCIF "
                "by the independent emitters of harness/gen/g4.py (label ids != auth ids, both null markers), and the "
                "single-conformer single-model files of /repo/tests (rule: no altLoc / label_alt_id value, one model number, no "
                "two atom records within 0.5 A of each other) in their own format and re-emitted in both formats when the table "
                "fits PDB limits; non-trivial = at least two residues; distinct by content")
    cases = build_cases(ctx, res)
    run_cases(ctx, res, cases)
    res.notes.append("generated: %d tables, %.1fs" % (len(cases), time.time() - t0))
    for c in cases[:3]:
        res.sample({"family": "generated", "tags": c["meta"]["tags"], "residues": c["meta"]["nres"], "atoms": len(c["rows"]),
                    "pdb_head": c["texts"]["pdb"].split("\n")[:3]})
    # ---- corpus
    t1 = time.time()
    cc = corpus_cases(ctx, res)
    outs = pmap_small(work, [{"fmt": c["fmt"], "text": c["text"], "qualify_only": True, "qualify": True} for c in cc], nproc=16)
    cases2 = []
    for c, o in zip(cc, outs):
        name = os.path.basename(c["path"])
        v2 = o.get("v2")
        if v2 is None or v2[0] != "ok":
            res.notes.append("corpus %s: table-level reader raised %s" % (name, v2[1] if v2 else "?"))
            res.fail("spec", "C15:v2:%s:raises:%s" % (c["fmt"], v2[1] if v2 else "?"), {"family": "corpus", "file": name}, str(v2)[:300])
            continue
        why = None
        if v2[1]["has_alt"]:
            why = "alternate locations"
        elif v2[1]["nmodels"] != 1:
            why = "%d models" % v2[1]["nmodels"]
        elif o.get("close_pairs"):
            why = "%d pairs of atom records within 0.5 A: superposed conformers without altloc flags" % o["close_pairs"]
        if why:
            res.count("corpus file outside the quantifier (%s)" % why.split(":")[0].lstrip("0123456789 "))
            res.notes.append("corpus %s: outside the quantifier (%s)" % (name, why))
            continue
        res.notes.append("corpus %s: qualifies (%d atoms)" % (name, v2[1]["natoms"]))
        res.count("corpus file qualifies")
        text = c["text"] if c["text"].endswith("\n") else c["text"] + "\n"
        cases2.append({"family": "corpus-original", "rows": None, "texts": {c["fmt"]: text},
                       "input": {"family": "corpus", "file": name, "format": c["fmt"]}})
        rows = corpus_rows(c["path"])
        if rows is None:
            res.count("corpus table does not fit PDB limits / 3 decimals (original format only)")
            continue
        wf = table_wellformed(rows)
        if wf is not None:
            res.notes.append("corpus %s: %s (outside the hypotheses of readers_agree; compared all the same)" % (name, wf))
        texts = {"pdb": g4.emit_pdb(rows, model_records=False), "cif": emit_cif(rows, ctx.rng)}
        cases2.append({"family": "corpus-re-emitted", "rows": rows, "meta": {"nres": 2, "tags": []}, "texts": texts,
                       "input": {"family": "generated", "source": "corpus table " + name, "file": name,
                                 "rows": [g4.wire(r) for r in rows], "pdb": texts["pdb"], "cif": texts["cif"]}})
    run_cases(ctx, res, cases2, small=True)
    res.notes.append("corpus: %.1fs" % (time.time() - t1))
    return res


def replay(ctx, data):
    inp = data.get("input", data)
    res = Result("C15")
    if inp.get("family") in ("generated",) and "rows" in inp:
        rows = [g4.unwire(w) for w in inp["rows"]]
        case = {"family": "generated", "rows": rows, "meta": {"nres": 2, "tags": []}, "texts": {"pdb": inp["pdb"], "cif": inp["cif"]},
                "input": inp}
        if inp.get("read_before"):
            case["before"] = inp["read_before"]
        run_cases(ctx, res, [case], small=True)
    else:
        name = inp.get("file")
        path = os.path.join(os.environ.get("RNAPOLIS_TESTS", "/repo/tests"), name)
        fmt = "cif" if path.endswith(".cif") else "pdb"
        text = open(path).read()
        if inp.get("family") == "corpus-re-emitted":
            rows = corpus_rows(path)
            case = {"family": "corpus-re-emitted", "rows": rows, "meta": {"nres": 2, "tags": []},
                    "texts": {"pdb": g4.emit_pdb(rows, model_records=False), "cif": emit_cif(rows, ctx.rng)}, "input": inp}
            run_cases(ctx, res, [case], small=True)
        else:
            text = text if text.endswith("\n") else text + "\n"
            run_cases(ctx, res, [{"family": "corpus-original", "rows": None, "texts": {fmt: text}, "input": inp}], small=True)
    print("replay: %d failure(s)" % len(res.failures))
    for f in res.failures:
        print("  [%s] %s :: %s" % (f["kind"], f["signature"], f["detail"][:400]))
    return res


def shrink(ctx, failure):
    """drop residues (whole groups of rows) while the same signature is still produced"""
    from core import ddmin
    inp = failure["input"]
    if inp.get("family") != "generated" or "rows" not in inp:
        return failure
    rows = [g4.unwire(w) for w in inp["rows"]]
    groups = []
    for r in rows:
        k = (r["chain"], r["resSeq"], r["iCode"])
        if groups and groups[-1][0] == k:
            groups[-1][1].append(r)
        else:
            groups.append((k, [r]))
    sig = failure["signature"]

    def fails(gs):
        rr = [r for _, g in gs for r in g]
        r2 = Result("C15")
        case = {"family": "generated", "rows": rr, "meta": {"nres": len(gs), "tags": []},
                "texts": {"pdb": g4.emit_pdb(rr, model_records=rr[0]["model"] != 1), "cif": emit_cif(rr, __import__("random").Random(0))},
                "input": {"family": "generated", "rows": [g4.wire(r) for r in rr]}}
        case["input"]["pdb"], case["input"]["cif"] = case["texts"]["pdb"], case["texts"]["cif"]
        try:
            run_cases(ctx, r2, [case], small=True)
        except Exception:  # noqa: BLE001
            return None
        hit = [f for f in r2.failures if f["signature"] == sig]
        return hit[0] if hit else None
    best = {"f": None}

    def still(gs):
        h = fails(gs)
        if h:
            best["f"] = h
        return h is not None
    if not still(groups):
        return failure
    ddmin(groups, still, max_steps=40)
    return best["f"] or failure

"""C16 — the all-dot-brackets list is exactly the set of greedy-stable (Grundy) assignments.

Functional (as sets): BpSeq.all_dot_brackets vs the Lean `allDB` (proved in Props.C16 to enumerate exactly
the Grundy colourings of the conflict graph, one string per colouring).  Specification evaluated on the real
list: no repetition; every member lossless and its levels Grundy (`ss.check_levels`, conflictSpec); every
Grundy colouring present (the model's members, each re-checked Grundy, must all occur); contains the optimal
and the FCFS notation; a single round-bracket string for pseudoknot-free structures.
"""
from core import history_probe, call_timed, Result, call, parallel_map
from gen import g1
from corr import cli_annotator
from corr.c01 import component_sizes, components_ok


def real(case):
    seq, pairs = case[:2]
    if len(case) > 2 and case[2] == "text":
        # the object is read from BPSEQ text (as the tools do), with '?' placeholders among the residue symbols
        from rnapolis.common import BpSeq
        text = "\n".join("%d %s %d" % (i + 1, c, p) for i, (c, p) in enumerate(zip(seq, pairs))) + "\n"
        mk = lambda s_, p_: BpSeq.from_string(text)  # noqa: E731
    else:
        mk = g1.mk_bpseq
    b = mk(seq, pairs)
    out = {}
    out["all"] = call(lambda: [d.structure for d in b.all_dot_brackets])
    out["seqs_ok"] = all(d.sequence == seq for d in b.all_dot_brackets) if out["all"][0] == "ok" else None
    # the optimal and the FCFS notation are computed on ONE further object, which is then asked for the list: the list
    # of an object that has already been asked for other notations must be the list of a fresh one
    b2 = mk(seq, pairs)
    out["opt"] = call_timed(lambda: b2.dot_bracket.structure)
    out["fcfs"] = call(lambda: b2.fcfs.structure)
    if out["opt"][0] == "ok" and (len(pairs) + sum(pairs)) % 3 == 0 or len(case) > 2:
        out["all_after"] = call(lambda: [d.structure for d in b2.all_dot_brackets])
    return out


def tree_diagram(children, root=0):
    """chord diagram (one pair per stem) whose crossing graph is the given rooted tree: the chord of v spans the left
    ends of its children's chords; everything else of a child's subtree lies behind the right end of v, the subtrees
    of later children inside the chords of earlier ones"""
    def rest(v):
        out = [("L", c) for c in children.get(v, [])] + [("R", v)]
        for c in reversed(children.get(v, [])):
            out += rest(c)
        return out
    toks = [("L", root)] + rest(root)
    pos, pairs = {}, [0] * len(toks)
    for i, (side, v) in enumerate(toks):
        if side == "L":
            pos[v] = i
        else:
            pairs[pos[v]], pairs[i] = i + 1, pos[v] + 1
    return pairs


def tree_groups(rng, k):
    """a group of k crossing stems whose crossing graph is a tree: two levels suffice, first-fit can need many more
    (the binomial tree on 8 vertices has a greedy-stable assignment with 4 levels)"""
    children = {0: []}
    if k == 8 and rng.random() < 0.5:
        cnt = [0]

        def build(order):
            v = cnt[0]
            cnt[0] += 1
            children[v] = []
            for j in rng.sample(range(1, order), order - 1):
                children[v].append(build(j))
            return v
        build(4)
    else:
        for v in range(1, k):
            par = rng.randrange(v)
            children.setdefault(par, []).append(v)
            children.setdefault(v, [])
    pairs = tree_diagram(children)
    # sometimes an unrelated hairpin in front or behind (the group is then not the whole structure)
    r = rng.random()
    if r < 0.25:
        pairs = [4, 0, 0, 1] + [p + 4 for p in pairs]
    elif r < 0.5:
        n = len(pairs)
        pairs = pairs + [n + 4, 0, 0, n + 1]
    return (g1.seq_for(len(pairs), rng), pairs)


def graph_realisations(rng, kind, k):
    """chord diagrams whose conflict graph is a path / cycle / star / complete bipartite-like pattern"""
    # build by placing single pairs: each stem = one pair (i, j); crossing iff endpoints interleave
    if kind == "ladder":
        return g1.ladder(k)
    if kind == "path":
        # pairs (2t, 2t+3): consecutive ones cross, others don't
        n = 2 * k + 2
        pairs = [0] * n
        for t in range(k):
            i, j = 2 * t, 2 * t + 3
            pairs[i], pairs[j] = j + 1, i + 1
        return (g1.seq_for(n), pairs)
    if kind == "star":
        # one long pair crossed by k-1 short nested-free pairs
        n = 3 * k + 2
        pairs = [0] * n
        c = n // 2
        pairs[0], pairs[c] = c + 1, 1
        pos = 1
        for t in range(k - 1):
            i, j = pos, c + 1 + t * 0 + (k - 1 - t)
            if pairs[i] or pairs[j]:
                break
            pairs[i], pairs[j] = j + 1, i + 1
            pos += 1
        return (g1.seq_for(n), pairs)
    return g1.small_dense(rng)


def chord_diagram(rng, k):
    """k single-pair stems on 2k positions (random perfect matching); returns pairs (1-based partner list)"""
    pts = list(range(2 * k))
    rng.shuffle(pts)
    pairs = [0] * (2 * k)
    for t in range(k):
        a, b = pts[2 * t], pts[2 * t + 1]
        pairs[a], pairs[b] = b + 1, a + 1
    return pairs


def diagram_graph(pairs):
    st = sorted((i, p - 1) for i, p in enumerate(pairs) if p and p - 1 > i)
    adj = [set() for _ in st]
    for u, (k, l) in enumerate(st):
        for v, (m, n) in enumerate(st):
            if k < m < l < n:
                adj[u].add(v)
                adj[v].add(u)
    return adj


def connected(adj):
    seen, stack = {0}, [0]
    while stack:
        for y in adj[stack.pop()]:
            if y not in seen:
                seen.add(y)
                stack.append(y)
    return len(seen) == len(adj)


def twin_groups(rng, k):
    """two separate groups of k crossing stems with the same degree sequence (in 5'->3' order) but different wiring:
    look-alike groups, on which anything keyed by a lossy invariant of a group goes wrong"""
    for _ in range(400):
        a = chord_diagram(rng, k)
        ga = diagram_graph(a)
        if not connected(ga) or any(abs(p - 1 - i) == 1 for i, p in enumerate(a) if p):
            continue
        da = [len(x) for x in ga]
        for _ in range(400):
            b = chord_diagram(rng, k)
            gb = diagram_graph(b)
            if connected(gb) and [len(x) for x in gb] == da and gb != ga:
                off = len(a) + 1
                pairs = a + [0] + [p + off if p else 0 for p in b]
                return (g1.seq_for(len(pairs), rng), pairs)
    return None


def run(ctx):
    res = Result("C16")
    limit = ctx.pick(6, 8)
    res.rule = ("inputs: hand-made + corpus + every symmetric pairing on n<=N + planted/dense random + path/star/ladder conflict "
                "graphs; only structures whose groups of crossing stems have at most %d stems (enumeration is factorial); "
                "non-trivial = at least one crossing; distinct by (length, pairing)" % limit)
    rng = ctx.rng
    inputs = [("hand", c) for c in g1.handmade()] + [("corpus:" + n, c) for n, c in g1.corpus()]
    nmax = ctx.pick(8, 10)
    res.dist["exhaustive_nmax"] = nmax
    inputs += [("exh", c) for c in g1.exhaustive(nmax)]
    for _ in range(ctx.pick(1000, 15000)):
        inputs.append(("planted", g1.planted(rng, n=rng.randint(10, ctx.pick(120, 300)))))
    for _ in range(ctx.pick(1000, 15000)):
        inputs.append(("dense", g1.small_dense(rng)))
    for _ in range(ctx.pick(1500, 20000)):
        inputs.append(("tight", g1.tight(rng)))
    for k in range(2, limit + 1):
        for kind in ("ladder", "path", "star"):
            inputs.append((kind + str(k), graph_realisations(rng, kind, k)))
    for _ in range(ctx.pick(40, 400)):
        tw = twin_groups(rng, rng.choice([4, 5, 5]))
        if tw is not None:
            inputs.append(("twin-groups", tw))
    inputs = [(t, c) for t, c in inputs if components_ok(c[1], limit)]
    for _ in range(ctx.pick(16, 160)):
        inputs.append(("tree-groups", tree_groups(rng, rng.choice([6, 7, 8, 8]))))
    # read from BPSEQ text with '?' placeholders (what gap detection writes) among the unpaired residues
    knotted_inputs = [c for t, c in inputs if any(x > 1 for x in (component_sizes(c[1]) or []))]
    for seq, pairs in rng.sample(knotted_inputs, min(len(knotted_inputs), ctx.pick(60, 600))):
        free = [i for i, p in enumerate(pairs) if p == 0]
        if free:
            hit = set(rng.sample(free, max(1, len(free) // 3)))
            inputs.append(("placeholders-via-text", ("".join("?" if i in hit else ch for i, ch in enumerate(seq)), pairs)))
    outs = parallel_map(real, [c + ("after",) if t == "tree-groups" else c + ("text",) if t == "placeholders-via-text" else c for t, c in inputs])
    history_probe(ctx, res, real, [c for _, c in inputs], "all_dot_brackets")
    reqs, idx = [], []
    for ci, ((tag, (seq, pairs)), o) in enumerate(zip(inputs, outs)):
        ps = g1.pstr(pairs)
        reqs.append(["ss.alldb", seq, ps]); idx.append((ci, "model", None))
        if o["all"][0] == "ok":
            for s in o["all"][1]:
                reqs.append(["ss.lossless", seq, ps, s]); idx.append((ci, "lossless", s))
                reqs.append(["ss.levels", seq, ps, s]); idx.append((ci, "levels", s))
    resp = ctx.driver.ask(reqs)
    model_sets = {}
    lvreq, lvidx = [], []
    for (ci, what, s), r in zip(idx, resp):
        tag, (seq, pairs) = inputs[ci]
        inp = {"seq": seq, "pairs": pairs, "family": tag}
        if what == "model":
            model_sets[ci] = r
        elif what == "lossless":
            if r != "ok":
                res.fail("spec", "C16:member-not-lossless:%s" % r, inp, "member %r" % s)
        else:
            if "-" in r.split(","):
                res.fail("spec", "C16:member-stem-without-bracket", inp, "member %r" % s)
            else:
                lvreq.append(["ss.check_levels_noopt", seq, g1.pstr(pairs), r or "-"]); lvidx.append((ci, s))
    # the model's own members must be Grundy too (guards the model against drifting from its theorem)
    for ci, r in model_sets.items():
        tag, (seq, pairs) = inputs[ci]
        if r.startswith("ok "):
            for s in r[3:].split(","):
                lvreq.append(["ss.levels", seq, g1.pstr(pairs), s]); lvidx.append((ci, ("model", s)))
    resp = ctx.driver.ask(lvreq)
    second, sidx = [], []
    for (ci, s), r in zip(lvidx, resp):
        tag, (seq, pairs) = inputs[ci]
        inp = {"seq": seq, "pairs": pairs, "family": tag}
        if isinstance(s, tuple):
            second.append(["ss.check_levels_noopt", seq, g1.pstr(pairs), r or "-"]); sidx.append((ci, s[1]))
            continue
        d = dict(x.split("=") for x in r.split(" "))
        if d["proper"] != "true":
            res.fail("spec", "C16:member-improper", inp, "member %r puts crossing stems on one level" % s)
        elif d["grundy"] != "true":
            res.fail("spec", "C16:member-not-greedy-stable", inp, "member %r has a stem that is not on the lowest free level" % s)
    resp = ctx.driver.ask(second)
    for (ci, s), r in zip(sidx, resp):
        d = dict(x.split("=") for x in r.split(" "))
        if d["grundy"] != "true":
            tag, (seq, pairs) = inputs[ci]
            res.fail("corr", "C16:model-member-not-grundy", {"seq": seq, "pairs": pairs}, "model member %r" % s)
    for ci, ((tag, (seq, pairs)), o) in enumerate(zip(inputs, outs)):
        sizes = component_sizes(pairs) or []
        knotted = any(x > 1 for x in sizes)
        n, _ = g1.stats(seq, pairs)
        res.case((n, tuple(pairs)), nontrivial=knotted)
        res.count("family:" + tag.split(":")[0].rstrip("0123456789"))
        res.count("maxgroup=%d" % max(sizes or [0]))
        inp = {"seq": seq, "pairs": pairs, "family": tag}
        r = model_sets[ci]
        if o["all"][0] != "ok":
            impl = "err " + o["all"][1]
            if impl != r:
                res.fail("corr", "C16:all_dot_brackets:error", inp, "impl=%r model=%r" % (impl, r[:200]))
            if o["fcfs"][0] == "ok":
                res.fail("spec", "C16:raises:" + o["all"][1], inp, "all_dot_brackets raised although the structure needs at most 30 levels")
            continue
        members = o["all"][1]
        res.count("members", len(members))
        if len(set(members)) != len(members):
            res.fail("spec", "C16:repetition", inp, "a member occurs twice")
        if not o["seqs_ok"]:
            res.fail("spec", "C16:sequence", inp, "a member carries a different sequence")
        if r.startswith("ok "):
            mset = set(r[3:].split(","))
            iset = set(members)
            if mset != iset:
                res.fail("corr", "C16:set-differs", inp, "impl-only=%r model-only=%r" % (sorted(iset - mset)[:5], sorted(mset - iset)[:5]))
                if mset - iset:
                    res.fail("spec", "C16:grundy-assignment-missing", inp, "greedy-stable assignment(s) absent from the list: %r" % sorted(mset - iset)[:5])
        else:
            res.fail("corr", "C16:all_dot_brackets:error", inp, "impl ok, model=%r" % r)
        if "all_after" in o:
            res.count("list-of-an-object-asked-for-other-notations-first")
            if o["all_after"] != o["all"]:
                after = o["all_after"][1] if o["all_after"][0] == "ok" else []
                if r.startswith("ok ") and set(r[3:].split(",")) - set(after):
                    res.fail("spec", "C16:grundy-assignment-missing:after-other-notations", inp,
                             "asked for dot_bracket and fcfs first, the same object lists %d members (%r), a fresh one %d; greedy-stable "
                             "assignments absent: %r" % (len(after), o["all_after"][0], len(members), sorted(set(r[3:].split(",")) - set(after))[:5]))
                else:
                    res.fail("corr", "C16:corr:depends-on-earlier-calls:all_dot_brackets-after-other-notations", inp,
                             "fresh object: %r ... | after dot_bracket and fcfs: %r ..." % (members[:4], o["all_after"][1][:4] if o["all_after"][0] == "ok" else o["all_after"]))
        for k in ("opt", "fcfs"):
            if o[k][0] == "ok" and o[k][1] not in members:
                res.fail("spec", "C16:%s-not-a-member" % k, inp, "%r not in the list" % o[k][1])
        if not knotted and (len(members) != 1 or set(members[0]) - set("().")):
            res.fail("spec", "C16:knot-free-not-single-round", inp, "%r" % members[:3])
    mapping_lists(ctx, res)
    import corr.c16_impl as c16_impl; c16_impl.run_impl(ctx, res, inputs, outs)  # implementation-level model (DFS, greedy loop, list order)
    both = list(zip(inputs, outs))
    for (tag, c), o in both[::max(1, len(both) // 6)][:6]:
        res.sample({"family": tag, "seq": c[0][:30], "pairs": c[1][:30], "all": o["all"][1][:4] if o["all"][0] == "ok" else o["all"]})
    # the command-line tool as an observation point (harness/corr/cli_annotator.py)
    cli_annotator.judge(res, "C16", cli_annotator.evaluate(ctx))
    return res


def real_mapping(case):
    """Mapping2D3D.all_dot_brackets of a 3D structure + pair list, next to BpSeq.all_dot_brackets of its own BPSEQ"""
    from gen import g2
    from rnapolis.tertiary import Mapping2D3D
    structure = g2.build_structure(case["structure"])
    m = Mapping2D3D(structure, g2.build_pairs(structure, case["pairs"], case["mode"]), [], case["find_gaps"])
    st, v = call(lambda: ("".join(e.sequence for e in m.bpseq.entries), [e.pair for e in m.bpseq.entries]))
    if st != "ok":
        return {"bpseq": (st, v)}
    seq, partners = v
    out = {"bpseq": ("ok", v)}
    if not components_ok(partners, 6):
        return out
    out["strands"] = call(lambda: [[c, q] for c, q in m.strands_sequences])
    out["all3d"] = call(lambda: list(m.all_dot_brackets))
    out["all2d"] = call(lambda: [d.structure for d in g1.mk_bpseq(seq, partners).all_dot_brackets])
    return out


def mapping_lists(ctx, res):
    """the list at the 3D entry point: every member spells the strands of the structure in file order with their
    sequences, and the concatenated structure lines are, member by member, BpSeq.all_dot_brackets of the mapping's own
    BPSEQ (whose relation to the greedy-stable assignments the rest of this check establishes)"""
    from gen import g2
    from corr.c06 import lw_tables
    rng = ctx.rng
    _, lw_rev = lw_tables()
    cases = []
    while len(cases) < ctx.pick(300, 3000):
        sd = g2.synthetic(rng)
        s = g2.build_structure(sd)
        if not g2.unique_ok(s):
            continue
        letters = [r.one_letter_name for r in g2.nucleotides(s)]
        pairs, _ = g2.random_pairs(rng, letters, lw_rev=lw_rev)
        cases.append({"structure": sd, "pairs": pairs, "mode": "auth", "find_gaps": rng.random() < 0.5})
    outs = parallel_map(real_mapping, cases)
    for c, o in zip(cases, outs):
        if "all3d" not in o:
            res.count("mapping:skipped")
            continue
        inp = dict(c, family="mapping")
        strands = o["strands"][1] if o["strands"][0] == "ok" else None
        res.count("mapping:strands=%s" % (min(len(strands), 4) if strands is not None else "?"))
        if strands is not None and len({x for x, _ in strands}) < len(strands):
            res.count("mapping:chain-identifier-on-several-strands")
        if o["all3d"][0] != "ok" or o["all2d"][0] != "ok" or strands is None:
            if o["all2d"][0] == "ok":
                res.fail("spec", "C16:mapping:raises:%s" % (o["all3d"][1] if o["all3d"][0] != "ok" else o["strands"][1]), inp,
                         "Mapping2D3D.all_dot_brackets raised")
            continue
        res.case(("mapping", repr(c["structure"])[:300], repr(c["pairs"])), nontrivial=len(o["all2d"][1]) > 1)
        res.count("mapping:members", len(o["all3d"][1]))
        want = []
        for member in o["all2d"][1]:
            lines, k = [], 0
            for chain, q in strands:
                lines += [">strand_%s" % chain, q, member[k:k + len(q)]]
                k += len(q)
            want.append("\n".join(lines))
        if o["all3d"][1] != want:
            bad = next((a for a, b in zip(o["all3d"][1], want) if a != b), None)
            res.fail("spec", "C16:mapping:list-is-not-the-list-of-its-bpseq", inp,
                     "Mapping2D3D.all_dot_brackets has %d members, BpSeq.all_dot_brackets of its BPSEQ %d; first differing member %r, expected %r"
                     % (len(o["all3d"][1]), len(want), bad, want[o["all3d"][1].index(bad)] if bad in o["all3d"][1] and o["all3d"][1].index(bad) < len(want) else None))


def replay(ctx, data):
    if cli_annotator.is_cli(data.get("input")):
        return cli_annotator.replay_cli("C16", data["input"])
    if data["input"].get("family") == "mapping":
        print(real_mapping(data["input"]))
        return
    inp = data["input"]
    o = real((inp["seq"], inp["pairs"], "text" if inp.get("family") == "placeholders-via-text" else "after"))
    print("impl:", o)
    print("model:", ctx.driver.ask1("ss.alldb", inp["seq"], g1.pstr(inp["pairs"])))

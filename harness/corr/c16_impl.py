"""C16, implementation level — `BpSeq.all_dot_brackets` against the step-by-step Lean model `allDBImpl`
(Model/AllDBImpl.lean; proved in Props/C16Impl.lean to return, for EVERY iteration order of every set it
iterates, a permutation of what the specification model `allDB` returns, and to have a list ORDER that is a
function of the iteration orders of the sets `unique[i]` alone).

Nothing in /repo is instrumented.  The iteration orders are *measured* on the running CPython and handed to the
model as parameters:

  sigma  a harness-side copy of the graph construction (`defaultdict(set)`, `itertools.combinations`, the
         crossing test on `BpSeq._BpSeq__regions`, `graph[i].add(j); graph[j].add(i)`) yields sets with the same
         insertion history as the ones inside `all_dot_brackets`; `list(graph[v])` is their iteration order;
  tau    the driver (`ss.alldb_impl.sets`) returns, for that sigma, the components in discovery order and the
         members of every `unique[i]` in the order in which the loop over `itertools.permutations(component)`
         first inserts them; the harness inserts equal frozensets of `(region, order)` tuples into a fresh `set`
         in that order and reads `list(...)`.

ASSUMPTION (CPython, recorded in WP_DFS_NOTES.md): two sets of ints / of frozensets of int pairs built by the same
sequence of first insertions iterate in the same order (their hashes do not involve PYTHONHASHSEED; adding a
member that is already present does not change the table).  Note that the order is NOT ascending in general
(`list({8, 1}) == [8, 1]`), which is why it is measured and not postulated.

Comparisons (all `corr`; signatures `C16:corr:impl:<what>`):
  graph                 the model's graph (keys in insertion order, member sets) = the harness copy
  set / length          the returned list as a set, its length, no repetition
  product-count         len(list) = product of len(unique[i])   (the de-duplication removes nothing on valid input)
  component-assignments for every component of the model, the projections of the real members' levels onto it are
                        exactly the model's unique[i]; stems outside all components are on level 0; the real list,
                        as level vectors, is the full product over the model's components
  list-order            the list IN ORDER = the model's list for the measured sigma / tau
"""
import itertools
from collections import defaultdict

from gen import g1

BRACKETS = "([{<ABCDEFGHIJKLMNOPQRSTUVWXYZ"
# an order difference with equal sets means the model no longer mirrors the traversal of the code (or the CPython
# assumption above is wrong): reported as a correspondence failure.  Set to False to only count it.
ORDER_IS_CORR = True
# the enumeration is factorial: structures whose real list is longer than this are left to the set-level check of
# corr/c16.py (a group of 8 mutually crossing stems has 40 320 members; the model needs about a minute for it; 7 stems = 5 040 members take half a second)
MAX_MEMBERS = 6000
# groups of 8 stems cost the model about 0.8 s per structure (8! permutations, twice); at most this many of them per run,
# evenly spaced over the input stream (only the thorough tier generates them)
MAX_BIG = 400


def harness_graph(regions):
    """copy of the construction loop of all_dot_brackets (same insertion history, hence same set iteration order)"""
    graph = defaultdict(set)
    for i, j in itertools.combinations(range(len(regions)), 2):
        k, l, _ = regions[i]
        m, n, _ = regions[j]
        if (k < m < l < n) or (m < k < n < l):
            graph[i].add(j)
            graph[j].add(i)
    return graph


def max_group(graph):
    """size of the largest connected component of the harness copy of the graph"""
    seen, best = set(), 0
    for v in graph:
        if v in seen:
            continue
        seen.add(v)
        stack, size = [v], 1
        while stack:
            for w in graph[stack.pop()]:
                if w not in seen:
                    seen.add(w)
                    stack.append(w)
                    size += 1
        best = max(best, size)
    return best


def sigma_spec(graph):
    if not graph:
        return "-"
    return ";".join("%d:%s" % (v, ",".join(str(w) for w in graph[v])) for v in graph)


def parse_sets(ans):
    """'graph=… comps=… sets=…' -> (graph string, components, per component list of tuples of (region, order))"""
    parts = dict(x.split("=", 1) for x in ans.split(" "))
    comps = [[int(x) for x in c.split(",")] for c in parts["comps"].split(";")] if parts["comps"] else []
    sets = []
    if parts["sets"]:
        for c in parts["sets"].split(";"):
            sets.append([tuple(tuple(int(y) for y in it.split("=")) for it in fs.split(",")) for fs in c.split("|")])
    return parts["graph"], comps, sets


def measured_tau(sets):
    """iteration order of a set of frozensets built by the given sequence of first insertions"""
    out = []
    for members in sets:
        s = set()
        for items in members:
            s.add(frozenset(items))
        out.append([tuple(sorted(fs)) for fs in s])
    return out


def tau_spec(tau):
    return ";".join("|".join(",".join("%d=%d" % it for it in fs) for fs in comp) for comp in tau)


def levels_of(regions, structure):
    return [BRACKETS.index(structure[r[0] - 1]) if structure[r[0] - 1] in BRACKETS else None for r in regions]


def run_impl(ctx, res, inputs=None, outs=None):
    """inputs: [(tag, (seq, pairs))], outs: the dicts of corr.c16.real (key 'all'); when absent a small own set is run"""
    if inputs is None:
        from corr.c16 import real
        from corr.c01 import components_ok
        inputs = [("hand", c) for c in g1.handmade()] + [("exh", c) for c in g1.exhaustive(7)]
        inputs = [(t, c) for t, c in inputs if components_ok(c[1], 6)]
        outs = [real(c) for _, c in inputs]
    todo = []
    for (tag, (seq, pairs)), o in zip(inputs, outs):
        if o["all"][0] != "ok":
            continue  # errors are compared by the main check
        if len(o["all"][1]) > MAX_MEMBERS:
            res.count("impl:skipped-large")
            continue
        try:
            regions = list(g1.mk_bpseq(seq, pairs)._BpSeq__regions)
        except Exception:  # noqa: BLE001
            continue
        graph = harness_graph(regions)
        todo.append({"tag": tag, "seq": seq, "pairs": pairs, "ps": g1.pstr(pairs), "regions": regions, "graph": graph,
                     "sigma": sigma_spec(graph), "real": o["all"][1]})
    big = [i for i, t in enumerate(todo) if max_group(t["graph"]) >= 8]
    if len(big) > MAX_BIG:
        keep = {big[(j * len(big)) // MAX_BIG] for j in range(MAX_BIG)}
        drop = set(big) - keep
        res.count("impl:skipped-budget", len(drop))
        todo = [t for i, t in enumerate(todo) if i not in drop]
    ans = ctx.driver.ask([["ss.alldb_impl.sets", t["seq"], t["ps"], t["sigma"]] for t in todo])
    reqs = []
    for t, a in zip(todo, ans):
        inp = {"seq": t["seq"], "pairs": t["pairs"], "family": t["tag"], "sigma": t["sigma"]}
        t["inp"] = inp
        try:
            gs, comps, sets = parse_sets(a)
        except Exception:  # noqa: BLE001
            res.fail("corr", "C16:corr:impl:model-answer", inp, "ss.alldb_impl.sets -> %r" % a[:300])
            t["skip"] = True
            reqs.append(["ss.alldb_impl.list", t["seq"], t["ps"], t["sigma"], "-"])
            continue
        t["comps"], t["sets"] = comps, sets
        mine = ";".join("%d:%s" % (v, ",".join(str(w) for w in sorted(t["graph"][v]))) for v in t["graph"])
        theirs = ";".join("%s:%s" % (e.split(":")[0], ",".join(sorted(e.split(":")[1].split(","), key=int)))
                          for e in gs.split(";")) if gs else ""
        if mine != theirs:
            res.fail("corr", "C16:corr:impl:graph", inp, "harness copy %r, model %r" % (mine[:300], theirs[:300]))
        t["tau"] = measured_tau(sets)
        inp["tau"] = tau_spec(t["tau"])
        reqs.append(["ss.alldb_impl.list", t["seq"], t["ps"], t["sigma"], inp["tau"] if sets else "-"])
    ans = ctx.driver.ask(reqs)
    n_order = n_knotted = 0
    for t, a in zip(todo, ans):
        if t.get("skip"):
            continue
        inp, real = t["inp"], t["real"]
        res.count("impl:cases")
        if not a.startswith("ok "):
            res.fail("corr", "C16:corr:impl:model-answer", inp, "impl ok (%d members), model %r" % (len(real), a[:200]))
            continue
        model = a[3:].split(",")
        if len(set(real)) != len(real) or len(set(model)) != len(model):
            res.fail("corr", "C16:corr:impl:repetition", inp, "impl %d/%d distinct, model %d/%d distinct"
                     % (len(set(real)), len(real), len(set(model)), len(model)))
        if set(real) != set(model):
            res.fail("corr", "C16:corr:impl:set", inp, "impl-only=%r model-only=%r"
                     % (sorted(set(real) - set(model))[:4], sorted(set(model) - set(real))[:4]))
        elif len(real) != len(model):
            res.fail("corr", "C16:corr:impl:length", inp, "impl %d, model %d" % (len(real), len(model)))
        if t["comps"]:
            n_knotted += 1
            res.count("impl:components=%d" % min(len(t["comps"]), 4))
            expect = 1
            for s in t["sets"]:
                expect *= len(s)
            if expect != len(real):
                res.fail("corr", "C16:corr:impl:product-count", inp,
                         "impl list has %d members, product of the model's unique[i] sizes is %d" % (len(real), expect))
            # the real members, as level vectors, against the model's components
            lv = [levels_of(t["regions"], s) for s in real]
            if any(None in v for v in lv):
                res.fail("corr", "C16:corr:impl:component-assignments", inp, "a stem without bracket in a member")
            else:
                inside = {r for c in t["comps"] for r in c}
                bad = None
                for c, s in zip(t["comps"], t["sets"]):
                    key = sorted(c)
                    proj = {tuple((r, v[r]) for r in key) for v in lv}
                    if proj != set(s):
                        bad = "component %r: impl assignments %r, model unique %r" % (c, sorted(proj)[:4], sorted(s)[:4])
                        break
                if bad is None and any(v[r] != 0 for v in lv for r in range(len(t["regions"])) if r not in inside):
                    bad = "a stem outside every component of the model is not on level 0"
                if bad is None and len({tuple(v) for v in lv}) != expect:
                    bad = "the impl level vectors are not the full product over the model's components"
                if bad:
                    res.fail("corr", "C16:corr:impl:component-assignments", inp, bad)
        if set(real) == set(model) and len(real) == len(model) and real != model:
            n_order += 1
            if ORDER_IS_CORR:
                first = next(i for i, (x, y) in enumerate(zip(real, model)) if x != y)
                res.fail("corr", "C16:corr:impl:list-order", inp,
                         "same members, different order from position %d: impl %r model %r (sigma/tau measured on this CPython)"
                         % (first, real[first:first + 3], model[first:first + 3]))
    res.count("impl:knotted", n_knotted)
    res.count("impl:order-differs", n_order)
    res.notes.append("implementation-level model: %d structures (%d with crossing stems) compared with allDBImpl under the "
                     "measured CPython iteration orders; list order differed on %d" % (len(todo), n_knotted, n_order))


def replay_impl(ctx, data):
    """re-run one stored input through the real code and the implementation-level model (optional hook for
    corr.c16.replay: `import corr.c16_impl as c16_impl; c16_impl.replay_impl(ctx, data)`)"""
    from corr.c16 import real
    inp = data["input"]
    case = (inp["seq"], inp["pairs"])
    res = type("R", (), {"failures": [], "dist": {}, "notes": [],
                         "fail": lambda self, *a: self.failures.append(a),
                         "count": lambda self, k, n=1: self.dist.__setitem__(k, self.dist.get(k, 0) + n)})()
    run_impl(ctx, res, [(inp.get("family", "replay"), case)], [real(case)])
    for f in res.failures:
        print("impl-level:", f[1], f[3])
    if not res.failures:
        print("impl-level: model and code agree (set, length, components, list order)")

"""C17 — clash detection equals the pairwise van-der-Waals definition.

`find_clashes` for all 32 option combinations against the Lean model (`clash.find` mirrors the
code as written, `clash.spec` reads the occupancies literally — the statement's "occupancy sum 1");
`clashfinder.main` (in-process, patched argv/stdout, temporary input file) against the model's
report (`clash.report`) and against the statement itself: printed maxima = maxima over the listed
atom clashes, listing = clash list, CSV rows = clash list.
"""
import contextlib
import csv
import io
import itertools
import json
import os
import re
import sys
import tempfile
from fractions import Fraction

from core import history_probe, Result, ddmin
from gen import g3

OPTION_NAMES = ["ignore_occupancy", "ignore_autoclashes", "nucleic_acid_only", "require_same_atom_name", "enable_molprobity_mode"]
ALL_OPTS = ["".join(b) for b in itertools.product("01", repeat=5)]
TOL = 1e-9
_CASES = []


def opt_flags(o):
    return [c == "1" for c in o]


# ----------------------------------------------------------------------------- find_clashes
def real_find(job):
    """(case index, options) -> [(i, j, occupancy sum)] in the order returned | ('err', text)"""
    ci, o = job
    from rnapolis.clashfinder import find_clashes
    st = _CASES[ci][1]
    idx = g3.atom_index(st)
    try:
        found = find_clashes(st.residues, *opt_flags(o))
    except Exception as e:  # noqa: BLE001
        return ("err", type(e).__name__ + ": " + str(e)[:200])
    return [(idx[id(ai)], idx[id(aj)], float(s)) for (ri, ai), (rj, aj), s in found]


def parse_find_many(resp):
    if not resp.startswith("ok "):
        raise ValueError("model response %r" % resp[:200])
    return [parse_find("ok " + seg) for seg in resp[3:].split("|")]


def parse_find(resp):
    parts = resp.split(" ")
    if parts[0] != "ok" or len(parts) != 3:
        raise ValueError("model response %r" % resp[:200])
    found = {}
    if parts[1] != "-":
        for t in parts[1].split(","):
            ij, occ = t.split(":")
            a, b = ij.split("-")
            found[(int(a), int(b))] = Fraction(occ)
    und = set()
    if parts[2] != "-":
        for t in parts[2].split(","):
            a, b = t.split("-")
            und.add((int(a), int(b)))
    return found, und


def atom_names(st):
    out = []
    for r in st.residues:
        for a in r.atoms:
            out.append("%s %s" % (r, a.name))
    return out


def compare_find(st, o, impl, model, und, kind, what):
    """impl list against a model answer; kind = 'corr' (mirror) or 'spec' (literal reading)"""
    fails = []
    touched = 0
    if isinstance(impl, tuple):
        return [("spec", "C17:find_clashes:raises:" + impl[1].split(":")[0], impl[1])], 0
    names = None
    seen = {}
    for i, j, s in impl:
        if (i, j) in seen or (j, i) in seen:
            names = names or atom_names(st)
            fails.append(("spec", "C17:find_clashes:duplicate", "pair %s / %s listed twice" % (names[i], names[j])))
        seen[(i, j)] = s
    for (i, j), s in seen.items():
        if (i, j) in model:
            if abs(float(model[(i, j)]) - s) > TOL and kind == "corr":
                fails.append(("corr", "C17:find_clashes:occupancy-sum", "pair %d-%d impl=%r model=%s" % (i, j, s, model[(i, j)])))
        elif (i, j) in und or (j, i) in und:
            touched += 1
        else:
            names = names or atom_names(st)
            fails.append((kind, "C17:find_clashes:%s:unjustified" % what,
                          "options %s: %s / %s listed (sum %r) but is not a clash by the definition" % (o, names[i], names[j], s)))
    for (i, j), s in model.items():
        if (i, j) not in seen:
            if (i, j) in und or (j, i) in und:
                touched += 1
                continue
            names = names or atom_names(st)
            fails.append((kind, "C17:find_clashes:%s:missing" % what,
                          "options %s: %s / %s is a clash by the definition (occupancy sum %s) but is not listed" % (o, names[i], names[j], s)))
    return fails, touched


# ----------------------------------------------------------------------------- main()
RE_CHAIN1 = re.compile(r"^Clashes found in chain (.*?) with maximum occupancy sum equal to (\S+)$")
RE_CHAIN2 = re.compile(r"^Clashes found between chains (.*?) and (.*?) with maximum occupancy sum equal to (\S+)$")
RE_RES1 = re.compile(r"^    Clashes found in residue (.*?) with maximum occupancy sum equal to (\S+)$")
RE_RES2 = re.compile(r"^    Clashes found between residues (.*?) and (.*?) with maximum occupancy sum equal to (\S+)$")
RE_ATOM = re.compile(r"^        Clashes found between atoms (.*?) and (.*?) with occupancy sum of (\S+)$")


def parse_stdout(text):
    """-> [ [ci, cj, max, [ [ri, rj, max, [(ai, aj, occ)]] ] ] ]  or None when a line is not understood"""
    chains = []
    for line in text.splitlines():
        if not line.strip():
            continue
        m = RE_CHAIN1.match(line)
        if m:
            chains.append([m.group(1), m.group(1), float(m.group(2)), []])
            continue
        m = RE_CHAIN2.match(line)
        if m:
            chains.append([m.group(1), m.group(2), float(m.group(3)), []])
            continue
        m = RE_RES1.match(line)
        if m and chains:
            chains[-1][3].append([m.group(1), m.group(1), float(m.group(2)), []])
            continue
        m = RE_RES2.match(line)
        if m and chains:
            chains[-1][3].append([m.group(1), m.group(2), float(m.group(3)), []])
            continue
        m = RE_ATOM.match(line)
        if m and chains and chains[-1][3]:
            chains[-1][3][-1][3].append((m.group(1), m.group(2), float(m.group(3))))
            continue
        return None
    return chains


def run_main(path, o, want_csv=True):
    """clashfinder.main() in-process on a file -> dict(stdout, csv text | None, exception name | None,
    request, pairs (as find_clashes lists them on the same file), names)"""
    import rnapolis.clashfinder as CF
    from rnapolis.parser import read_3d_structure
    argv = ["clashfinder", path]
    flags = ["--ignore-occupancy", "--ignore-autoclashes", "--nucleic-acid-only", "--require-same-atom-name", "--enable-molprobity-mode"]
    argv += [f for f, c in zip(flags, o) if c == "1"]
    csv_path = None
    if want_csv:
        fd, csv_path = tempfile.mkstemp(suffix=".csv", dir=os.path.dirname(path))
        os.close(fd)
        os.unlink(csv_path)
        argv += ["--csv", csv_path]
    out = io.StringIO()
    exc = None
    old = sys.argv
    sys.argv = argv
    try:
        with contextlib.redirect_stdout(out), contextlib.redirect_stderr(io.StringIO()):
            CF.main()
    except SystemExit as e:
        if e.code not in (0, None):
            exc = "SystemExit"
    except Exception as e:  # noqa: BLE001
        exc = type(e).__name__
    finally:
        sys.argv = old
    csv_text = None
    if csv_path and os.path.exists(csv_path):
        with open(csv_path) as f:
            csv_text = f.read()
        os.unlink(csv_path)
    with open(path) as f:
        st = read_3d_structure(f, 1)
    idx = g3.atom_index(st)
    found = CF.find_clashes(st.residues, *opt_flags(o))
    pairs = [(idx[id(ai)], idx[id(aj)], float(s)) for (ri, ai), (rj, aj), s in found]
    rows = [("%s" % ri, "%s" % rj, ai.name, aj.name, float(s)) for (ri, ai), (rj, aj), s in found]
    return {"stdout": out.getvalue(), "csv": csv_text, "exc": exc, "request": g3.to_request(st), "pairs": pairs, "rows": rows,
            "residues": [str(r) for r in st.residues], "atom_res": [ri for ri, r in enumerate(st.residues) for _ in r.atoms],
            "atom_name": [a.name for r in st.residues for a in r.atoms]}


def real_main(job):
    ci, o, fmt = job
    tag, st = _CASES[ci][0], _CASES[ci][1]
    if fmt == "path":
        return run_main(_CASES[ci][2], o)
    with tempfile.TemporaryDirectory(prefix="c17-") as d:
        # every third file carries a comma in its name (the name goes into the CSV), every other mmCIF file writes
        # occupancies below 1 without the leading zero (.50 is a CIF number like 0.50)
        stem = "synthetic,v2" if ci % 3 == 0 else "synthetic"
        if fmt == "pdb":
            path = os.path.join(d, stem + ".pdb")
            g3.write_pdb(st, path)
        else:
            path = os.path.join(d, stem + ".cif")
            g3.write_cif(st, path, metadata=(fmt == "cif-meta"), short_occupancy=(ci % 2 == 0))
        return run_main(path, o)


def close(a, b):
    return abs(a - b) <= TOL * max(1.0, abs(a), abs(b))


def msort(rows):
    return sorted(rows, key=lambda r: tuple(str(x) for x in r[:-1]) + (round(r[-1], 9),))


def same_rows(a, b):
    a, b = msort(a), msort(b)
    return len(a) == len(b) and all(x[:-1] == y[:-1] and close(x[-1], y[-1]) for x, y in zip(a, b))


def parse_report(resp):
    """'ok C:..,R:..,A:..,... csvrows' -> (chains like parse_stdout but residues/atoms by index, csv rows)"""
    parts = resp.split(" ")
    if parts[0] != "ok" or len(parts) != 3:
        raise ValueError("model response %r" % resp[:200])
    unhex = lambda h: "" if h == "-" else bytes.fromhex(h).decode()  # noqa: E731
    chains = []
    if parts[1] != "-":
        for t in parts[1].split(","):
            f = t.split(":")
            if f[0] == "C":
                chains.append([unhex(f[1]), unhex(f[2]), Fraction(f[3]), []])
            elif f[0] == "R":
                chains[-1][3].append([int(f[1]), int(f[2]), Fraction(f[3]), []])
            else:
                chains[-1][3][-1][3].append((int(f[1]), int(f[2]), Fraction(f[3])))
    rows = []
    if parts[2] != "-":
        for t in parts[2].split(","):
            f = t.split(":")
            rows.append((unhex(f[0]), unhex(f[1]), float(Fraction(f[2]))))
    return chains, rows


def check_main(o, fmt, r, model_resp):
    """-> list of (kind, signature, detail)"""
    fails = []
    listed = parse_stdout(r["stdout"])
    if listed is None:
        return [("corr", "C17:main:stdout-format", "cannot parse: %r" % r["stdout"][:300])]
    impl_rows = r["rows"]
    # --- the statement, on the printed text itself
    printed = []
    for ci, cj, cmax, groups in listed:
        sub = [occ for _, _, _, atoms in groups for _, _, occ in atoms]
        if sub and not close(cmax, max(sub)):
            fails.append(("spec", "C17:main:chain-maximum",
                          "options %s: chains %s/%s printed maximum %r, maximum over the listed atom clashes is %r" % (o, ci, cj, cmax, max(sub))))
        for ri, rj, rmax, atoms in groups:
            occs = [occ for _, _, occ in atoms]
            if occs and not close(rmax, max(occs)):
                fails.append(("spec", "C17:main:residue-maximum",
                              "options %s: residues %s/%s printed maximum %r, maximum over the listed atom clashes is %r" % (o, ri, rj, rmax, max(occs))))
            for ai, aj, occ in atoms:
                printed.append((ri, rj, ai, aj, occ))
    if not same_rows(printed, impl_rows):
        fails.append(("spec", "C17:main:listing", "options %s: %d atom clashes printed, find_clashes lists %d (or different ones)" % (o, len(printed), len(impl_rows))))
    # --- CSV
    want = [("%s %s" % (ri, ai), "%s %s" % (rj, aj), occ) for ri, rj, ai, aj, occ in impl_rows]
    meta = "with-metadata" if fmt in ("cif-meta",) else ("corpus-file" if fmt == "path" else "without-metadata")
    if impl_rows:
        if r["csv"] is None:
            fails.append(("spec", "C17:main:csv:raises:%s:%s" % (r["exc"], meta),
                          "options %s --csv: %s raised, no CSV written although %d clashes are listed" % (o, r["exc"], len(impl_rows))))
        else:
            rd = list(csv.reader(io.StringIO(r["csv"])))
            try:
                h = rd[0]
                k1, k2, k3 = h.index("Atom 1"), h.index("Atom 2"), h.index("Occupancy sum")
                got = [(x[k1], x[k2], float(x[k3])) for x in rd[1:] if x]
            except Exception as e:  # noqa: BLE001
                got = None
                fails.append(("spec", "C17:main:csv:format", "unreadable CSV: %s" % e))
            if got is not None and not same_rows(got, want):
                fails.append(("spec", "C17:main:csv:rows", "options %s: CSV has %d rows, clash list %d (or different ones)" % (o, len(got), len(want))))
            if r["exc"]:
                fails.append(("spec", "C17:main:csv:raises:%s:%s" % (r["exc"], meta), "raised after writing the CSV"))
    elif r["exc"]:
        fails.append(("spec", "C17:main:raises:%s" % r["exc"], "options %s: main raised %s" % (o, r["exc"])))
    # --- the model's report for the same clash list in the same order
    try:
        mchains, mrows = parse_report(model_resp)
    except Exception as e:  # noqa: BLE001
        return fails + [("corr", "C17:main:model-report", str(e))]
    res = r["residues"]
    an = r["atom_name"]
    a = [(ci, cj, round(cm, 9), [(ri, rj, round(rm, 9), msort(at)) for ri, rj, rm, at in gs]) for ci, cj, cm, gs in listed]
    b = [(ci, cj, round(float(cm), 9), [(res[ri], res[rj], round(float(rm), 9), msort([(an[x], an[y], float(oc)) for x, y, oc in at]))
                                      for ri, rj, rm, at in gs]) for ci, cj, cm, gs in mchains]
    if a != b:
        # tolerate float noise in the comparison of sums
        def flat(x):
            return [(ci, cj, cm, [(ri, rj, rm, [t[:2] for t in at]) for ri, rj, rm, at in gs]) for ci, cj, cm, gs in x]
        if flat(a) != flat(b):
            fails.append(("corr", "C17:main:report", "options %s: printed report differs from the model's: impl=%r model=%r" % (o, str(a)[:400], str(b)[:400])))
    if r["csv"] is not None and impl_rows and not same_rows(mrows, want):
        fails.append(("corr", "C17:main:csv-model", "model CSV rows differ from the clash list"))
    return fails


# ----------------------------------------------------------------------------- inputs
def has_zero_occ(st):
    return any(a.occupancy == 0.0 for r in st.residues for a in r.atoms)


def build_inputs(ctx):
    rng = ctx.rng
    cases = []  # (tag, structure, path|None, list of option strings)
    paths = dict(g3.corpus_paths())
    corpus = g3.corpus()
    for n, s in corpus:
        na = g3.n_atoms(s)
        if na > ctx.pick(2700, 10 ** 6):
            continue
        if na <= 1000 or (not ctx.quick and na <= 3000):
            opts = ALL_OPTS
        elif not ctx.quick:
            opts = ["00000", "11111", "00001", "10000"] + rng.sample(ALL_OPTS, 4)
        else:
            opts = (["00000", "11111", "00001", "10000"] + rng.sample(ALL_OPTS, 2)) if na <= 1900 else ["10001", rng.choice(ALL_OPTS)]
        cases.append(("corpus:" + n, s, paths[n] if not n.endswith(".gz") else None, sorted(set(opts))))
    small = [(n, s) for n, s in corpus if g3.n_atoms(s) <= 1000]
    reps = ctx.pick(1, 5)
    perms = g3.axis_permutations()
    for n, s in small:
        for _ in range(reps):
            w = g3.window(s, rng, ctx.pick(8, 14))
            some = rng.sample(ALL_OPTS, ctx.pick(6, 32))
            half = rng.sample(ALL_OPTS, ctx.pick(12, 32))
            cases.append(("rigid", g3.random_rigid(w, rng), None, some))
            cases.append(("axis-perm", g3.rigid(w, rng.choice(perms), g3.random_translation(rng)), None, some))
            for sigma in (0.01, 0.05, 0.2):
                cases.append(("jitter%g" % sigma, g3.jitter(w, rng, sigma), None, half))
            cases.append(("jitter0.5+occupancies", g3.random_occupancies(g3.jitter(w, rng, 0.5), rng, 0.6), None, ALL_OPTS))
            cases.append(("thin", g3.thin(w, rng, 0.1, 0.2), None, some))
            cases.append(("shuffle-atoms", g3.shuffle_atoms(w, rng), None, some))
            # identities that differ only in the insertion code (with the same-residue option on in half of the runs)
            cases.append(("icode-siblings", g3.icode_siblings(g3.jitter(w, rng, 0.3), rng), None,
                          sorted(set(rng.sample([o for o in ALL_OPTS if o[1] == "1"], 3) + rng.sample([o for o in ALL_OPTS if o[1] == "0"], 2)))))
            cases.append(("occupancies", g3.random_occupancies(w, rng, 0.5), None, half))
            sp = g3.split_residue(g3.jitter(w, rng, 0.3), rng)
            if sp is not None:
                cases.append(("split-residue", sp, None, some))
    for rep in range(ctx.pick(1, 4)):
        for tag, st in g3.clash_straddles(rng):
            if rng.random() < 0.5:
                st = g3.random_occupancies(st, rng, 0.4)
            cases.append(("straddle:" + tag, st, None, ALL_OPTS if not ctx.quick else rng.sample(ALL_OPTS[0::2], 4) + rng.sample(ALL_OPTS[1::2], 4)))
    for _ in range(ctx.pick(60, 600)):
        cases.append(("partial-occupancy", g3.clash_partial(rng, rng.randint(2, 4)), None, ALL_OPTS))
    for _ in range(ctx.pick(20, 200)):
        cases.append(("partial-occupancy:icode-siblings", g3.icode_siblings(g3.clash_partial(rng, rng.randint(2, 3)), rng), None, ALL_OPTS))
    for _ in range(ctx.pick(24, 200)):
        st = g3.clash_coincident(rng)
        if rng.random() < 0.4:
            st = g3.random_occupancies(st, rng, 0.4)
        cases.append(("coincident-atoms", st, None, ALL_OPTS if not ctx.quick else rng.sample(ALL_OPTS, 8)))
    for n, s in small[: ctx.pick(3, 12)]:
        for _ in range(ctx.pick(2, 4)):
            alt = g3.with_alt_conformers(g3.window(s, rng, 12), rng)
            if alt is not None:
                cases.append(("alternate-conformers-in-one-residue", alt, None, ALL_OPTS))
    cases += handmade()
    cases = [c for c in cases if g3.well_formed(c[1], allow_repeated_identity=c[0] == "split-residue") and c[1].residues]
    return cases


def handmade():
    """two carbon atoms 1.0 A apart (radius sum 1.2) with every occupancy pair, in one residue and in two"""
    from rnapolis.common import ResidueAuth
    from rnapolis.tertiary import Atom, Residue3D
    out = []
    for oa, ob in g3.OCC_PAIRS:
        for split in (False, True):
            a1 = ResidueAuth("A", 1, None, "G")
            a2 = ResidueAuth("A", 2, None, "G") if split else a1
            x = Atom(None, None, a1, 1, "C1'", 0.0, 0.0, 0.0, oa)
            y = Atom(None, None, a2, 1, "C2'", 1.0, 0.0, 0.0, ob)
            if split:
                rs = [Residue3D(None, a1, 1, "G", (x,)), Residue3D(None, a2, 1, "G", (y,))]
            else:
                rs = [Residue3D(None, a1, 1, "G", (x, y))]
            out.append(("hand", g3.mk_structure(rs), None, ALL_OPTS))
    return out


def main_jobs(ctx, cases):
    rng = ctx.rng
    jobs = []
    for ci, (tag, st, path, opts) in enumerate(cases):
        fam = tag.split(":")[0]
        if path is not None and g3.n_atoms(st) <= ctx.pick(3000, 10 ** 6):
            # fixed: molprobity mode alone / with occupancies ignored, and --nucleic-acid-only alone / with both (files whose
            # entity tables and residue contents disagree about what a nucleotide is: 4qln.cif has two c-di-AMP ligands)
            for o in (["00001", "10001"] + (["00100", "10101"] if path.endswith(".cif") and g3.n_atoms(st) <= 4000 else []) + rng.sample(ALL_OPTS, ctx.pick(2, 8))):
                jobs.append((ci, o, "path"))
        elif path is None and g3.n_atoms(st) <= 1200:
            p = {"straddle": 0.06, "partial-occupancy": 0.5, "hand": 1.0}.get(fam, 0.5)
            if rng.random() < p * ctx.pick(1.0, 2.0):
                o = rng.choice(ALL_OPTS) if rng.random() < 0.6 else rng.choice(["10001", "00001", "10000"])
                jobs.append((ci, o, rng.choice(["cif-meta", "cif-meta", "cif-nometa", "pdb"])))
    return jobs


def par(fn, items):
    from core import fork_map
    items = list(items)
    if len(items) < 8:
        return [fn(x) for x in items]
    return fork_map(fn, items, nproc=16, chunksize=max(1, len(items) // 256))


def _ask(shard):
    from core import Driver
    return Driver().ask(shard)


def ask_sharded(ctx, reqs):
    if not reqs:
        return []
    # balance by request length (longest first, round robin)
    order = sorted(range(len(reqs)), key=lambda i: -len(reqs[i][-1]))
    shards = [[] for _ in range(16)]
    for k, i in enumerate(order):
        shards[k % 16].append(i)
    outs = par(_ask, [[reqs[i] for i in sh] for sh in shards]) if len(reqs) >= 16 else [_ask([reqs[i] for i in sh]) for sh in shards]
    resp = [None] * len(reqs)
    for sh, o in zip(shards, outs):
        for i, r in zip(sh, o):
            resp[i] = r
    ctx.driver.lines += len(reqs)
    return resp


def run(ctx):
    global _CASES
    res = Result("C17")
    res.rule = ("inputs: repository corpus files (all 32 option combinations up to 1000 atoms, a sample above); windows of them "
                "rigidly moved, jittered (sigma 0.01/0.05/0.2/0.5 A), thinned, atom-shuffled, with random partial occupancies "
                "(incl. 0.0 and missing); synthetic contacts at r_a + r_b (+0.5) +-{1e-3, 1e-2, 0.1} for all 16 type pairs; "
                "overlapping residue copies with occupancy pairs on/off sum 1; clashfinder.main in-process on corpus files and on "
                "generated mmCIF (with and without exptl/refine) and PDB files with --csv. "
                "evaluation = one (structure, option combination); non-trivial = at least one clash listed by model or code; "
                "distinct by (exact coordinates, options)")
    cases = build_inputs(ctx)
    _CASES = cases
    jobs = [(ci, o) for ci, c in enumerate(cases) for o in c[3]]
    impls = par(real_find, jobs)
    history_probe(ctx, res, real_find, jobs, "find_clashes", describe=lambda j: {"case": _CASES[j[0]][0], "options": j[1]})
    impl_of = {job: impl for job, impl in zip(jobs, impls)}
    reqs, what = [], []
    zero_of = {}
    for ci, c in enumerate(cases):
        body = g3.to_request(c[1])
        zero_of[ci] = has_zero_occ(c[1])
        opts = list(c[3])
        # big structures: one request per few option combinations (parallelism); small ones: one request
        step = len(opts) if g3.n_atoms(c[1]) <= 400 else 4
        for k in range(0, len(opts), step):
            reqs.append(["clash.find", ",".join(opts[k:k + step]), body]); what.append((ci, opts[k:k + step], "find"))
        lit = [o for o in opts if o[0] == "0"] if zero_of[ci] else []
        if lit:
            reqs.append(["clash.spec", ",".join(lit), body]); what.append((ci, lit, "spec"))
    resp = ask_sharded(ctx, reqs)
    for (ci, os_, kind), rr in zip(what, resp):
      for o, (model, und) in zip(os_, parse_find_many(rr)):
        tag, st = cases[ci][0], cases[ci][1]
        impl = impl_of[(ci, o)]
        if kind == "find":
            fails, touched = compare_find(st, o, impl, model, und, "corr", "mirror")
            # where the model mirrors the code and no occupancy quirk is possible, the mirror IS the definition
            if not zero_of[ci] or o[0] == "1":
                fails = [("spec", s.replace(":mirror:", ":"), d) if k == "corr" and ":mirror:" in s else (k, s, d) for k, s, d in fails]
            res.undecided += touched
            res.case((ci, o), nontrivial=bool(model) or (not isinstance(impl, tuple) and bool(impl)))
            res.count("family:" + tag.split(":")[0])
            res.count("options:" + o)
            res.count("clashes(model)", len(model))
            res.count("pairs-undecided-by-model", len(und))
        else:
            fails, touched = compare_find(st, o, impl, model, und, "spec", "literal-occupancy")
            res.count("literal-occupancy checks")
        for k, sig, d in fails:
            res.fail(k, sig, {"kind": "find", "family": tag, "options": o, "structure": g3.to_json(st)}, d)
    # ---- the command-line tool
    mj = main_jobs(ctx, cases)
    outs = par(real_main, mj)
    reqs = [["clash.report", r["request"], ",".join("%d-%d" % (i, j) for i, j, s in r["pairs"]) or "-"] for r in outs]
    resp = ask_sharded(ctx, reqs)
    for (ci, o, fmt), r, mr in zip(mj, outs, resp):
        tag, st, path = cases[ci][0], cases[ci][1], cases[ci][2]
        res.case(("main", ci, o, fmt), nontrivial=bool(r["pairs"]))
        res.count("main:" + fmt)
        res.count("main:clashes-listed", len(r["pairs"]))
        listed = parse_stdout(r["stdout"]) or []
        res.count("main:chain-groups", len(listed))
        res.count("main:chain-groups-with-differing-sums", sum(1 for c in listed if len({round(x[2], 9) for g in c[3] for x in g[3]}) > 1))
        for k, sig, d in check_main(o, fmt, r, mr):
            inp = {"kind": "main", "family": tag, "options": o, "format": fmt}
            if fmt == "path":
                inp["path"] = path
            else:
                inp["structure"] = g3.to_json(st)
            res.fail(k, sig, inp, d)
    for tag, st, path, opts in cases[:3] + cases[len(cases) // 2: len(cases) // 2 + 3]:
        res.sample({"family": tag, "residues": [str(r) for r in st.residues][:6], "atoms": g3.n_atoms(st), "options": len(opts)})
    __import__("corr.fn_common", fromlist=["run_fn"]).run_fn(ctx, res, "C17")  # regenerated functions vs the real ones (tools/py2lean.py)
    return res


# ----------------------------------------------------------------------------- replay / shrink
def check_find(ctx, st, o):
    global _CASES
    _CASES = [("replay", st, None, [o])]
    impl = real_find((0, o))
    body = g3.to_request(st)
    model, und = parse_find(ctx.driver.ask1("clash.find", o, body))
    fails, _ = compare_find(st, o, impl, model, und, "corr", "mirror")
    if not has_zero_occ(st) or o[0] == "1":
        fails = [("spec", s.replace(":mirror:", ":"), d) if k == "corr" and ":mirror:" in s else (k, s, d) for k, s, d in fails]
    spec, sund = parse_find(ctx.driver.ask1("clash.spec", o, body))
    f2, _ = compare_find(st, o, impl, spec, sund, "spec", "literal-occupancy")
    return impl, model, spec, fails + f2


def check_main_one(ctx, inp):
    global _CASES
    o, fmt = inp["options"], inp["format"]
    st = g3.from_json(inp["structure"]) if "structure" in inp else None
    _CASES = [("replay", st, inp.get("path"), [o])]
    r = real_main((0, o, fmt))
    mr = ctx.driver.ask1("clash.report", r["request"], ",".join("%d-%d" % (i, j) for i, j, s in r["pairs"]) or "-")
    return r, check_main(o, fmt, r, mr)


def shrink(ctx, failure):
    inp = failure["input"]
    sig = failure["signature"]
    if "structure" not in inp:
        return failure
    st = g3.from_json(inp["structure"])

    def fails_of(s):
        if inp["kind"] == "find":
            return check_find(ctx, s, inp["options"])[3]
        return check_main_one(ctx, dict(inp, structure=g3.to_json(s)))[1]

    def still(rs):
        try:
            return any(f[1] == sig for f in fails_of(g3.mk_structure(rs)))
        except Exception:  # noqa: BLE001
            return False
    rs = ddmin(list(st.residues), still, max_steps=120)
    # then atoms, residue by residue
    for k in range(len(rs)):
        def still_atoms(atoms, k=k):
            return still(rs[:k] + [g3.mk_residue(rs[k], atoms)] + rs[k + 1:])
        atoms = ddmin(list(rs[k].atoms), still_atoms, max_steps=80)
        rs[k] = g3.mk_residue(rs[k], atoms)
    s = g3.mk_structure(rs)
    f = [x for x in fails_of(s) if x[1] == sig]
    if not f:
        return failure
    out = dict(failure)
    out["input"] = dict(inp, structure=g3.to_json(s))
    out["detail"] = f[0][2]
    return out


def replay(ctx, data):
    inp = data["input"]
    if inp["kind"] == "find":
        st = g3.from_json(inp["structure"])
        impl, model, spec, fails = check_find(ctx, st, inp["options"])
        names = atom_names(st)
        print("options:", dict(zip(OPTION_NAMES, opt_flags(inp["options"]))))
        print("atoms:", [(n, a.occupancy) for n, a in zip(names, [a for r in st.residues for a in r.atoms])][:40])
        print("impl              :", [(names[i], names[j], s) for i, j, s in impl] if not isinstance(impl, tuple) else impl)
        print("model (as written):", [(names[i], names[j], str(s)) for (i, j), s in model.items()])
        print("model (literal occ):", [(names[i], names[j], str(s)) for (i, j), s in spec.items()])
    else:
        r, fails = check_main_one(ctx, inp)
        print("argv options:", dict(zip(OPTION_NAMES, opt_flags(inp["options"]))), "format:", inp["format"], inp.get("path", ""))
        print("stdout:\n" + r["stdout"])
        print("csv:", r["csv"], "exception:", r["exc"])
        print("find_clashes on the same file:", r["rows"][:40])
    print("failures:", json.dumps(fails, indent=1))

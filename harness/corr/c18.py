"""C18 — torsion angles follow the IUPAC convention in both implementations.

Part (i)  constructed quadruples.  A quadruple with *prescribed* dihedral phi is built in exact rational
arithmetic (rational points on the unit circle for phi and both bond angles, rational bond lengths),
moved by a random proper rigid motion (rational rotation from an integer quaternion, rational shift),
rounded once to floats F.  The real functions get F; the Lean model gets the exact rational value of
every float in F (so model and code see the same input) and must agree with the code in quadrant and
tan^2 (correspondence).  Specification (on the real code only): returned value = phi (1e-6), range,
reversal keeps the value, mirror image negates it, the two implementations agree.  Families `random`
(arbitrary non-degenerate rational quadruples; expected value = exact IUPAC formula evaluated in
rationals) and `degenerate` (guards) complete the stream.

Part (ii)  corpus.  Every backbone torsion and chi of corpus structures through both code paths
(tertiary.py: Residue3D / torsion_angle on parser.py atoms;  tertiary_v2: Structure.torsion_angles table on
parser_v2 atoms), each compared with the exact IUPAC value of its own four atoms; chi of A-form
(C3'-endo) residues must be anti, about -160 degrees, in each table the library produces.

Signatures name call site + failure class.  A value equal to -phi gets `...:returns-neg-phi`; anything
else (`wrong-value`, `nan`, `range`, `reverse`, `mirror`, ...) is a different signature.
"""
import glob
import math
import os
import random
from fractions import Fraction as Fr

from core import Driver, Result, parallel_map
from corr import cli_annotator

PI = math.pi
TAU = 2 * math.pi
TOL_SPEC = 1e-6      # the property's tolerance
TOL_CORR = 1e-9      # model vs code
V1 = "tertiary.calculate_torsion_angle_coords"
V2 = "tertiary_v2.calculate_torsion_angle"
V2TAB = "tertiary_v2.Structure.torsion_angles"
V1CHI = "tertiary.Residue3D.chi"
TESTS = "/repo/tests"
# canonical A-RNA backbone (degrees); literature values alpha -68, gamma 54, delta 82, epsilon -153, zeta -71
AFORM = {"alpha": (-100.0, -40.0), "gamma": (30.0, 80.0), "delta": (65.0, 100.0), "epsilon": (-180.0, -125.0),
         "zeta": (-100.0, -45.0)}


# ------------------------------------------------------------------ helpers

def circ(a, b):
    d = (a - b) % TAU
    return min(d, TAU - d)


def fexact(x):
    """exact rational text of a float"""
    n, d = float(x).as_integer_ratio()
    return "%d/%d" % (n, d)


def frs(q):
    return "%d/%d" % (q.numerator, q.denominator)


def pt_f(p):
    return ",".join(fexact(c) for c in p)


def pt_q(p):
    return ",".join(frs(c) for c in p)


def circle_point(angle, m):
    """rational point (c, s) on the unit circle near `angle` (half-angle integers of size <= m)"""
    u = round(m * math.cos(angle / 2))
    v = round(m * math.sin(angle / 2))
    if u == 0 and v == 0:
        u = 1
    d = u * u + v * v
    return Fr(u * u - v * v, d), Fr(2 * u * v, d)


def quat_rot(a, b, c, d):
    n = a * a + b * b + c * c + d * d
    return [[Fr(a * a + b * b - c * c - d * d, n), Fr(2 * (b * c - a * d), n), Fr(2 * (b * d + a * c), n)],
            [Fr(2 * (b * c + a * d), n), Fr(a * a - b * b + c * c - d * d, n), Fr(2 * (c * d - a * b), n)],
            [Fr(2 * (b * d - a * c), n), Fr(2 * (c * d + a * b), n), Fr(a * a - b * b - c * c + d * d, n)]]


def apply(R, t, p):
    return tuple(R[i][0] * p[0] + R[i][1] * p[1] + R[i][2] * p[2] + t[i] for i in range(3))


def sub(a, b):
    return (a[0] - b[0], a[1] - b[1], a[2] - b[2])


def cross(a, b):
    return (a[1] * b[2] - a[2] * b[1], a[2] * b[0] - a[0] * b[2], a[0] * b[1] - a[1] * b[0])


def dot(a, b):
    return a[0] * b[0] + a[1] * b[1] + a[2] * b[2]


def iupac_exact(P):
    """IUPAC dihedral of four points, evaluated exactly in rationals up to the final sqrt/atan2:
    atan2(|v2| v1.(v2 x v3), (v1 x v2).(v2 x v3)); None when a cross product vanishes"""
    Q = [tuple(Fr(c) for c in p) for p in P]
    v1, v2, v3 = sub(Q[1], Q[0]), sub(Q[2], Q[1]), sub(Q[3], Q[2])
    n1, n2 = cross(v1, v2), cross(v2, v3)
    if dot(n1, n1) == 0 or dot(n2, n2) == 0:
        return None
    x = dot(n1, n2)
    t = dot(v1, n2)
    n = dot(v2, v2)
    # scale to avoid overflow/underflow in the conversion
    s = max(abs(x), abs(t), Fr(1, 10 ** 300))
    return math.atan2(math.sqrt(float(n)) * float(t / s), float(x / s))


def model_angle(txt):
    """driver answer 'sx sy num/den|inf' -> (sx, sy, tan2 or None, angle)"""
    sx, sy, t = txt.split(" ")
    sx, sy = int(sx), int(sy)
    if t == "inf":
        return sx, sy, None, math.atan2(sy, 0.0)
    n, d = t.split("/")
    t2 = int(n) / int(d)
    return sx, sy, t2, math.atan2(sy * math.sqrt(t2), float(sx))


def sign(x, eps=0.0):
    return 1 if x > eps else -1 if x < -eps else 0


def classify(r, phi):
    if r is None or r != r:
        return "nan"
    if not (-PI <= r <= PI):
        return "range"
    if circ(r, phi) <= TOL_SPEC:
        return "ok"
    if circ(r, -phi) <= TOL_SPEC:
        return "returns-neg-phi"
    return "wrong-value"


def real_fns():
    import numpy as np
    from rnapolis.tertiary import calculate_torsion_angle_coords as t1
    from rnapolis.tertiary_v2 import calculate_torsion_angle as t2

    def f1(P):
        return float(t1(*[np.array(p, dtype=float) for p in P]))

    def f2(P):
        return float(t2(*[np.array(p, dtype=float) for p in P]))
    return f1, f2


# ------------------------------------------------------------------ generators (exact rationals)

def gen_built(rng):
    phi_t = rng.uniform(-PI, PI)
    r = rng.random()
    if r < 0.04:
        phi_t = rng.choice([0.0, PI, PI / 2, -PI / 2, PI / 4, -3 * PI / 4])
    elif r < 0.08:
        phi_t = rng.choice([0.0, PI, -PI, PI / 2, -PI / 2]) + rng.uniform(-0.02, 0.02)
        phi_t = (phi_t + PI) % TAU - PI
    c, s = circle_point(phi_t, 64)
    while True:
        th1 = math.radians(rng.uniform(20, 160))
        th2 = math.radians(rng.uniform(20, 160))
        c1, s1 = circle_point(th1, 32)
        c2, s2 = circle_point(th2, 32)
        a1 = math.degrees(math.atan2(s1, c1))
        a2 = math.degrees(math.atan2(s2, c2))
        if 20 <= a1 <= 160 and 20 <= a2 <= 160:
            break
    l1, l2, l3 = (Fr(rng.randint(80, 250), 100) for _ in range(3))
    z = Fr(0)
    p1 = (l1 * s1, z, l1 * c1)
    p2 = (z, z, z)
    p3 = (z, z, l2)
    p4 = (l3 * s2 * c, l3 * s2 * s, l2 - l3 * c2)
    while True:
        q = [rng.randint(-6, 6) for _ in range(4)]
        if any(q):
            break
    R = quat_rot(*q)
    t = tuple(Fr(rng.randint(-400, 400), 8) for _ in range(3))
    Q = [apply(R, t, p) for p in (p1, p2, p3, p4)]
    phi = math.atan2(float(s), float(c))
    meta = {"cs": [frs(c), frs(s)], "bond_angles": [round(a1, 3), round(a2, 3)],
            "bond_lengths": [float(l1), float(l2), float(l3)], "quaternion": q}
    return Q, phi, (c, s), meta


def gen_random(rng):
    """arbitrary quadruple in general position (no prescribed angle): small rational coordinates"""
    while True:
        Q = [tuple(Fr(rng.randint(-4000, 4000), 1000) for _ in range(3)) for _ in range(4)]
        v1, v2, v3 = sub(Q[1], Q[0]), sub(Q[2], Q[1]), sub(Q[3], Q[2])
        l1, l2, l3 = dot(v1, v1), dot(v2, v2), dot(v3, v3)
        if min(l1, l2, l3) < Fr(1, 100):
            continue
        n1, n2 = cross(v1, v2), cross(v2, v3)
        if dot(n1, n1) < Fr(1, 400) * l1 * l2 or dot(n2, n2) < Fr(1, 400) * l2 * l3:
            continue  # sin(bond angle) >= 0.05
        return Q


def gen_degenerate(rng):
    """collinear / nearly collinear / coincident points around both guards"""
    kind = rng.choice(["collinear", "tiny-offset", "coincident", "short-bond"])
    def rp(scale=1000):
        return tuple(Fr(rng.randint(-3000, 3000), scale) for _ in range(3))
    p1, p2 = rp(), rp()
    if p1 == p2:
        p2 = (p2[0] + 1, p2[1], p2[2])
    d = sub(p2, p1)
    k = Fr(rng.randint(1, 30), 10)
    p3 = tuple(p2[i] + k * d[i] for i in range(3))
    p4 = rp()
    if kind == "tiny-offset":
        e = Fr(1, 10 ** rng.randint(4, 10))
        p3 = (p3[0] + e * rng.choice([-1, 1]), p3[1] + e * rng.randint(-2, 2), p3[2])
    elif kind == "coincident":
        which = rng.randint(0, 2)
        if which == 0:
            p2 = p1
        elif which == 1:
            p3 = p2
        else:
            p4 = p3
    elif kind == "short-bond":
        e = Fr(1, 10 ** rng.randint(5, 9))
        p3 = rp()
        p2 = (p1[0] + e, p1[1] + 2 * e, p1[2] - e)
    Q = [p1, p2, p3, p4]
    if rng.random() < 0.5:
        Q = Q[::-1]
    return Q, kind


# ------------------------------------------------------------------ part (i): one worker = one chunk

def chunk_worker(job):
    seed, n, first, every = job
    rng = random.Random(seed)
    f1, f2 = real_fns()
    items = []
    if first:
        # the two pinned tests of the repository
        W = [(Fr(1), Fr(0), Fr(0)), (Fr(0), Fr(0), Fr(0)), (Fr(0), Fr(1), Fr(0)), (Fr(0), Fr(1), Fr(1))]
        items.append(("built", W, -PI / 2, (Fr(0), Fr(-1)), {"note": "tests/test_v2.py::test_torsion_angle_calculation"}))
        Pn = [(Fr("50.63"), Fr("49.73"), Fr("50.57")), (Fr("50.16"), Fr("49.14"), Fr("52.02")),
              (Fr("50.22"), Fr("49.95"), Fr("53.21")), (Fr("50.97"), Fr("49.23"), Fr("54.31"))]
        items.append(("random", Pn, None, None, {"note": "tests/test_tertiary.py::test_torsion_angle"}))
    for _ in range(n):
        r = rng.random()
        if r < 0.86:
            Q, phi, cs, meta = gen_built(rng)
            items.append(("built", Q, phi, cs, meta))
        elif r < 0.96:
            items.append(("random", gen_random(rng), None, None, {}))
        else:
            Q, kind = gen_degenerate(rng)
            items.append(("degenerate", Q, None, None, {"kind": kind}))
    out = {"counts": {}, "fails": [], "samples": [], "evals": 0, "keys": [], "undecided": 0, "lines": 0, "nfail": {}}

    def cnt(k, m=1):
        out["counts"][k] = out["counts"].get(k, 0) + m

    def fail(kind, sig, inp, detail):
        out["nfail"][sig] = out["nfail"].get(sig, 0) + 1
        if out["nfail"][sig] <= 3 or inp.get("small"):
            out["fails"].append({"kind": kind, "signature": sig, "input": inp, "detail": detail})

    reqs, rows = [], []
    for idx, (fam, Q, phi, cs, meta) in enumerate(items):
        F = [tuple(float(c) for c in p) for p in Q]
        Frev = F[::-1]
        Fmir = [(p[0], p[1], -p[2]) for p in F]
        r = {"F": F, "laws": idx % every == 0 or fam == "degenerate"}
        r["v1"], r["v2"] = f1(F), f2(F)
        r["v1r"], r["v2r"] = f1(Frev), f2(Frev)
        r["v1m"], r["v2m"] = f1(Fmir), f2(Fmir)
        rows.append(r)
        a = [pt_f(p) for p in F]
        reqs.append(["tor.both"] + a)
        if r["laws"]:
            reqs.append(["tor.both"] + a[::-1])
            reqs.append(["tor.both"] + [pt_f(p) for p in Fmir])
            if fam == "built":
                reqs.append(["tor.both"] + [pt_q(p) for p in Q])      # the unrounded construction
                reqs.append(["tor.expect", frs(cs[0]), frs(cs[1])])
        if fam == "degenerate":
            reqs.append(["tor.margin"] + a)
    resp = Driver().ask(reqs)
    out["lines"] = len(reqs)
    k = 0
    for (fam, Q, phi, cs, meta), r in zip(items, rows):
        F = r["F"]
        m_orig = resp[k]
        k += 1
        m_rev = m_mir = m_exact = m_expect = None
        if r["laws"]:
            m_rev, m_mir = resp[k:k + 2]
            k += 2
            if fam == "built":
                m_exact, m_expect = resp[k:k + 2]
                k += 2
        m_margin = None
        if fam == "degenerate":
            m_margin = resp[k]
            k += 1
        out["evals"] += 1
        cnt("family:" + fam)
        inp = {"family": fam, "points": [pt_f(p) for p in F], "phi": phi}
        inp.update(meta)
        if "note" in meta:
            inp["small"] = True
        near_guard = False
        if m_margin is not None:
            near_guard = any(abs(float(Fr(x)) - 1.0) <= 1e-6 for x in m_margin.split(" "))
        m1, m2 = m_orig.split("|")
        # ---------------- correspondence: model vs code on the same floats
        if near_guard:
            out["undecided"] += 1
            cnt("undecided:guard-threshold")
        else:
            for name, site, mv, rv, degval in (("v1", V1, m1, r["v1"], 0.0), ("v2", V2, m2, r["v2"], None)):
                if mv == "deg":
                    cnt("model-degenerate:" + name)
                    okd = (rv == 0.0) if degval is not None else (rv != rv)
                    if not okd:
                        fail("corr", "C18:%s:guard" % site, inp, "model: degenerate, code returned %r" % rv)
                    continue
                if rv != rv:
                    fail("corr", "C18:%s:guard" % site, inp, "model: %s, code returned nan" % mv)
                    continue
                sx, sy, t2, am = model_angle(mv)
                if fam == "degenerate":
                    # ill-conditioned by construction: only the guard decision is compared
                    continue
                if circ(am, rv) > TOL_CORR:
                    fail("corr", "C18:%s:model-angle" % site, inp, "model %s (angle %.12f) vs code %.12f" % (mv, am, rv))
                if t2 is not None and 1e-8 <= t2 <= 1e8:
                    tr = math.tan(rv) ** 2
                    if sign(math.cos(rv)) != sx or sign(math.sin(rv)) != sy or abs(tr / t2 - 1.0) > TOL_CORR:
                        fail("corr", "C18:%s:model-quadrant-tan2" % site, inp,
                             "model (sx,sy,tan2)=(%d,%d,%.15g) vs code angle %.15f (tan2 %.15g)" % (sx, sy, t2, rv, tr))
                    cnt("quadrant-tan2-compared")
                else:
                    cnt("near-axis(angle compared only)")
            # model laws (theorems torsion_reverse / torsion_mirror on concrete data)
            if r["laws"]:
                cnt("model-laws-checked")
            if r["laws"] and m_rev != m_orig:
                fail("corr", "C18:model:reverse", inp, "model orig %s vs reversed %s" % (m_orig, m_rev))
            if r["laws"] and "deg" not in m_orig and "deg" not in m_mir:
                flip = []
                for part in m_orig.split("|"):
                    sx, sy, t = part.split(" ")
                    flip.append("%s %d %s" % (sx, -int(sy), t))
                if "|".join(flip) != m_mir:
                    fail("corr", "C18:model:mirror", inp, "model orig %s vs mirrored %s" % (m_orig, m_mir))
        if fam == "built" and r["laws"]:
            # theorem v1_returns_phi / v2_returns_neg_phi instantiated: exact construction vs prescribed angle
            e1, e2 = m_exact.split("|")
            sx, sy, t = m_expect.split(" ")
            neg = "%s %d %s" % (sx, -int(sy), t)
            if e1 != m_expect:
                fail("corr", "C18:model:v1-canonical", inp, "model v1 on the exact construction %s, prescribed %s" % (e1, m_expect))
            if e2 != neg:
                fail("corr", "C18:model:v2-canonical", inp, "model v2 on the exact construction %s, -prescribed %s" % (e2, neg))
        if fam == "degenerate":
            continue
        # ---------------- specification on the real code
        if phi is None:
            phi = iupac_exact(F)
            inp["phi"] = phi
            inp["phi_source"] = "exact IUPAC formula on the float coordinates"
        nontrivial = abs(math.sin(phi)) > 1e-5
        out["keys"].append((hash(tuple(F)) & 0xFFFFFFFFFFFF, nontrivial))
        cnt("phi-octant:%d" % (int((phi + PI) / (PI / 4)) % 8))
        if fam == "built":
            a1, a2 = meta.get("bond_angles", (90, 90))
            cnt("bond-angle-bin:%d-%d" % (int(a1 // 35) * 35, int(a1 // 35) * 35 + 35))
            cnt("bond-angle-bin:%d-%d" % (int(a2 // 35) * 35, int(a2 // 35) * 35 + 35))
        for name, site, rv, rr, rm in (("v1", V1, r["v1"], r["v1r"], r["v1m"]), ("v2", V2, r["v2"], r["v2r"], r["v2m"])):
            c = classify(rv, phi)
            cnt("%s:%s" % (name, c))
            if c == "ok" and rv < -PI + 1e-6 and rv <= -PI:
                out["undecided"] += 1   # atan2(-0.0, x<0) = -pi: on the boundary of (-pi, pi]
            if c != "ok":
                d = dict(inp)
                d["call"] = site
                d["returned"] = rv
                fail("spec", "C18:%s:%s" % (site, c), d,
                     "%s returned %.9f for a quadruple with dihedral %.9f (IUPAC, clockwise-positive from p2 to p3)" % (site, rv, phi))
            if rv == rv and rr == rr and circ(rv, rr) > TOL_SPEC:
                d = dict(inp); d["call"] = site
                fail("spec", "C18:%s:reverse" % site, d, "value %.9f, reversed order %.9f" % (rv, rr))
            if rv == rv and rm == rm and circ(-rv, rm) > TOL_SPEC:
                d = dict(inp); d["call"] = site
                fail("spec", "C18:%s:mirror" % site, d, "value %.9f, mirror image %.9f" % (rv, rm))
        # agreement of the two implementations; a disagreement explained by one side returning -phi is
        # that side's finding (reported above under its own signature)
        c1, c2 = classify(r["v1"], phi), classify(r["v2"], phi)
        if r["v1"] == r["v1"] and r["v2"] == r["v2"]:
            if circ(r["v1"], r["v2"]) > 2 * TOL_SPEC:
                cnt("implementations-disagree")
                if c1 == "ok" and c2 == "ok" or (c1 == c2 == "returns-neg-phi"):
                    fail("spec", "C18:agreement:unexplained", inp, "v1 %.9f vs v2 %.9f" % (r["v1"], r["v2"]))
            else:
                cnt("implementations-agree")
        if len(out["samples"]) < 2 and fam == "built" and not first:
            out["samples"].append({"family": fam, "phi": phi, "meta": meta, "v1": r["v1"], "v2": r["v2"],
                                   "model(v1|v2: sign x, sign y, tan2)": "|".join(
                                       "%d %d %.12g" % model_angle(x)[:3] for x in m_orig.split("|") if x != "deg")})
    return out


# ------------------------------------------------------------------ part (ii): corpus

def parse_tables(txt):
    f = txt.split("|")
    defs = {}
    for item in f[8].split(";"):
        name, atoms = item.split("=")
        defs[name] = [(a.rsplit(":", 1)[0], int(a.rsplit(":", 1)[1])) for a in atoms.split(",")]
    return {"v1pu": f[0].split(","), "v1py": f[1].split(","), "v2pu": f[2].split(","), "v2py": f[3].split(","),
            "v1pul": f[4].split(","), "v1pyl": f[5].split(","), "v2pun": f[6].split(","), "v2pyn": f[7].split(","),
            "defs": defs, "syn": [Fr(x) for x in f[9].split(",")]}


def corpus_file(job):
    """all torsions of one file through both code paths; returns plain data"""
    path, tables = job[:2]
    edited = len(job) > 2 and job[2] == "edited"
    import numpy as np
    import pandas as pd
    from rnapolis.parser import read_3d_structure
    from rnapolis.parser_v2 import parse_cif_atoms, parse_pdb_atoms
    from rnapolis.tertiary import GlycosidicBond, torsion_angle
    from rnapolis.tertiary_v2 import Structure, calculate_torsion_angle
    out = {"file": os.path.basename(path) + ("@atoms-reordered-after-connectivity" if edited else ""), "rows": [], "error": None}

    def xyz_by_name(residue, name):
        """coordinates of the first atom of that name, read off the residue's table directly"""
        t = residue.atoms
        if residue.format == "PDB":
            col, cc = "name", ("x", "y", "z")
        else:
            col, cc = ("auth_atom_id" if "auth_atom_id" in t.columns else "label_atom_id"), ("Cartn_x", "Cartn_y", "Cartn_z")
        hit = t[t[col] == name]
        if len(hit) == 0:
            return None
        return tuple(float(hit.iloc[0][c]) for c in cc)
    try:
        tmp = None
        if path.endswith(".gz"):
            import gzip
            import tempfile
            with gzip.open(path, "rt") as f:
                text = f.read()
            tmp = tempfile.NamedTemporaryFile("w", suffix="-" + os.path.basename(path)[:-3], delete=False)
            tmp.write(text)
            tmp.close()
            real_path = tmp.name
        else:
            real_path = path
            with open(path) as f:
                text = f.read()
        import io
        try:
            with open(real_path) as f1:      # parser.py re-opens mmCIF files by name
                s1 = read_3d_structure(f1, None)
        finally:
            if tmp is not None:
                os.unlink(tmp.name)
        is_pdb = path.replace(".gz", "").endswith(".pdb")
        df = parse_pdb_atoms(io.StringIO(text)) if is_pdb else parse_cif_atoms(io.StringIO(text))
        if "model" in df.columns:
            df2 = df[df["model"] == df["model"].iloc[0]].copy() if len(df) else df
            df2.attrs = dict(df.attrs)
            df = df2
        elif "pdbx_PDB_model_num" in df.columns and len(df):
            df2 = df[df["pdbx_PDB_model_num"] == df["pdbx_PDB_model_num"].iloc[0]].copy()
            df2.attrs = dict(df.attrs)
            df = df2
        st = Structure(df)
        if edited:
            # what unifier.py does to the residues of a structure: connectivity is looked at first, then every residue's
            # atom table is replaced by a re-ordered one; the torsion table is asked for afterwards
            segments = st.connected_residues
            for seg in segments:
                for r in seg:
                    r.atoms = r.atoms.iloc[::-1]
            table = st.torsion_angles
        else:
            table = st.torsion_angles
            segments = st.connected_residues
    except Exception as e:  # noqa: BLE001
        out["error"] = "%s: %s" % (type(e).__name__, str(e)[:200])
        return out
    v1res = {}
    for r in s1.residues:
        if r.auth is not None:
            v1res.setdefault((r.auth.chain, r.auth.number, r.auth.icode or None), r)
        elif r.label is not None:
            v1res.setdefault((r.label.chain, r.label.number, None), r)
    defs = tables["defs"]
    ti = 0
    for seg in segments:
        for i, res in enumerate(seg):
            if ti >= len(table):
                break
            row = table.iloc[ti]
            ti += 1
            key = (res.chain_id, res.residue_number, res.insertion_code)
            if (row["chain_id"], int(row["residue_number"])) != (key[0], key[1]):
                out["error"] = "table rows are not in segment order"
                return out
            r1 = v1res.get((key[0], key[1], key[2] or None))
            for ang in list(defs) + ["chi"]:
                tv = row[ang]
                tv = None if tv is None or (isinstance(tv, float) and tv != tv) or pd.isna(tv) else float(tv)
                # atoms of this angle in the v2 objects
                if ang == "chi":
                    if res.residue_name in tables["v2pun"]:
                        spec = [(a, 0) for a in tables["v2pu"]]
                    elif res.residue_name in tables["v2pyn"]:
                        spec = [(a, 0) for a in tables["v2py"]]
                    else:
                        spec = None
                else:
                    spec = defs[ang]
                c2 = None
                if spec is not None and all(0 <= i + o < len(seg) for _, o in spec):
                    ats = [xyz_by_name(seg[i + o], a) for a, o in spec]
                    if all(a is not None for a in ats):
                        c2 = ats
                    found = [seg[i + o].find_atom(a) for a, o in spec]
                    if [None if a is None else tuple(float(x) for x in a.coordinates) for a in found] != ats:
                        out.setdefault("find_atom_differs", []).append("%s %s" % (res.residue_name, ang))
                rec = {"res": "%s.%s%s%s" % (key[0], res.residue_name, key[1], key[2] or ""), "angle": ang,
                       "resname": res.residue_name,
                       "table": tv, "c2": c2, "direct2": None, "v1": None, "c1": None, "chi1": None, "class1": None}
                if c2 is not None:
                    rec["direct2"] = float(calculate_torsion_angle(*[np.array(c) for c in c2]))
                # the same angle through tertiary.py objects
                if r1 is not None:
                    if ang == "chi":
                        letter = r1.one_letter_name.upper()
                        if letter in tables["v1pul"]:
                            spec1 = [(a, 0) for a in tables["v1pu"]]
                        elif letter in tables["v1pyl"]:
                            spec1 = [(a, 0) for a in tables["v1py"]]
                        elif all(r1.find_atom(a) is not None for a in tables["v1pu"]):
                            # unknown one-letter code: the base is a purine when it carries N9 and C4
                            spec1 = [(a, 0) for a in tables["v1pu"]]
                        else:
                            spec1 = [(a, 0) for a in tables["v1py"]]
                        ch = r1.chi
                        rec["chi1"] = None if ch != ch else float(ch)
                        cc = r1.chi_class
                        rec["class1"] = None if cc is None else ("anti" if cc == GlycosidicBond.anti else "syn")
                    else:
                        spec1 = defs[ang]
                    if spec1 is not None:
                        ats1 = []
                        for a, o in spec1:
                            if o == 0:
                                rr = r1
                            elif 0 <= i + o < len(seg):
                                nb = seg[i + o]
                                rr = v1res.get((nb.chain_id, nb.residue_number, nb.insertion_code or None))
                            else:
                                rr = None
                            ats1.append(rr.find_atom(a) if rr is not None else None)
                        if all(a is not None for a in ats1):
                            rec["c1"] = [tuple(float(x) for x in a.coordinates) for a in ats1]
                            rec["v1"] = float(torsion_angle(*ats1))
                out["rows"].append(rec)
    return out


def median(xs):
    xs = sorted(xs)
    n = len(xs)
    return xs[n // 2] if n % 2 else 0.5 * (xs[n // 2 - 1] + xs[n // 2])


def pdb_variants(path, outdir, rng):
    """two re-labelled copies of a PDB file (same atoms): (a) purines A/G renamed to the unknown residue 'N' (one-letter
    code outside ACGUT), (b) runs of 2-3 consecutive residues sharing chain and number, told apart by insertion codes"""
    lines = open(path).read().splitlines()
    out = []
    # (a)
    a = []
    for ln in lines:
        if ln.startswith(("ATOM", "HETATM")) and ln[17:20].strip() in ("A", "G"):
            ln = ln[:17] + "  N" + ln[20:]
        a.append(ln)
    pa = os.path.join(outdir, "unknown-purines-" + os.path.basename(path))
    open(pa, "w").write("\n".join(a) + "\n")
    out.append(pa)
    # (b)
    b = []
    state = {}
    key, new = None, None
    for ln in lines:
        if ln.startswith(("ATOM", "HETATM", "TER")) and len(ln) > 26 and ln[22:26].strip():
            ch = ln[21]
            k = (ch, ln[22:27])
            if k != key:
                key = k
                num, pos, run = state.get(ch, (rng.randint(1, 30), 0, 0))
                if pos >= run:
                    num, pos, run = num + 1, 0, rng.choice([1, 2, 2, 3])
                new = "%4d%s" % (num, [" ", "A", "B"][pos])
                state[ch] = (num, pos + 1, run)
            ln = ln[:22] + new + ln[27:]
        b.append(ln)
    pb = os.path.join(outdir, "icode-siblings-" + os.path.basename(path))
    open(pb, "w").write("\n".join(b) + "\n")
    out.append(pb)
    # (c) every other purine without its N9 record (an incomplete residue: no glycosidic torsion can be given for it)
    c, seen = [], {}
    for ln in lines:
        if ln.startswith(("ATOM", "HETATM")) and ln[17:20].strip() in ("A", "G", "DA", "DG") and ln[12:16].strip() == "N9":
            k = (ln[21], ln[22:27])
            seen.setdefault(k, len(seen))
            if seen[k] % 2 == 0:
                continue
        c.append(ln)
    pc = os.path.join(outdir, "purines-without-N9-" + os.path.basename(path))
    open(pc, "w").write("\n".join(c) + "\n")
    out.append(pc)
    return out


def run_corpus(ctx, res, tables):
    quick_files = ["1A1T_1_B.cif", "1ehz-assembly-1.cif"]
    if ctx.quick:
        files = [os.path.join(TESTS, f) for f in quick_files]
    else:
        files = sorted(glob.glob(os.path.join(TESTS, "*.cif")) + glob.glob(os.path.join(TESTS, "*.pdb")) +
                       glob.glob(os.path.join(TESTS, "*.cif.gz")))
        files = [f for f in files if "modified" not in f]
    files = [f for f in files if os.path.exists(f)]
    import shutil
    import tempfile
    vdir = tempfile.mkdtemp(prefix="c18-variants-")
    try:
        for base in ["1ATO.pdb"] + ([] if ctx.quick else ["4qln.pdb"]):
            if os.path.exists(os.path.join(TESTS, base)):
                files += pdb_variants(os.path.join(TESTS, base), vdir, ctx.rng)
        return _run_corpus(ctx, res, tables, files, quick_files)
    finally:
        shutil.rmtree(vdir, ignore_errors=True)


def _run_corpus(ctx, res, tables, files, quick_files):
    jobs = [(f, tables) for f in files]
    jobs += [(f, tables, "edited") for f in files if os.path.basename(f) in quick_files + ["1ATO.pdb", "q-ugg-5k-salt_400-500ns_frame1065.pdb"]]
    if ctx.quick and os.path.exists(os.path.join(TESTS, "1ATO.pdb")):
        jobs.append((os.path.join(TESTS, "1ATO.pdb"), tables, "edited"))
    if len(jobs) >= 4:
        from core import fork_map
        outs = fork_map(corpus_file, jobs, nproc=min(16, len(jobs)), chunksize=1)
    else:
        outs = [corpus_file(j) for j in jobs]
    for o in outs:
        fn = o["file"]
        if o["error"]:
            res.count("corpus:file-skipped")
            res.notes.append("corpus file %s not processed: %s" % (fn, o["error"]))
            if fn in quick_files:
                res.fail("corr", "C18:corpus:unprocessed", {"file": fn}, o["error"])
            continue
        res.count("corpus:files")
        if o.get("find_atom_differs"):
            res.fail("corr", "C18:tertiary_v2.Residue.find_atom:not-the-first-atom-of-that-name", {"family": "corpus", "file": fn, "where": o["find_atom_differs"][:5]},
                     "find_atom returns other coordinates than the first row of that name in the residue's table")
        # A-form RNA residues, decided by the exact IUPAC values of the backbone torsions of the residue:
        # ribonucleotide with the canonical A-helix backbone (alpha g-, gamma g+, delta C3'-endo, epsilon t/ac-, zeta g-)
        exact = {}
        for rec in o["rows"]:
            c = rec["c2"] or rec["c1"]
            if c is not None and rec["angle"] != "chi" and rec["resname"] in ("A", "C", "G", "U"):
                v = iupac_exact(c)
                if v is not None:
                    exact.setdefault(rec["res"], {})[rec["angle"]] = math.degrees(v)
        aform = set()
        for rname, d in exact.items():
            if all(k in d for k in AFORM) and all(lo <= d[k] <= hi for k, (lo, hi) in AFORM.items()):
                aform.add(rname)
        res.count("corpus:A-form-residues", len(aform))
        chi_tab = {"v1": [], "v2": []}
        chi_rel = {"v1": set(), "v2": set()}
        chi_first = {}
        for rec in o["rows"]:
            inp0 = {"family": "corpus", "file": fn, "residue": rec["res"], "angle": rec["angle"]}
            for path, site, val, coords in (("v2", V2TAB, rec["table"], rec["c2"]), ("v1", V1, rec["v1"], rec["c1"])):
                if coords is None:
                    if val is not None and path == "v2":
                        res.fail("corr", "C18:%s:value-without-atoms" % site, inp0, "table has %r but the atoms were not found" % val)
                    continue
                phi = iupac_exact(coords)
                if phi is None:
                    res.count("corpus:degenerate")
                    continue
                if val is None:
                    if path == "v2":
                        res.fail("spec", "C18:%s:missing" % site, dict(inp0, points=[pt_f(p) for p in coords], phi=phi),
                                 "all four atoms exist but the table has no value")
                    continue
                res.case((fn, rec["res"], rec["angle"], path), nontrivial=abs(math.sin(phi)) > 1e-5)
                res.count("corpus:%s:%s" % (path, rec["angle"]))
                c = classify(val, phi)
                res.count("corpus:%s:%s" % (path, c))
                inp = dict(inp0, points=[pt_f(p) for p in coords], phi=phi, call=site, returned=val)
                if path == "v2":
                    # the table must be what the function returns on these atoms; then a deviation is the function's
                    if rec["direct2"] is None or not (abs(rec["direct2"] - val) <= 1e-12):
                        res.fail("spec", "C18:%s:differs-from-function" % site, inp,
                                 "table %.12f, calculate_torsion_angle on the same atoms %r" % (val, rec["direct2"]))
                        continue
                    if c != "ok":
                        inp["call"] = V2 + " (via " + V2TAB + ")"
                        res.fail("spec", "C18:%s:%s" % (V2, c), inp,
                                 "%s %s of %s in %s: table %.6f, IUPAC %.6f" % (V2TAB, rec["angle"], rec["res"], fn, val, phi))
                else:
                    if c != "ok":
                        res.fail("spec", "C18:%s:%s" % (site, c), inp,
                                 "torsion_angle %s of %s in %s: %.6f, IUPAC %.6f" % (rec["angle"], rec["res"], fn, val, phi))
                if rec["angle"] == "chi" and rec["res"] in aform:
                    chi_tab[path].append(math.degrees(val) % 360.0 - 360.0 if math.degrees(val) > 0 else math.degrees(val))
                    chi_rel[path].add(c)
                    chi_first.setdefault(path, {"residue": rec["res"], "points": [pt_f(p) for p in coords], "phi": phi,
                                                "returned": val})
            # Residue3D.chi must be torsion_angle of the chi atoms, chi_class its classification
            if rec["angle"] == "chi" and rec["v1"] is not None:
                if rec["chi1"] is None or abs(rec["chi1"] - rec["v1"]) > 1e-12:
                    res.fail("spec", "C18:%s:differs-from-function" % V1CHI, inp0, "chi %r, torsion_angle on the chi atoms %r" % (rec["chi1"], rec["v1"]))
                lo, hi = [math.radians(float(x)) for x in tables["syn"]]
                ch = rec["v1"]
                if min(abs(ch - lo), abs(ch - hi)) > 1e-6:
                    want = "syn" if lo < ch < hi else "anti"
                    if rec["class1"] != want:
                        res.fail("corr", "C18:tertiary.Residue3D.chi_class", inp0, "chi %.6f class %r expected %s" % (ch, rec["class1"], want))
                    res.count("corpus:chi_class:" + str(rec["class1"]))
                else:
                    res.undecided += 1
            if rec["angle"] == "chi" and rec["c1"] is None and rec["chi1"] is not None:
                res.fail("spec", "C18:%s:value-without-glycosidic-atoms" % V1CHI, inp0,
                         "chi %r although the residue lacks an atom of the glycosidic torsion of its base (O4', C1', N9, C4 for purines; O4', C1', N1, C2 otherwise)" % rec["chi1"])
            # both code paths on identical atoms: same magnitude, and which sign relation
            if rec["v1"] is not None and rec["table"] is not None and rec["c1"] == rec["c2"]:
                a, b = rec["v1"], rec["table"]
                rel = "equal" if circ(a, b) <= TOL_SPEC else "negated" if circ(a, -b) <= TOL_SPEC else "different"
                if circ(a, b) <= TOL_SPEC and circ(a, -b) <= TOL_SPEC:
                    rel = "equal(sign unobservable)"
                res.count("corpus:v1-vs-v2:" + rel)
                if rel == "different":
                    res.fail("spec", "C18:agreement:magnitude", dict(inp0, points=[pt_f(p) for p in rec["c1"]]),
                             "tertiary.py %.6f vs tertiary_v2 table %.6f on identical atoms" % (a, b))
            elif rec["v1"] is not None and rec["table"] is not None:
                res.count("corpus:v1-vs-v2:atoms-differ-between-readers(not compared)")
        # A-form chi: anti, about -160 degrees, in each table
        for path, site in (("v1", V1CHI), ("v2", V2TAB)):
            vals = chi_tab[path]
            if len(vals) < 8:
                continue
            med = median(vals)       # values mapped to (-360, 0]
            res.count("corpus:A-form-chi-residues:%s" % path, len(vals))
            res.sample({"file": fn, "table": site, "A-form residues": len(vals),
                        "median chi (deg, mapped to (-360,0])": round(med, 2),
                        "raw sample (deg)": [round(v if v > -180 else v + 360, 1) for v in vals[:5]]}, cap=12)
            ok = -200.0 <= med <= -135.0
            raw_pos = sum(1 for v in vals if v < -180.0)   # originally positive angles
            if ok and raw_pos * 2 > len(vals):
                # magnitudes fit an anti conformation but the table lists them as about +160..+180
                ok = False
            if not ok:
                inp = {"family": "corpus", "file": fn, "table": site, "median_chi_deg": med, "n": len(vals)}
                inp.update(chi_first.get(path, {}))   # one representative residue, so that the finding can be replayed
                if chi_rel[path] <= {"returns-neg-phi"} and path == "v2":
                    inp["call"] = V2 + " (via " + V2TAB + ")"
                    res.fail("spec", "C18:%s:returns-neg-phi" % V2, inp,
                             "chi of %d A-form residues in %s: median %.1f deg in the table (IUPAC: about -160)" % (len(vals), fn, med if med > -180 else med + 360))
                else:
                    res.fail("spec", "C18:%s:chi-A-form-not-anti" % site, inp,
                             "chi of %d A-form residues in %s: median %.1f deg" % (len(vals), fn, med if med > -180 else med + 360))


# ------------------------------------------------------------------ entry points

def run(ctx):
    res = Result("C18")
    res.rule = ("(i) quadruples built in exact rationals with prescribed dihedral phi (rational circle points for phi and "
                "both bond angles 20-160 deg, bond lengths 0.8-2.5, integer-quaternion rotation + rational shift), plus "
                "arbitrary rational quadruples (expected value: exact IUPAC formula) and degenerate ones (guards only); "
                "each through both real functions in original, reversed and mirrored form and through the Lean model on "
                "the exact value of the same floats; non-trivial = non-degenerate with |sin phi| > 1e-5, distinct by "
                "coordinates.  (ii) every backbone torsion and chi of corpus files through tertiary.py and tertiary_v2 "
                "against the exact IUPAC value of the same atoms; distinct by (file, residue, angle, code path)")
    tables = parse_tables(ctx.driver.ask1("tor.tables"))
    # the IUPAC definitions the corpus part relies on (bridge theorems state the same about Gen.Tor)
    iupac = {"alpha": [("O3'", -1), ("P", 0), ("O5'", 0), ("C5'", 0)], "beta": [("P", 0), ("O5'", 0), ("C5'", 0), ("C4'", 0)],
             "gamma": [("O5'", 0), ("C5'", 0), ("C4'", 0), ("C3'", 0)], "delta": [("C5'", 0), ("C4'", 0), ("C3'", 0), ("O3'", 0)],
             "epsilon": [("C4'", 0), ("C3'", 0), ("O3'", 0), ("P", 1)], "zeta": [("C3'", 0), ("O3'", 0), ("P", 1), ("O5'", 1)]}
    if tables["defs"] != iupac or tables["v2pu"] != ["O4'", "C1'", "N9", "C4"] or tables["v2py"] != ["O4'", "C1'", "N1", "C2"] \
            or tables["v1pu"] != tables["v2pu"] or tables["v1py"] != tables["v2py"]:
        res.fail("spec", "C18:definitions:not-iupac", {"tables": {k: str(v) for k, v in tables.items()}},
                 "the atom choices extracted from the source are not the IUPAC definitions")
    total = ctx.pick(20000, 2000000)
    per = ctx.pick(1250, 12500)
    jobs = []
    k = 0
    while k < total:
        n = min(per, total - k)
        jobs.append((ctx.rng.getrandbits(48), n, k == 0, ctx.pick(1, 8)))
        k += n
    from core import fork_map
    outs = fork_map(chunk_worker, jobs, nproc=min(16, os.cpu_count() or 1, len(jobs)), chunksize=1)
    nfail = {}
    for o in outs:
        res.evaluations += o["evals"]
        for key, nt in o["keys"]:
            if nt:
                res.nontrivial.add(key)
        for kk, v in o["counts"].items():
            res.count(kk, v)
        res.undecided += o["undecided"]
        ctx.driver.lines += o["lines"]
        for f in o["fails"]:
            f["input"].pop("small", None)
            res.failures.append(f)
        for s, c in o["nfail"].items():
            nfail[s] = nfail.get(s, 0) + c
        for s in o["samples"]:
            res.sample(s, cap=4)
    for s, c in sorted(nfail.items()):
        res.count("failures:" + s, c)
    run_corpus(ctx, res, tables)
    __import__("corr.fn_common", fromlist=["run_fn"]).run_fn(ctx, res, "C18")  # regenerated functions vs the real ones (tools/py2lean.py)
    # the command-line tool as an observation point (harness/corr/cli_annotator.py)
    cli_annotator.judge(res, "C18", cli_annotator.evaluate(ctx))
    return res


def replay(ctx, data):
    """re-run one stored input through both implementations, the model and the specification"""
    if cli_annotator.is_cli(data.get("input")):
        return cli_annotator.replay_cli("C18", data["input"])
    inp = data["input"]
    if "points" not in inp:
        print("aggregate finding (no single quadruple):", inp)
        return
    F = [tuple(float(Fr(c)) for c in p.split(",")) for p in inp["points"]]
    f1, f2 = real_fns()
    phi = inp.get("phi")
    if phi is None:
        phi = iupac_exact(F)
    print("points:", F)
    print("dihedral (prescribed / exact IUPAC):", phi, "=", math.degrees(phi), "deg")
    for name, f in ((V1, f1), (V2, f2)):
        v = f(F)
        print("%s -> %.12f (%s); reversed %.12f; mirrored %.12f" % (name, v, classify(v, phi), f(F[::-1]), f([(p[0], p[1], -p[2]) for p in F])))
    a = [pt_f(p) for p in F]
    print("model (v1|v2) sign x, sign y, tan^2:", ctx.driver.ask1("tor.both", *a))
    print("model args (x w n | x w n):", ctx.driver.ask1("tor.args", *a))

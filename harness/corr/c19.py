"""C19 — external-tool output (FR3D listings, DSSR JSON) is imported totally and faithfully.

Functional correspondence model (Lean driver, ops `lab.*`) vs the real code, for
`unify_classification`, CPython `int()` as used by `parse_unit_id`, `parse_unit_id`, `Residue.full_name`,
`parse_fr3d_output` (whole listings through a file) and `parse_dssr_output` (JSON documents through a
file).  Independently, every output of the real code is compared with a small Python oracle that
transcribes the property statement (the grammar of recognised labels, well-formed unit ids, which
lines are skipped, which DSSR pairs / stack members are kept): a difference there is a `spec`
failure — the real code violates the property as stated.  Non-ASCII text is outside the statement's
alphabet: counted (`nonascii:*`), never reported.
"""
import itertools
import json
import os
import re
import tempfile

from core import history_probe, Result, exc_name, hexs, parallel_map

ALPHA = "ctCTWHSwhsnaBRP0123456789"          # the FR3D label alphabet of the statement
LW_NAMES = [o + a + b for o in "ct" for a in "WHS" for b in "WHS"]
STACK = {"s33": "downward", "s55": "upward", "s35": "outward", "s53": "inward"}
FIELDS = ["basePairs", "stackings", "baseRiboseInteractions", "basePhosphateInteractions", "otherInteractions"]
LABEL_RE = re.compile(r"^n?(?:([ctCT])([WHSwhs])([WHSwhs])|(s[35][35])|([0-9])BR|([0-9])BPh)a?\Z")
TMP = tempfile.gettempdir()


# ---------------------------------------------------------------- oracle (the statement, transcribed)
def spec_label(s):
    """(category, class name) the statement assigns to a label; class names as enum member names"""
    m = LABEL_RE.match(s)
    if not m:
        return ("other", "")
    if m.group(1):
        return ("base-pair", m.group(1).lower() + m.group(2).upper() + m.group(3).upper())
    if m.group(4):
        return ("stacking", STACK[m.group(4)])
    if m.group(5):
        return ("base-ribose", "_" + m.group(5))
    return ("base-phosphate", "_" + m.group(6))


def spec_unit(u):
    """residue tuple of a well-formed unit id, else None (int() is CPython's, not rnapolis')"""
    f = u.split("|")
    if len(f) < 5:
        return None
    try:
        n = int(f[4])
    except ValueError:
        return None
    ic = f[7] if len(f) >= 8 and f[7] != "" else None
    return (f[2], n, ic, f[3])


def spec_listing(text):
    out = {k: [] for k in FIELDS}
    where = {"base-pair": FIELDS[0], "stacking": FIELDS[1], "base-ribose": FIELDS[2], "base-phosphate": FIELDS[3],
             "other": FIELDS[4]}
    for raw in text.replace("\r\n", "\n").replace("\r", "\n").split("\n"):
        line = raw.strip()
        if not line or line.startswith("#"):
            continue
        p = line.split("\t")
        if len(p) < 3:
            continue
        a, b = spec_unit(p[0]), spec_unit(p[2])
        if a is None or b is None:
            continue
        cat, cl = spec_label(p[1])
        out[where[cat]].append((a, b, cl))
    return out


def spec_dssr(names, doc, model):
    """names: full names of the structure's residues in order -> (pairs, stacks) as index tuples"""
    first = {}
    for i, n in enumerate(names):
        first.setdefault(n, i)

    def res(nt):
        return None if nt is None else first.get(nt.split(":")[-1])
    d = doc
    if "models" in doc:
        ms = doc.get("models")
        if model is None and ms:
            d = ms[0].get("parameters", {})
        else:
            for r in ms or []:
                if r.get("model", None) == model:
                    d = r.get("parameters", {})
                    break
    pairs, stacks = [], []
    for p in d.get("pairs", []):
        a, b, lw = res(p.get("nt1")), res(p.get("nt2")), p.get("LW")
        if a is not None and b is not None and isinstance(lw, str) and lw in LW_NAMES:
            pairs.append((a, b, lw))
    for s in d.get("stacks", []):
        ms = [res(x) for x in s.get("nts_long", "").split(",")]
        for x, y in zip(ms, ms[1:]):
            if x is not None and y is not None:
                stacks.append((x, y))
    return pairs, stacks


# ---------------------------------------------------------------- real code
def show_class(x):
    return "" if x is None else x.name


def real_unify_chunk(labels):
    from rnapolis.adapter import unify_classification
    out = []
    for s in labels:
        try:
            cat, cl = unify_classification(s)
            out.append("%s:%s" % (cat, show_class(cl)))
        except Exception as e:  # noqa: BLE001
            out.append("raises:" + exc_name(e))
    return out


def real_int_chunk(items):
    out = []
    for s in items:
        try:
            out.append("ok %d" % int(s))
        except ValueError:
            out.append("err ValueError")
        except Exception as e:  # noqa: BLE001
            out.append("err " + exc_name(e))
    return out


def res_tuple(r):
    a = r.auth
    return (a.chain, a.number, a.icode, a.name)


def real_unit(u):
    from rnapolis.adapter import parse_unit_id
    try:
        return ("ok", res_tuple(parse_unit_id(u)))
    except Exception as e:  # noqa: BLE001
        return ("err", exc_name(e))


def inter_class(i):
    for attr in ("lw", "topology", "br", "bph"):
        if hasattr(i, attr):
            return show_class(getattr(i, attr))
    return ""


def real_listing(text):
    from rnapolis.adapter import parse_fr3d_output
    fd, path = tempfile.mkstemp(suffix=".fr3d", dir=TMP)
    try:
        with os.fdopen(fd, "w", newline="", encoding="utf-8") as f:
            f.write(text)
        try:
            bi = parse_fr3d_output(path)
        except Exception as e:  # noqa: BLE001
            return ("err", exc_name(e))
    finally:
        os.unlink(path)
    out = {}
    for k in FIELDS:
        out[k] = [(res_tuple(i.nt1), res_tuple(i.nt2), inter_class(i), type(i).__name__) for i in getattr(bi, k)]
    return ("ok", out)


def mk_structure(residues):
    from rnapolis.common import ResidueAuth
    from rnapolis.tertiary import Residue3D, Structure3D
    return Structure3D([Residue3D(None, ResidueAuth(c, n, i, m), 1, "N", tuple()) for (c, n, i, m) in residues])


_STRUCT_CACHE = {}


def corpus_structure(name):
    if name not in _STRUCT_CACHE:
        from rnapolis.parser import read_3d_structure
        with open(os.path.join("/repo/tests", name)) as f:
            _STRUCT_CACHE[name] = read_3d_structure(f, None)
    return _STRUCT_CACHE[name]


def real_dssr(case):
    """case = (structure spec, doc, model) -> ('ok', pairs, stacks) with residues as indices into the structure"""
    from rnapolis.adapter import parse_dssr_output
    sspec, doc, model = case
    st = corpus_structure(sspec[1]) if sspec[0] == "corpus" else mk_structure(sspec[1])
    fd, path = tempfile.mkstemp(suffix=".json", dir=TMP)
    try:
        with os.fdopen(fd, "w") as f:
            json.dump(doc, f)
        try:
            bi = parse_dssr_output(path, st, model)
        except Exception as e:  # noqa: BLE001
            return ("err", exc_name(e))
    finally:
        os.unlink(path)
    idx = {id(r): k for k, r in enumerate(st.residues)}
    pairs = [(idx[id(p.nt1)], idx[id(p.nt2)], p.lw.name) for p in bi.basePairs]
    stacks = [(idx[id(s.nt1)], idx[id(s.nt2)]) for s in bi.stackings]
    extra = len(bi.baseRiboseInteractions) + len(bi.basePhosphateInteractions) + len(bi.otherInteractions)
    return ("ok", pairs, stacks, extra)


def structure_residues(sspec):
    if sspec[0] == "corpus":
        return [res_tuple(r) for r in corpus_structure(sspec[1]).residues]
    return list(sspec[1])


def real_fullnames(residues):
    from rnapolis.common import Residue, ResidueAuth
    return [Residue(None, ResidueAuth(c, n, i, m)).full_name for (c, n, i, m) in residues]


# ---------------------------------------------------------------- protocol encoding
def enc(s):
    return hexs(s)


def enc_opt(s):
    return "~" if s is None else enc(s)


def enc_res(r):
    c, n, i, m = r
    return "%s.%d.%s.%s" % (enc(c), n, enc_opt(i), enc(m))


def show_res_model(r):
    return enc_res(r)


def enc_params(d):
    ps = []
    for p in d.get("pairs", []):
        ps.append(":".join(enc_opt(p.get(k)) for k in ("nt1", "nt2", "LW")))
    ks = [enc(s.get("nts_long", "")) for s in d.get("stacks", [])]
    return ",".join(ps) + ";" + ",".join(ks)


def enc_doc(doc):
    top = enc_params(doc)
    if "models" not in doc:
        return top, "~"
    ms = []
    for r in doc["models"]:
        n = r.get("model", None)
        ms.append("%s@%s" % ("~" if n is None else str(n), enc_params(r.get("parameters", {}))))
    return top, "/".join(ms)


def is_ascii(s):
    return all(ord(c) < 128 for c in s)


# ---------------------------------------------------------------- generators
def all_labels(maxlen):
    for n in range(maxlen + 1):
        for t in itertools.product(ALPHA, repeat=n):
            yield "".join(t)


UNIT_NUMBERS = ["1", "0", "-3", "+7", "42", "1_0", " 5", "5 ", "007", "", "x", "1.0", "1e3", "--1", "1__0", "_1", "1_",
                "0x10", "٣", "\x0b12\x0c", "\x1f5", "9" * 30]


def gen_unit(rng, valid=None):
    if valid is None:
        valid = rng.random() < 0.6
    chain = rng.choice(["A", "B", "AA", "a", "0", "", " ", "A-2"])
    name = rng.choice(["G", "C", "A", "U", "DG", "DC", "PSU", "5MC", "", "g"])
    if valid:
        num = rng.choice(["1", "2", "10", "-3", "+7", "1_0", " 5", "5 ", "007", "0", str(rng.randint(-50, 3000))])
    else:
        num = rng.choice(UNIT_NUMBERS)
    f = [rng.choice(["XXXX", "1EHZ", ""]), rng.choice(["1", "2", ""]), chain, name, num]
    r = rng.random()
    if r < 0.25:
        f += ["", "", rng.choice(["A", "B", "", " ", "?"])]
    elif r < 0.35:
        f += ["", "", "A", "1_555"]
    elif r < 0.45:
        f += [rng.choice(["", "x"])] * rng.randint(1, 2)
    if not valid and rng.random() < 0.4:
        f = f[: rng.randint(0, 4)]
    return "|".join(f)


def gen_label(rng):
    r = rng.random()
    if r < 0.5:
        core = rng.choice([o + a + b for o in "ctCT" for a in "WHSwhs" for b in "WHSwhs"] + list(STACK)
                          + ["%dBR" % k for k in range(10)] + ["%dBPh" % k for k in range(10)])
        return rng.choice(["", "n"]) + core + rng.choice(["", "a"])
    if r < 0.8:
        return "".join(rng.choice(ALPHA) for _ in range(rng.randint(0, 6)))
    return rng.choice(["perp", "", " ", "cWW ", " cWW", "nn", "cWB", "s33s", "BPh", "10BR", "cWWaa", "nncWW", "S35", "s34",
                       "0bph", "0BPH", "c W", "cW|W", "#", "cWW#"])


def gen_line(rng):
    r = rng.random()
    u1, u2 = gen_unit(rng), gen_unit(rng)
    lab = gen_label(rng)
    if r < 0.55:
        parts = [u1, lab, u2] + ([rng.choice(["0", "1", "x", ""])] if rng.random() < 0.7 else [])
        return "\t".join(parts)
    if r < 0.62:
        return "\t".join([u1, lab])                      # too few fields
    if r < 0.67:
        return u1
    if r < 0.72:
        return " ".join([u1, lab, u2])                   # blanks instead of tabs
    if r < 0.77:
        return "\t".join([u1, lab, u2, "0", "extra", "fields"])
    if r < 0.82:
        return "#" + "\t".join([u1, lab, u2])
    if r < 0.86:
        return rng.choice(["", " ", "\t", "  \t ", "\x0b", "\x1c"])
    if r < 0.90:
        return rng.choice([" ", "\t", "\x0c", "\x1f "]) + "\t".join([u1, lab, u2]) + rng.choice([" ", "\t\t", "\x0b"])
    if r < 0.94:
        return "\t".join([u1, "", u2])
    if r < 0.97:
        return "\t".join(["", lab, u2])
    return "\t".join([u1, lab, u2]).replace("|", rng.choice(["||", "/", "| "]), 1)


def gen_listing(rng, nmax):
    n = rng.randint(0, nmax)
    lines = [gen_line(rng) for _ in range(n)]
    eol = rng.choice(["\n", "\n", "\r\n", "\r", "mixed"])
    text = ""
    for k, l in enumerate(lines):
        e = rng.choice(["\n", "\r\n", "\r"]) if eol == "mixed" else eol
        text += l + (e if (k + 1 < n or rng.random() < 0.7) else "")
    return text


def gen_residues(rng):
    n = rng.randint(1, 12)
    out = []
    for k in range(n):
        out.append((rng.choice(["A", "B", "AA", " ", "", "a"]), rng.choice([k + 1, k + 1, -k, 100 + k, 0]),
                    rng.choice([None, None, None, "A", "B", "", " "]),
                    rng.choice(["G", "C", "A", "U", "DG", "PSU", "5MC", "A23", "", "2MG", "H2U"])))
    if rng.random() < 0.3:
        out.append(out[0])          # duplicate full name: the first residue wins
    return out


BAD_LW = ["cww", "CWW", "", " cWW", "cWW ", "--", "c.W", "tWX", "cW", "reverse", "name", "value", "__doc__", "__members__",
          "__class__", "__len__", "__module__", "__name__", "_member_map_", "cWWa", "ncWW"]


def gen_params(rng, names, hard):
    def nt():
        r = rng.random()
        if r < 0.72 and names:
            n = rng.choice(names)
            return rng.choice(["", "1:", "2:", "x:y:"]) + n if rng.random() < 0.4 else n
        if r < 0.86:
            return rng.choice(["A.G999", "Z.U1", "", ":", "A.G1:", "G1", "A.G/1", "A.G1^Z"])
        return None

    def lw():
        r = rng.random()
        if r < 0.7:
            return rng.choice(LW_NAMES)
        if r < 0.9:
            return rng.choice(BAD_LW if hard else [x for x in BAD_LW if not x.startswith("__")])
        return None
    d = {}
    if rng.random() < 0.9:
        ps = []
        for _ in range(rng.randint(0, 6)):
            p = {}
            for k, v in (("nt1", nt()), ("nt2", nt()), ("LW", lw())):
                if v is not None or rng.random() < 0.5:
                    p[k] = v
            if rng.random() < 0.3:
                p["bp"] = "G-C"
            ps.append(p)
        d["pairs"] = ps
    if rng.random() < 0.8:
        ss = []
        for _ in range(rng.randint(0, 4)):
            s = {}
            if rng.random() < 0.9:
                s["nts_long"] = ",".join((nt() or "") for _ in range(rng.randint(0, 6)))
            ss.append(s)
        d["stacks"] = ss
    return d


def gen_dssr(rng, names, hard):
    r = rng.random()
    if r < 0.6:
        return gen_params(rng, names, hard), None
    doc = gen_params(rng, names, hard) if rng.random() < 0.5 else {}
    ms = []
    for k in range(rng.randint(0, 3)):
        m = {}
        if rng.random() < 0.85:
            m["model"] = rng.choice([k + 1, k + 1, 1, 7, 0])
        if rng.random() < 0.85:
            m["parameters"] = gen_params(rng, names, hard)
        ms.append(m)
    doc["models"] = ms
    return doc, rng.choice([None, None, 1, 2, 7, 0])


# ---------------------------------------------------------------- comparison helpers
def model_listing(resp):
    """driver answer of lab.listing -> dict like real_listing, or ('err', name)"""
    if resp.startswith("err "):
        return ("err", resp[4:])
    body = resp[3:]
    lists = body.split(";")
    out = {}
    for k, l in zip(FIELDS, lists):
        items = []
        if l:
            for it in l.split(","):
                a, b, c = it.split(">")
                items.append((dec_res(a), dec_res(b), c.split(":", 1)[1]))
        out[k] = items
    return ("ok", out)


def dec(h):
    return "" if h == "-" else bytes.fromhex(h).decode("utf-8")


def dec_res(s):
    c, n, i, m = s.split(".")
    return (dec(c), int(n), None if i == "~" else dec(i), dec(m))


def drop_cls(d):
    return {k: [(a, b, c) for (a, b, c, *_) in v] for k, v in d.items()}


CLASS_OF = dict(zip(FIELDS, ["BasePair", "Stacking", "BaseRibose", "BasePhosphate", "OtherInteraction"]))


def listing_spec_failure(text, got):
    """None, or (signature, detail): how the real result differs from what the statement demands"""
    if got[0] == "err":
        return ("C19:listing:raises:" + got[1], "parse_fr3d_output raised " + got[1])
    want = spec_listing(text)
    have = drop_cls(got[1])
    for k in FIELDS:
        for it in got[1][k]:
            if it[3] != CLASS_OF[k]:
                return ("C19:listing:wrong-class", "%s holds a %s" % (k, it[3]))
    if have == want:
        return None
    nw, nh = sum(map(len, want.values())), sum(map(len, have.values()))
    if len(have["otherInteractions"]) < len(want["otherInteractions"]) and nh < nw:
        return ("C19:listing:other-dropped", "unrecognised label dropped: want %d interactions, got %d" % (nw, nh))
    if nh != nw:
        return ("C19:listing:lost-or-invented", "want %d interactions, got %d" % (nw, nh))
    return ("C19:listing:misfiled", "same number of interactions, different lists/classes/residues: want %r got %r"
            % ({k: v[:3] for k, v in want.items()}, {k: v[:3] for k, v in have.items()}))


def has_dunder_lw(doc):
    from rnapolis.common import LeontisWesthof
    found = []

    def scan(d):
        for p in d.get("pairs", []) or []:
            lw = p.get("LW")
            if isinstance(lw, str) and lw not in LW_NAMES and lw in dir(LeontisWesthof):
                found.append(lw)
    scan(doc)
    for m in doc.get("models", []) or []:
        scan(m.get("parameters", {}))
    return found


def dssr_spec_failure(names, doc, model, got):
    if got[0] == "err":
        if got[1] == "KeyError" and has_dunder_lw(doc):
            return ("C19:dssr:lw-dunder:KeyError",
                    "parse_dssr_output raised KeyError: LW %r passes `lw in dir(LeontisWesthof)` but is no class"
                    % has_dunder_lw(doc)[0])
        return ("C19:dssr:raises:" + got[1], "parse_dssr_output raised " + got[1])
    wp, ws = spec_dssr(names, doc, model)
    if got[3]:
        return ("C19:dssr:invented-other", "DSSR import produced %d non pair/stack interactions" % got[3])
    if got[1] != wp:
        return ("C19:dssr:pairs", "kept pairs %r, statement demands %r" % (got[1][:5], wp[:5]))
    if got[2] != ws:
        return ("C19:dssr:stacks", "kept stackings %r, statement demands %r" % (got[2][:5], ws[:5]))
    return None


def dssr_requests(residues, doc, model):
    top, ms = enc_doc(doc)
    return ["lab.dssr", ",".join(enc_res(r) for r in residues), "~" if model is None else str(model), top, ms]


def model_dssr(resp, residues):
    if resp.startswith("err "):
        return ("err", resp[4:])
    body = resp[3:]
    p, s = body.split(";")
    first = {}
    for k, r in enumerate(residues):
        first.setdefault(enc_res(r), k)
    pairs, stacks = [], []
    if p:
        for it in p.split(","):
            a, b, c = it.split(">")
            pairs.append((first[a], first[b], c))
    if s:
        for it in s.split(","):
            a, b = it.split(">")
            stacks.append((first[a], first[b]))
    return ("ok", pairs, stacks, 0)


def canon_idx(got, residues):
    """indices -> index of the first residue with the same (chain, number, icode, name): the model only sees those"""
    if got[0] != "ok":
        return got
    first = {}
    for k, r in enumerate(residues):
        first.setdefault(r, k)
    m = [first[r] for r in residues]
    return ("ok", [(m[a], m[b], c) for a, b, c in got[1]], [(m[a], m[b]) for a, b in got[2]], got[3])


def chunks(l, n):
    for i in range(0, len(l), n):
        yield l[i:i + n]


# ---------------------------------------------------------------- the run
def run(ctx):
    res = Result("C19")
    rng = ctx.rng
    D = ctx.driver
    res.rule = ("labels: every string over the 25-letter FR3D alphabet %r up to length L (quick 4, thorough 5) plus every "
                "such string of length <= L-1 wrapped as n+x, x+a, n+x+a, plus random/near-miss labels; int(): every string "
                "over an 18-character alphabet of blanks/signs/digits/underscore/junk up to length 4; generated unit ids, "
                "listings (valid, near-valid, malformed lines; \\n, \\r\\n, \\r; comments; blanks) incl. the repository's "
                "184D-fr3d.txt; DSSR documents generated from the residue names of synthetic structures and of 184D.cif "
                "(missing keys, nulls, bad LW strings incl. attribute names of the enum class, unknown names, model "
                "wrappers).  non-trivial = label not 'other' / parsable int / listing with >=1 interaction / document "
                "with >=1 kept pair or stacking; distinct by input text" % ALPHA)

    # ---------- A. labels, exhaustive (streamed in batches: thorough has ~11M labels)
    L = ctx.pick(4, 5)
    res.dist["label_exhaustive_maxlen"] = L
    alpha = set(ALPHA)

    def covered(s):
        return len(s) <= L and set(s) <= alpha

    def label_stream():
        yield from all_labels(L)
        for x in all_labels(L - 1):
            for w in ("n" + x, x + "a", "n" + x + "a"):
                if len(w) > L:
                    yield w
        seen = set()
        for _ in range(ctx.pick(3000, 30000)):
            s = gen_label(rng)
            if s not in seen and not covered(s):
                seen.add(s)
                yield s
        for core in ["cWW", "tHS", "s35", "0BR", "3BPh"]:
            for k in range(len(core)):
                for ch in "\u017fK\u0130\u0131\u00b2\uff13\uff37\uff43\u00df\u212a":
                    yield core[:k] + ch + core[k + 1:]
                    yield "n" + core[:k] + ch + core[k + 1:] + "a"

    def label_batch(batch):
        real = [r for ch in parallel_map(real_unify_chunk, list(chunks(batch, 4000))) for r in ch]
        reqs = [["lab.unifymany", ",".join(enc(s) for s in ch)] for ch in chunks(batch, 400)]
        model = [r for line in D.ask(reqs) for r in line.split(",")]
        assert len(model) == len(batch) == len(real)
        for s, rv, mv in zip(batch, real, model):
            if not is_ascii(s):
                res.count("nonascii:label:" + ("agree" if rv == mv else "differ"))
                continue
            want = "%s:%s" % spec_label(s)
            res.case(("label", s), nontrivial=want != "other:")
            res.count("label:" + want.split(":")[0])
            if rv == want and rv == mv:
                continue
            inp = {"kind": "label", "label": s}
            if rv.startswith("raises:"):
                res.fail("spec", "C19:unify:" + rv, inp, "unify_classification(%r) raised" % s)
            elif rv != want:
                res.fail("spec", "C19:unify:%s-as-%s" % (want.split(":")[0], rv.split(":")[0]), inp,
                         "unify_classification(%r) = %s, the statement demands %s" % (s, rv, want))
            if rv != mv:
                res.fail("corr", "C19:unify", inp, "impl=%s model=%s" % (rv, mv))

    batch = []
    for s in label_stream():
        batch.append(s)
        if len(batch) >= 600000:
            label_batch(batch)
            batch = []
    label_batch(batch)
    res.sample({"label": "ncSWa", "impl": real_unify_chunk(["ncSWa"])[0], "model": D.ask1("lab.unify", enc("ncSWa"))})
    res.exhaustive = True

    # ---------- B. int() on text
    IA = [" ", "\t", "\n", "\x0b", "\x0c", "\r", "\x1c", "\x1f", "+", "-", "_", "0", "1", "9", "a", ".", "e", "x"]
    ints = ["".join(t) for n in range(ctx.pick(5, 6)) for t in itertools.product(IA, repeat=n)]
    ints += [a + b + c for a in ["", " ", "\t ", "+", "-", " -"] for b in ["12", "1_2", "0_0", "00", "1__2", "_12", "12_"]
             for c in ["", " ", "\n", " x", "\x00"]]
    ints += ["1" * 4300, "1" * 4301, "0" * 4301, "1_" * 4299 + "1", "1_" * 4300 + "1", "-" + "9" * 4300, " " * 5000 + "7"]
    ints_na = ["\u0663", "\u0661\u0662", "\uff15", "1\u2003", "\u00a05", "\x1c5\u00e9", "\u00e9\x1c5"]
    realv = [r for ch in parallel_map(real_int_chunk, list(chunks(ints + ints_na, 5000))) for r in ch]
    modelv = D.ask([["lab.int", enc(s)] for s in ints + ints_na])
    for s, rv, mv in zip(ints + ints_na, realv, modelv):
        if not is_ascii(s):
            res.count("nonascii:int:" + ("agree" if rv == mv else "differ"))
            continue
        res.case(("int", s), nontrivial=rv.startswith("ok"))
        res.count("int:" + rv.split()[0])
        if rv != mv:
            res.fail("corr", "C19:int", {"kind": "int", "text": s}, "int(%r): impl=%s model=%s" % (s, rv[:60], mv[:60]))

    # ---------- C. unit ids and full names
    units = [gen_unit(rng) for _ in range(ctx.pick(6000, 60000))]
    units += ["184D|1|A|G|1", "XXXX|1|A-2|DC|6", "X|1|A|G|1|||B", "X|1|A|G|1||||", "X|1|A|G", "", "||||", "||||1", "|||| 1 ",
              "X|1|A|G|1|a|b|", "X|1|A|G|1|a|b|c|d|e"]
    units = sorted(set(units))
    realu = parallel_map(real_unit, units)
    modelu = D.ask([["lab.unit", enc(u)] for u in units])
    for u, rv, mv in zip(units, realu, modelu):
        if not is_ascii(u):
            res.count("nonascii:unit:" + ("agree" if (("ok " + enc_res(rv[1])) if rv[0] == "ok" else "err " + rv[1]) == mv else "differ"))
            continue
        want = spec_unit(u)
        res.case(("unit", u), nontrivial=want is not None)
        res.count("unit:" + ("well-formed" if want is not None else "malformed"))
        inp = {"kind": "unit", "unit": u}
        r_s = ("ok " + enc_res(rv[1])) if rv[0] == "ok" else "err " + rv[1]
        if r_s != mv:
            res.fail("corr", "C19:unit", inp, "impl=%r model=%r" % (rv, mv))
        if want is not None and rv != ("ok", want):
            res.fail("spec", "C19:unit:wrong-residue", inp, "parse_unit_id(%r) = %r, statement demands %r" % (u, rv, want))
        if want is None and rv[0] == "ok":
            res.fail("spec", "C19:unit:accepts-malformed", inp, "parse_unit_id(%r) = %r" % (u, rv))
        if want is None and rv[0] == "err" and rv[1] not in ("ValueError", "IndexError"):
            res.fail("spec", "C19:unit:uncontained:" + rv[1], inp, "parse_unit_id(%r) raised %s, which the line processor does not contain" % (u, rv[1]))
    res.sample({"unit": "X|1|A|G|1|||B", "impl": real_unit("X|1|A|G|1|||B")})

    rs = []
    for _ in range(ctx.pick(400, 4000)):
        rs += gen_residues(rng)
    rs = sorted(set(rs), key=repr)
    fn_real = real_fullnames(rs)
    fn_model = D.ask([["lab.fullname", enc_res(r)] for r in rs])
    for r, a, b in zip(rs, fn_real, fn_model):
        res.case(("fullname", r), nontrivial=True)
        res.count("fullname")
        if enc(a) != b:
            res.fail("corr", "C19:full_name", {"kind": "fullname", "residue": list(r)}, "impl=%r model=%r" % (a, dec(b)))

    # ---------- D. listings
    texts = []
    with open("/repo/tests/184D-fr3d.txt") as f:
        seed = f.read()
    texts.append(("corpus:184D-fr3d", seed))
    texts.append(("corpus:184D-fr3d-crlf", seed.replace("\n", "\r\n")))
    seed_lines = seed.split("\n")
    for _ in range(ctx.pick(300, 3000)):
        # mutate the seed: replace labels / damage fields
        ls = list(seed_lines)
        for _ in range(rng.randint(1, 6)):
            k = rng.randrange(len(ls))
            p = ls[k].split("\t")
            if len(p) >= 3:
                r = rng.random()
                if r < 0.5:
                    p[1] = gen_label(rng)
                elif r < 0.7:
                    p[rng.choice([0, 2])] = gen_unit(rng)
                elif r < 0.85:
                    p = p[: rng.randint(0, 2)]
                else:
                    p[0] = p[0].replace("|", "", rng.randint(1, 3))
                ls[k] = "\t".join(p)
        texts.append(("seed-mutant", "\n".join(ls)))
    for lab in ["cWW", "perp", "", "ncWWa", "s35", "0BR", "9BPh", "cWB"]:
        texts.append(("hand", "X|1|A|G|1\t%s\tX|1|B|C|2\t0\n" % lab))
    texts += [("hand", ""), ("hand", "\n\n"), ("hand", "# only a comment"), ("hand", "  # X|1|A|G|1\tcWW\tX|1|B|C|2\n"), ("hand", "X|1|A|G|1\tcWW"),
              ("hand", "X|1|A|G|1\tcWW\tX|1|B|C|x\n"), ("hand", "X|1|A|G\tcWW\tX|1|B|C|2\n"),
              ("hand", "  X|1|A|G|1\tcWW\tX|1|B|C|2  \r"), ("hand", "\x1cX|1|A|G|1\tcWW\tX|1|B|C|2\x1f\n")]
    for _ in range(ctx.pick(4000, 40000)):
        texts.append(("generated", gen_listing(rng, ctx.pick(12, 30))))
    # labels outside plain ASCII (digits of other scripts, letters with marks) are not labels of the statement's alphabet and
    # are not classified here - but the import "never raises", whatever a line holds
    for lab in ("\uff13BR", "\u00b2BPh", "\u0663BPh", "c\u0057W", "t\u00c7W", "s\uff135", "\u0967BR"):
        texts.append(("hand", "X|1|A|G|1\t%s\tX|1|B|C|2\n" % lab))
        texts.append(("hand", "X|1|A|G|1\tcWW\tX|1|B|C|2\nX|1|A|G|3\t%s\tX|1|B|C|4\nX|1|A|G|5\ttHS\tX|1|B|C|6\n" % lab))
    ascii_texts = [(t, x) for t, x in texts if is_ascii(x)]
    foreign = [x for t, x in texts if not is_ascii(x)]
    for x, r in zip(foreign, parallel_map(real_listing, foreign)):
        res.count("nonascii:listing")
        if r[0] != "ok":
            res.fail("spec", "C19:listing:raises:" + str(r[1]), {"kind": "listing", "text": x, "family": "non-ascii-label"},
                     "parse_fr3d_output raised %s on a listing with a label outside ASCII" % r[1])
    reall = parallel_map(real_listing, [x for _, x in ascii_texts])
    history_probe(ctx, res, real_listing, [x for _, x in ascii_texts], "parse_fr3d_output")
    modell = D.ask([["lab.listing", enc(x)] for _, x in ascii_texts])
    nlines = 0
    for (tag, x), rv, mv in zip(ascii_texts, reall, modell):
        want = spec_listing(x)
        n = sum(map(len, want.values()))
        res.case(("listing", x), nontrivial=n > 0)
        res.count("listing:" + tag.split(":")[0])
        res.count("listing-lines", x.count("\n") + x.count("\r") + 1)
        res.count("listing-interactions-kept", n)
        for k in FIELDS:
            res.count("kept:" + k, len(want[k]))
        nlines += 1
        inp = {"kind": "listing", "family": tag, "text": x}
        sf = listing_spec_failure(x, rv)
        if sf:
            res.fail("spec", sf[0], inp, sf[1])
        mm = model_listing(mv)
        rr = ("ok", drop_cls(rv[1])) if rv[0] == "ok" else rv
        if mm != rr:
            res.fail("corr", "C19:listing", inp, "impl=%r model=%r" % (str(rr)[:400], str(mm)[:400]))
    res.sample({"listing": ascii_texts[-1][1][:200], "kept": {k: len(v) for k, v in spec_listing(ascii_texts[-1][1]).items()}})

    # ---------- E. DSSR documents
    cases = []
    hand_st = ("synthetic", [("A", 1, None, "G"), ("A", 2, None, "C")])
    for lw in ["__doc__", "__members__", "__class__", "cWW", "cww", None]:
        cases.append(("hand", hand_st, {"pairs": [{"nt1": "A.G1", "nt2": "A.C2", "LW": lw}]}, None))
    cases.append(("hand", hand_st, {"pairs": [{"nt1": "1:A.G1", "nt2": "A.C2", "LW": "tHS"}, {"nt2": "A.C2", "LW": "cWW"}],
                                   "stacks": [{"nts_long": "A.G1,A.C2,A.U3,A.G1"}, {}, {"nts_long": ""}]}, None))
    cases.append(("hand", hand_st, {"models": []}, None))
    cases.append(("hand", hand_st, {"models": [{"model": 1}], "pairs": [{"nt1": "A.G1", "nt2": "A.C2", "LW": "cWW"}]}, None))
    cases.append(("hand", hand_st, {"models": [{"model": 2, "parameters": {"pairs": [{"nt1": "A.G1", "nt2": "A.C2", "LW": "cWW"}]}}],
                                   "pairs": [{"nt1": "A.C2", "nt2": "A.G1", "LW": "tWW"}]}, 1))
    corp = ("corpus", "184D.cif")
    corp_names = real_fullnames(structure_residues(corp))
    for _ in range(ctx.pick(1500, 15000)):
        if rng.random() < 0.25:
            sspec, names = corp, corp_names
        else:
            rsd = gen_residues(rng)
            sspec, names = ("synthetic", rsd), real_fullnames(rsd)
        doc, model_no = gen_dssr(rng, names, hard=True)
        cases.append(("generated", sspec, doc, model_no))
    reald = parallel_map(real_dssr, [(s, d, m) for _, s, d, m in cases])
    history_probe(ctx, res, real_dssr, [(s, d, m) for _, s, d, m in cases], "parse_dssr_output", describe=lambda c: {"doc": c[1], "model": c[2]})
    reqs = []
    for _, s, d, m in cases:
        reqs.append(dssr_requests(structure_residues(s), d, m))
    modeld = D.ask(reqs)
    first_sample = True
    for (tag, s, d, m), rv, mv in zip(cases, reald, modeld):
        residues = structure_residues(s)
        names = corp_names if s[0] == "corpus" else real_fullnames(residues)
        text = json.dumps(d)
        if not is_ascii(text):
            res.count("nonascii:dssr")
            continue
        wp, ws = spec_dssr(names, d, m)
        res.case(("dssr", repr(s[1])[:200], text, m), nontrivial=bool(wp or ws))
        res.count("dssr:" + tag + ":" + s[0])
        res.count("dssr-pairs-kept", len(wp))
        res.count("dssr-stackings-kept", len(ws))
        if "models" in d:
            res.count("dssr:with-models")
        if has_dunder_lw(d):
            res.count("dssr:lw-is-attribute-name")
        inp = {"kind": "dssr", "family": tag, "structure": list(s) if s[0] == "corpus" else ["synthetic", [list(r) for r in s[1]]],
               "doc": d, "model": m}
        sf = dssr_spec_failure(names, d, m, rv)
        if sf:
            res.fail("spec", sf[0], inp, sf[1])
        mm = model_dssr(mv, residues)
        if canon_idx(rv, residues) != mm and not (rv[0] == "err" and mm[0] == "err" and rv[1] == mm[1]):
            res.fail("corr", "C19:dssr", inp, "impl=%r model=%r" % (str(rv)[:300], str(mm)[:300]))
        if first_sample and wp and ws:
            res.sample({"dssr": d, "kept_pairs": wp[:3], "kept_stacks": ws[:3]})
            first_sample = False

    # ---------- F. glue: parse_external_output / process_external_tool_output on the repository example
    for tool, ok in real_glue(None):
        res.case(("glue", tool), nontrivial=True)
        res.count("glue:" + tool)
        if ok is not True:
            res.fail("corr", "C19:glue:" + tool, {"kind": "glue", "tool": tool},
                     "public entry points disagree with the importer on tests/184D: %r" % (ok,))
    __import__("corr.fn_common", fromlist=["run_fn"]).run_fn(ctx, res, "C19")  # regenerated functions vs the real ones (tools/py2lean.py)
    cli_adapter(ctx, res)
    return res


def real_glue(_):
    """the public entry points around the two importers, on the repository's 184D example"""
    from rnapolis.adapter import (ExternalTool, parse_dssr_output, parse_external_output, parse_fr3d_output,
                                  process_external_tool_output)
    st = corpus_structure("184D.cif")
    out = []
    fr = "/repo/tests/184D-fr3d.txt"
    try:
        a = parse_fr3d_output(fr)
        b = parse_external_output(fr, ExternalTool.FR3D, st)
        s2d, dbs, _ = process_external_tool_output(st, fr, ExternalTool.FR3D)
        out.append(("fr3d", a == b and s2d.baseInteractions == a and len(dbs) >= 1))
    except Exception as e:  # noqa: BLE001
        out.append(("fr3d", "raises " + exc_name(e)))
    names = [r.full_name for r in st.residues]
    doc = {"pairs": [{"nt1": names[0], "nt2": names[5], "LW": "cWW"}, {"nt1": names[1], "nt2": "1:" + names[4], "LW": "cWW"},
                     {"nt1": names[2], "nt2": "nowhere", "LW": "cWW"}],
           "stacks": [{"nts_long": ",".join(names[:4])}]}
    fd, path = tempfile.mkstemp(suffix=".json", dir=TMP)
    try:
        with os.fdopen(fd, "w") as f:
            json.dump(doc, f)
        try:
            a = parse_dssr_output(path, st)
            b = parse_external_output(path, ExternalTool.DSSR, st)
            s2d, dbs, _ = process_external_tool_output(st, path, ExternalTool.DSSR)
            out.append(("dssr", a == b and s2d.baseInteractions == a and len(a.basePairs) == 2 and len(a.stackings) == 3))
        except Exception as e:  # noqa: BLE001
            out.append(("dssr", "raises " + exc_name(e)))
    finally:
        os.unlink(path)
    return out


# ---------------------------------------------------------------- shrinking and replay
def shrink(ctx, failure):
    inp = failure["input"]
    sig = failure["signature"]
    if inp.get("kind") == "listing":
        from core import ddmin
        lines = re.split(r"\r\n|\r|\n", inp["text"])

        def bad(ls):
            t = "\n".join(ls)
            sf = listing_spec_failure(t, real_listing(t))
            return sf is not None and sf[0] == sig
        if bad(lines):
            lines = ddmin(lines, bad)
            t = "\n".join(lines)
            return dict(failure, input=dict(inp, text=t), detail=listing_spec_failure(t, real_listing(t))[1])
    if inp.get("kind") == "dssr":
        s = inp["structure"]
        sspec = ("corpus", s[1]) if s[0] == "corpus" else ("synthetic", [tuple(r) for r in s[1]])
        names = real_fullnames(structure_residues(sspec))

        def bad_doc(doc):
            sf = dssr_spec_failure(names, doc, inp["model"], real_dssr((sspec, doc, inp["model"])))
            return sf is not None and sf[0] == sig
        doc = inp["doc"]
        for key in ("pairs", "stacks"):
            for d in [doc] + [m.get("parameters", {}) for m in doc.get("models", []) or []]:
                items = d.get(key)
                if items:
                    for it in list(items):
                        trial = [x for x in items if x is not it]
                        d[key] = trial
                        if bad_doc(doc):
                            items = trial
                        else:
                            d[key] = items
        if bad_doc(doc):
            return dict(failure, input=dict(inp, doc=doc))
    return failure


# ---------------------------------------------------------------- the command-line tool
def _adapter_main(job):
    """adapter.main on (structure text, listing text, flags) in a scratch directory; next to it what the library functions
    give for the same two files (plain data)"""
    import contextlib
    import io
    import logging
    import sys
    cif, listing, flags = job
    from rnapolis import adapter as A
    from rnapolis.parser import read_3d_structure
    from corr.c11 import expected_csv, expected_json
    logging.disable(logging.CRITICAL)
    d = tempfile.mkdtemp(prefix="c19-cli-")
    sp, lp = os.path.join(d, "s.cif"), os.path.join(d, "listing.txt")
    open(sp, "w").write(cif)
    open(lp, "w").write(listing)
    argv = [sp, "--external", lp, "--tool", "fr3d"]
    files = {"-c": "o.csv", "-j": "o.json", "-b": "o.bpseq"}
    for o in flags:
        argv.append(o)
        if o in files:
            argv.append(os.path.join(d, files[o]))
    out = {}
    old, buf = sys.argv, io.StringIO()
    sys.argv = ["adapter"] + argv
    try:
        with contextlib.redirect_stdout(buf), contextlib.redirect_stderr(io.StringIO()):
            try:
                A.main()
                out["main"] = "ok"
            except SystemExit as e:
                out["main"] = "exit:%r" % (e.code,)
            except Exception as e:  # noqa: BLE001
                out["main"] = "raises:" + type(e).__name__
    finally:
        sys.argv = old
    for o, n in files.items():
        q = os.path.join(d, n)
        if os.path.exists(q):
            with open(q, newline="") as f:
                out["file:" + o] = f.read()
    try:
        with open(sp) as f:
            s3 = read_3d_structure(f, None)
        bi = A.parse_external_output(lp, A.ExternalTool.FR3D, s3)
        s2, dbs, _ = A.extract_secondary_structure_from_external(s3, bi, None, "-f" in flags, False)
        out["lib"] = {"csv": expected_csv(s2.baseInteractions), "json": expected_json(s2.baseInteractions), "bpseq": s2.bpseq,
                      "n": len(expected_csv(bi)) - 1}
    except Exception as e:  # noqa: BLE001
        out["lib"] = None
        out["lib_error"] = type(e).__name__
    for n in os.listdir(d):
        os.unlink(os.path.join(d, n))
    os.rmdir(d)
    return out


def cli_adapter(ctx, res):
    """`adapter.main` writes what the import functions return: for a structure file and an FR3D listing, every option set
    ends normally and the CSV / JSON / BPSEQ files hold exactly the interactions (one row per interaction) and the BPSEQ
    that `parse_external_output` + `extract_secondary_structure_from_external` give.  Structures: 184D as it is, and a copy
    whose residues are renumbered into insertion-code siblings (5, 5A, 5B ...); listings: the repository's listing and
    generated ones naming random residue pairs of the structure under labels of every kind."""
    import csv as _csv
    import io
    from core import fork_map
    from gen import g3
    rng = ctx.rng
    tests = os.environ.get("RNAPOLIS_TESTS", "/repo/tests")
    base_st = g3.load(os.path.join(tests, "184D.cif"))
    base_st = g3.mk_structure([r for r in base_st.residues if r.is_nucleotide])
    jobs = []
    tmp = tempfile.mkdtemp(prefix="c19-cli-gen-")

    def cif_of(st):
        p = os.path.join(tmp, "x.cif")
        g3.write_cif(st, p)
        t = open(p).read()
        os.unlink(p)
        return t

    def unit(r):
        return "XXXX|1|%s|%s|%d|||%s" % (r.chain, r.name, r.number, r.icode or "")
    labels = LW_NAMES + ["n" + x for x in LW_NAMES[:4]] + list(STACK) + ["0BPh", "4BPh", "7BR", "ncsS", "bif", "cWWa"]
    structures = [("184D", base_st)]
    for _ in range(ctx.pick(3, 12)):
        structures.append(("184D:icode-siblings", g3.icode_siblings(base_st, rng)))
    # chain identifiers with a comma or a quote in them (legal in mmCIF): what is written must still be a table
    for mark in (",", '"'):
        names = {}
        structures.append(("184D:chain-with-%s" % ("comma" if mark == "," else "quote"),
                           g3.mk_structure([g3.renumber(r, names.setdefault(r.chain, "A%s%s" % (mark, chr(66 + len(names)))), r.number, r.icode)
                                            for r in base_st.residues])))
    optsets = [["-c"], ["-j"], ["-c", "-j", "-b"], ["-c", "-f"], []]
    try:
        for tag, st in structures:
            text = cif_of(st)
            rs = list(st.residues)
            listings = []
            if tag == "184D":
                listings.append(open(os.path.join(tests, "184D-fr3d.txt")).read())
            for _ in range(ctx.pick(3, 10)):
                lines = []
                for _ in range(rng.randint(1, 25)):
                    a, b = rng.sample(rs, 2)
                    lines.append("%s\t%s\t%s\t0" % (unit(a), rng.choice(labels), unit(b)))
                listings.append("\n".join(lines) + "\n")
            for l in listings:
                for flags in optsets:
                    jobs.append((text, l, flags, tag))
    finally:
        os.rmdir(tmp)
    outs = fork_map(_adapter_main, [j[:3] for j in jobs], chunksize=1)
    for (text, listing, flags, tag), o in zip(jobs, outs):
        inp = {"family": "cli:adapter:" + tag, "flags": flags, "listing": listing, "structure_text": text}
        res.count("cli-adapter:" + tag)
        lib = o.get("lib")
        if lib is None:
            res.count("cli-adapter:library-raises:" + str(o.get("lib_error")))
            continue
        res.case(("cli-adapter", tag, tuple(flags), hash(listing)), nontrivial=lib["n"] > 0)
        missing = [x for x in ("-c", "-j", "-b") if x in flags and "file:" + x not in o]
        if o["main"] != "ok" and (missing or not flags):
            res.fail("spec", "C19:cli:main-%s" % o["main"].replace("raises:", "raises:").split(":")[0] + ":" + o["main"].split(":")[-1], inp,
                     "adapter.main ended with %s on a listing the import functions handle (%d interactions); not written: %s" % (o["main"], lib["n"], missing))
            continue
        if "file:-c" in o:
            rows = [r for r in _csv.reader(io.StringIO(o["file:-c"], newline=""))]
            if sorted(map(tuple, rows[1:])) != sorted(map(tuple, lib["csv"][1:])) or rows[:1] != lib["csv"][:1]:
                res.fail("spec", "C19:cli:csv-differs-from-import", inp, "CSV has %d rows, the import gives %d interactions" % (len(rows) - 1, len(lib["csv"]) - 1))
        if "file:-j" in o and json.loads(o["file:-j"]).get("baseInteractions") != lib["json"]:
            res.fail("spec", "C19:cli:json-differs-from-import", inp, "baseInteractions of the JSON file are not the imported lists")
        if "file:-b" in o and o["file:-b"].strip() != str(lib["bpseq"]).strip():
            res.fail("spec", "C19:cli:bpseq-differs-from-import", inp, "BPSEQ file differs")


def replay_cli(ctx, inp):
    from core import fork_map
    o = fork_map(_adapter_main, [(inp["structure_text"], inp["listing"], inp["flags"])], nproc=1)[0]
    print("adapter.main", " ".join(inp["flags"]), "->", o["main"])
    for k in sorted(o):
        if k.startswith("file:"):
            print("--- written for %s:\n%s" % (k[5:], o[k][:1200]))
    if o.get("lib"):
        print("--- import functions: %d interactions" % o["lib"]["n"])
    if o["main"] != "ok":
        print("SPEC FAILURE C19:cli:main-%s" % o["main"])


def replay(ctx, data):
    if str(data.get("input", {}).get("family", "")).startswith("cli:adapter"):
        return replay_cli(ctx, data["input"])
    """re-run one stored input through implementation, model and the statement's oracle"""
    inp = data["input"]
    D = ctx.driver
    k = inp.get("kind")
    if k == "label":
        s = inp["label"]
        print("impl :", real_unify_chunk([s])[0])
        print("model:", D.ask1("lab.unify", enc(s)))
        print("spec :", "%s:%s" % spec_label(s))
    elif k == "int":
        print("impl :", real_int_chunk([inp["text"]])[0])
        print("model:", D.ask1("lab.int", enc(inp["text"])))
    elif k == "unit":
        print("impl :", real_unit(inp["unit"]))
        print("model:", D.ask1("lab.unit", enc(inp["unit"])))
        print("spec :", spec_unit(inp["unit"]))
    elif k == "fullname":
        r = tuple(inp["residue"])
        print("impl :", real_fullnames([r])[0])
        print("model:", dec(D.ask1("lab.fullname", enc_res(r))))
    elif k == "listing":
        rv = real_listing(inp["text"])
        print("impl :", rv)
        print("model:", model_listing(D.ask1("lab.listing", enc(inp["text"]))))
        print("spec :", spec_listing(inp["text"]))
        print("spec failure:", listing_spec_failure(inp["text"], rv))
    elif k == "dssr":
        s = inp["structure"]
        sspec = ("corpus", s[1]) if s[0] == "corpus" else ("synthetic", [tuple(r) for r in s[1]])
        residues = structure_residues(sspec)
        names = real_fullnames(residues)
        rv = real_dssr((sspec, inp["doc"], inp["model"]))
        print("document:", json.dumps(inp["doc"]))
        print("impl :", rv)
        print("model:", model_dssr(D.ask(([dssr_requests(residues, inp["doc"], inp["model"])]))[0], residues))
        print("spec :", spec_dssr(names, inp["doc"], inp["model"]))
        print("spec failure:", dssr_spec_failure(names, inp["doc"], inp["model"], rv))
    elif k == "glue":
        print("impl :", real_glue(None))
    else:
        print("unknown replay kind", k)

"""C20 — mmCIF item editing changes only its target; CLI output equals library result.

Library part.  For every (document text, request): the real `copy_from_to` / `replace_value` runs on the
text; input and output are tokenised by the same `mmcif` reader the library uses; the Lean model
(`tbl.copy` / `tbl.replace`) transforms the parsed input.  Functional correspondence: same outcome
(untouched / rewritten document / exception), rewritten documents equal as maps
*category name -> (items, rows in order)* per data block, same mapping in the same insertion order.
Specification predicates (Lean, `tbl.copyspec` / `tbl.replacespec`, categories looked up by name) are
evaluated on what the real code returned: frame condition, target = source, new column = image of the
returned mapping, mapping = first-seen mapping (injective when the alphabet has no repeated letter).
A missing category / source item must return the input text byte for byte and must not raise.

CLI part.  The real tool (`python -m rnapolis.transformer`) runs in a subprocess on temporary files; what
it writes must be byte-identical to what the library function returns in-process for the file's content
with the same arguments (specification), and must be what the dispatch model `tbl.cli cur` predicts from
the flags the translator read off `main` (correspondence).
"""
import os
import shutil
import subprocess
import sys
import tempfile

from core import Result, call, parallel_map, short_hash
from gen import g6

MIN_DOC = "data_a\n_c.x 1\n"


# ------------------------------------------------------------------------------------------ real code

def _lib_call(text, req):
    from rnapolis import transformer as T
    if req["mode"] == "copy":
        if req.get("defaults"):
            return call(T.copy_from_to, text)
        return call(T.copy_from_to, text, req["category"], req["src"], req["to"])
    if req.get("defaults"):
        return call(T.replace_value, text)
    if req.get("values") is None:
        return call(T.replace_value, text, req["category"], req["col"])
    return call(T.replace_value, text, req["category"], req["col"], req["values"])


def real_lib(case):
    """run the library function on one text; tokenise input and output with the library's reader"""
    text, req = case
    out = {"pin": g6.parse_text(text)}
    if req.get("asked_before"):
        r0 = _lib_call(text, req)
        if r0[0] == "ok" and isinstance(r0[1], tuple) and len(r0[1]) == 2 and isinstance(r0[1][1], dict):
            r0[1][1].clear()
            r0[1][1]["edited by the caller"] = "!"
    r = _lib_call(text, req)
    if r[0] == "err":
        out["res"] = ("err", r[1])
        return out
    val = r[1]
    mapping = None
    if req["mode"] == "replace":
        if not (isinstance(val, tuple) and len(val) == 2 and isinstance(val[1], dict)):
            out["res"] = ("badtype", repr(type(val)))
            return out
        val, mapping = val
    if not isinstance(val, str):
        out["res"] = ("badtype", repr(type(val)))
        return out
    out["res"] = ("ok", val == text, [[str(k), str(v)] for k, v in mapping.items()] if mapping is not None else None)
    out["pout"] = out["pin"] if val == text else g6.parse_text(val)
    if val != text and len(val) < 3000:
        out["text_out"] = val
    return out


def run_cli(text, args, keep=False, missing_input=False):
    """the real tool in a subprocess on temporary files -> observed outcome"""
    d = tempfile.mkdtemp(prefix="c20-")
    try:
        inp = os.path.join(d, "in.cif")
        outp = os.path.join(d, "out.cif")
        if args.get("_inplace") == "same":
            outp = inp                                  # edit the file in place
        elif args.get("_inplace") == "alias":
            outp = os.path.join(d, ".", "in.cif")       # the same file under another spelling of its path
        if not missing_input:
            with open(inp, "w") as f:
                f.write(text)
        cmd = [sys.executable, "-m", "rnapolis.transformer", inp, outp]
        for k, flag in (("category", "--category"), ("copy_from", "--copy-from"), ("copy_to", "--copy-to"),
                        ("replace", "--replace"), ("values", "--values")):
            if args.get(k) is not None:
                cmd.append("%s=%s" % (flag, args[k]))
        p = subprocess.run(cmd, stdout=subprocess.PIPE, stderr=subprocess.PIPE, cwd=d, timeout=600)
        err = p.stderr.decode(errors="replace")
        exc = None
        if p.returncode != 0:
            last = [l for l in err.strip().splitlines() if l.strip()]
            exc = last[-1].split(":")[0].strip() if last else "?"
        written = None
        if os.path.exists(outp):
            with open(outp) as f:
                written = f.read()
        return {"rc": p.returncode, "exc": exc, "written": written, "usage": b"usage:" in p.stdout,
                "inp": inp, "outp": outp, "stderr_tail": err[-300:]}
    finally:
        if not keep:
            shutil.rmtree(d, ignore_errors=True)


def lib_for_cli(text, args):
    """what the library function returns in-process for the file's content with the tool's arguments"""
    from rnapolis import transformer as T
    if args.get("copy_from") and args.get("copy_to"):
        r = call(T.copy_from_to, text, args.get("category"), args["copy_from"], args["copy_to"])
        return ("copy",) + r
    if args.get("replace") and args.get("values"):
        r = call(T.replace_value, text, args.get("category"), args["replace"], args["values"])
        if r[0] == "ok":
            r = ("ok", r[1][0])
        return ("replace",) + r
    return ("help", "ok", None)


def real_cli(case):
    text, args, missing_input = case
    o = run_cli(text, args, missing_input=missing_input)
    o["lib"] = lib_for_cli(text, args) if not missing_input else ("missing-input", "err", "other:FileNotFoundError")
    o["pcontent"] = g6.parse_text(text)
    o["ppath"] = g6.parse_text(o["inp"])
    if o["written"] is not None and o["written"] != text and o["written"] != o["inp"]:
        o["pwritten"] = g6.parse_text(o["written"])
    return o


# ------------------------------------------------------------------------------------------ inputs

def python_missing(pin, req):
    """independent reading of 'missing category or source item' on the tokenised input"""
    if not pin:
        return True
    cats = {n: items for n, items, _ in pin[0][1]}
    if req["category"] not in cats:
        return True
    item = req["src"] if req["mode"] == "copy" else req["col"]
    return item not in cats[req["category"]]


def corpus_requests(ctx, name, text):
    """requests for one corpus file"""
    reqs = [
        {"mode": "copy", "category": "atom_site", "src": "label_asym_id", "to": "auth_asym_id", "defaults": True},
        {"mode": "replace", "category": "atom_site", "col": "auth_asym_id", "values": None, "defaults": True},
        {"mode": "copy", "category": "atom_site", "src": "label_comp_id", "to": "verif_new_item"},
        {"mode": "copy", "category": "no_such_category", "src": "id", "to": "x"},
    ]
    if not ctx.quick or len(text) < 250000:
        reqs += [
            {"mode": "replace", "category": "atom_site", "col": "label_atom_id", "values": "ABC", "alphabet": "short"},
            {"mode": "replace", "category": "atom_site", "col": "no_such_item", "values": "ABC", "alphabet": "upper"},
            {"mode": "copy", "category": "atom_site", "src": "no_such_item", "to": "auth_asym_id"},
            {"mode": "replace", "category": "atom_site", "col": "label_comp_id", "values": None, "alphabet": "default"},
            {"mode": "copy", "category": "atom_site", "src": "auth_seq_id", "to": "auth_seq_id"},
        ]
    if not ctx.quick:
        reqs += [
            {"mode": "copy", "category": "entity", "src": "id", "to": "pdbx_description"},
            {"mode": "replace", "category": "struct_asym", "col": "id", "values": None, "alphabet": "default"},
            {"mode": "replace", "category": "atom_site", "col": "type_symbol", "values": "zyxwvutsrqponm", "alphabet": "upper"},
        ]
    return reqs


def fixed_cases():
    """hand-made cases, among them the malformed stream"""
    out = []
    for tag, t in g6.MALFORMED:
        for req in ({"mode": "copy", "category": "c", "src": "x", "to": "y"},
                    {"mode": "copy", "category": "c", "src": "y", "to": "x"},
                    {"mode": "copy", "category": "c", "src": "x", "to": "x"},
                    {"mode": "replace", "category": "c", "col": "x", "values": "AB", "alphabet": "short"},
                    {"mode": "replace", "category": "c", "col": "x", "values": "ABCDEF", "alphabet": "upper"},
                    {"mode": "replace", "category": "c", "col": "y", "values": "", "alphabet": "empty"}):
            out.append(("malformed:" + tag, t, dict(req)))
    t4 = ("data_t\nloop_\n_atom_site.id\n_atom_site.label_asym_id\n_atom_site.auth_asym_id\n"
          "1 A A\n2 B B\n3 A-2 A-2\n4 A A\n5 B-2 B-2\n#\n_entry.id 'my id'\n")
    out.append(("hand", t4, {"mode": "replace", "category": "atom_site", "col": "auth_asym_id", "values": "ABCD", "alphabet": "exact"}))
    out.append(("hand", t4, {"mode": "replace", "category": "atom_site", "col": "auth_asym_id", "values": "ABC", "alphabet": "short"}))
    out.append(("hand", t4, {"mode": "replace", "category": "atom_site", "col": "auth_asym_id", "values": None, "defaults": True}))
    out.append(("hand", t4, {"mode": "copy", "category": "atom_site", "src": "label_asym_id", "to": "auth_asym_id", "defaults": True}))
    out.append(("hand", t4, {"mode": "copy", "category": "entry", "src": "id", "to": "title"}))
    return out


def build_lib_inputs(ctx, res):
    rng = ctx.rng
    inputs = []  # (family, text, req)
    inputs += fixed_cases()
    for name, text in g6.corpus():
        if not text.strip():
            # an empty corpus file is still a document: nothing to edit, must come back untouched
            inputs.append(("corpus:" + name, text, {"mode": "copy", "category": "atom_site", "src": "label_asym_id", "to": "auth_asym_id", "defaults": True}))
            continue
        for req in corpus_requests(ctx, name, text):
            inputs.append(("corpus:" + name, text, req))
    stats = {}
    for _ in range(ctx.pick(1500, 20000)):
        blocks = g6.gen_blocks(rng)
        text = g6.serialise(rng, blocks, stats)
        req = g6.choose_request(rng, blocks)
        if rng.random() < 0.3:
            # the caller has made this very call before and has edited what it got back (the returned mapping is the
            # caller's to change): the second answer must be the same as a first one
            req = dict(req, asked_before=True)
        inputs.append(("generated", text, req))
    for k, v in stats.items():
        res.dist["value-form:" + k] = v
    return inputs


def cli_cases(ctx):
    rng = ctx.rng
    cases = []  # (family, text, args, missing_input)
    t4 = ("data_t\nloop_\n_atom_site.id\n_atom_site.label_asym_id\n_atom_site.auth_asym_id\n"
          "1 A X\n2 B Y\n3 'A 2' Z\n#\n_entry.id 'my id'\n")
    cases.append(("min", MIN_DOC, {"category": "c", "copy_from": "x", "copy_to": "y"}, False))
    cases.append(("min", MIN_DOC, {"category": "c", "replace": "x", "values": "AB"}, False))
    cases.append(("hand", t4, {"category": "atom_site", "copy_from": "label_asym_id", "copy_to": "auth_asym_id"}, False))
    cases.append(("hand", t4, {"category": "atom_site", "replace": "auth_asym_id", "values": "ABCD"}, False))
    cases.append(("hand", t4, {"category": "atom_site", "replace": "auth_asym_id", "values": "AB"}, False))  # exhausted
    cases.append(("hand", t4, {"category": "nope", "copy_from": "label_asym_id", "copy_to": "auth_asym_id"}, False))
    cases.append(("hand", t4, {"category": "atom_site", "replace": "nope", "values": "ABCD"}, False))
    cases.append(("hand", t4, {"copy_from": "label_asym_id", "copy_to": "auth_asym_id"}, False))  # no --category
    cases.append(("hand", t4, {"category": "atom_site"}, False))  # no mode: usage
    cases.append(("hand", t4, {"category": "atom_site", "copy_from": "label_asym_id"}, False))  # incomplete mode
    cases.append(("hand", t4, {"category": "atom_site", "copy_from": "label_asym_id", "copy_to": "new_item"}, False))
    # documents that do not end in a line end (and an empty one), with requests that leave the document untouched: the tool
    # writes exactly what the library returns, i.e. the content as it is
    # (no CRLF variant: the tool reads its input in text mode, so "the input file's content" it hands to the library has
    # universal newlines already - comparing with the raw bytes would demand more than the statement does)
    for doc in (t4.rstrip("\n"), MIN_DOC.rstrip("\n"), "", "data_only", t4 + "\n\n"):
        cases.append(("no-final-newline", doc, {"category": "nope", "copy_from": "label_asym_id", "copy_to": "auth_asym_id"}, False))
        cases.append(("no-final-newline", doc, {"category": "atom_site", "replace": "nope", "values": "ABCD"}, False))
        cases.append(("no-final-newline", doc, {"category": "atom_site", "copy_from": "label_asym_id", "copy_to": "auth_asym_id"}, False))
    cases.append(("missing-input", t4, {"category": "atom_site", "copy_from": "label_asym_id", "copy_to": "auth_asym_id"}, True))
    # output path = input path (in-place edit), literally and under another spelling
    for how in ("same", "alias"):
        cases.append(("in-place", t4, {"category": "atom_site", "copy_from": "label_asym_id", "copy_to": "auth_asym_id", "_inplace": how}, False))
        cases.append(("in-place", t4, {"category": "atom_site", "replace": "auth_asym_id", "values": "ABCD", "_inplace": how}, False))
        cases.append(("in-place", t4, {"category": "nope", "copy_from": "label_asym_id", "copy_to": "auth_asym_id", "_inplace": how}, False))
    corp = [(n, t) for n, t in g6.corpus() if t.strip()]
    corp.sort(key=lambda nt: len(nt[1]))
    for n, t in corp[: ctx.pick(3, len(corp))]:
        cases.append(("corpus:" + n, t, {"category": "atom_site", "copy_from": "label_asym_id", "copy_to": "auth_asym_id"}, False))
        cases.append(("corpus:" + n, t, {"category": "atom_site", "replace": "auth_asym_id", "values": "ABCDEFGHIJKLMNOPQRSTUVWXYZ"}, False))
    for _ in range(ctx.pick(16, 200)):
        blocks = g6.gen_blocks(rng)
        text = g6.serialise(rng, blocks)
        req = g6.choose_request(rng, blocks)
        if req["mode"] == "copy":
            args = {"category": req["category"], "copy_from": req["src"], "copy_to": req["to"]}
        else:
            v = req["values"] if req["values"] is not None else g6.DEFAULT_VALUES
            args = {"category": req["category"], "replace": req["col"], "values": v}
        # argparse: an option value that starts with '-' is passed as --opt=value (run_cli does that)
        complete = bool((args.get("copy_from") and args.get("copy_to")) or (args.get("replace") and args.get("values")))
        if complete and rng.random() < 0.15:     # (without a complete mode nothing is written: not an in-place case)
            args["_inplace"] = rng.choice(["same", "alias"])
        cases.append(("generated" if not args.get("_inplace") else "generated-in-place", text, args, False))
    return cases


# ------------------------------------------------------------------------------------------ evaluation

def model_requests(pin, pout, req, defaults, res_kind, mapping):
    """driver lines for one library case"""
    f = g6.enc_blocks(pin)
    if req.get("defaults"):
        if req["mode"] == "copy":
            cat, a, b = defaults[0], defaults[1], defaults[2]
        else:
            cat, a, b = defaults[3], defaults[4], defaults[5]
    elif req["mode"] == "copy":
        cat, a, b = req["category"], req["src"], req["to"]
    else:
        cat, a, b = req["category"], req["col"], (req["values"] if req.get("values") is not None else defaults[5])
    reqs = []
    if req["mode"] == "copy":
        reqs.append(("model", ["tbl.copy", f, g6.hx(cat), g6.hx(a), g6.hx(b)]))
        if res_kind == "rewritten":
            reqs.append(("spec", ["tbl.copyspec", f, g6.enc_blocks(pout), g6.hx(cat), g6.hx(a), g6.hx(b)]))
    else:
        reqs.append(("model", ["tbl.replace", f, g6.hx(cat), g6.hx(a), g6.hx(b)]))
        if res_kind == "rewritten":
            reqs.append(("spec", ["tbl.replacespec", f, g6.enc_blocks(pout), g6.hx(cat), g6.hx(a), g6.hx(b),
                                  g6.enc_mapping(dict(mapping or []))]))
    return reqs, {"category": cat, "a": a, "b": b}


def effective(req, defaults):
    """the request with the defaults filled in (for `python_missing`)"""
    r = dict(req)
    if req.get("defaults"):
        if req["mode"] == "copy":
            r.update(category=defaults[0], src=defaults[1], to=defaults[2])
        else:
            r.update(category=defaults[3], col=defaults[4], values=defaults[5])
    elif req["mode"] == "replace" and req.get("values") is None:
        r["values"] = defaults[5]
    return r


def judge_lib(res, fam, text, req, o, model, spec, defaults, stored_text=None):
    """compare one library case; returns a one-line description (for replay)"""
    inp = {"kind": "lib", "family": fam, "request": req, "text": stored_text if stored_text is not None else text}
    mode = req["mode"]
    ereq = effective(req, defaults)
    pin = o["pin"]
    missing = python_missing(pin, ereq)
    rect = g6.is_rect(pin[:1])
    r = o["res"]
    sig = "C20:%s" % ("copy_from_to" if mode == "copy" else "replace_value")
    counted = False
    # ---- specification on the real result
    if r[0] == "badtype":
        res.fail("spec", sig + ":returns-wrong-type", inp, "returned %s" % r[1])
        return "badtype"
    if missing:
        if r[0] == "err":
            res.fail("spec", sig + ":missing:raises:" + r[1], inp, "category or source item is missing but the call raised " + r[1])
        elif not r[1]:
            res.fail("spec", sig + ":missing:file-changed", inp, "category or source item is missing but the returned text differs from the input")
        elif mode == "replace" and r[2]:
            res.fail("corr", sig + ":missing:mapping-not-empty", inp, "mapping %r" % (r[2],))
    elif r[0] == "ok" and rect and spec is not None and spec != "ok":
        # only a document the trusted tokeniser can carry is a witness
        exp = g6.dec_blocks(model.split(" ")[1]) if model.startswith("ok ") else None
        if exp is not None and not g6.faithful(exp):
            counted = True
            res.undecided += 1
            res.count("tokeniser-cannot-carry-expected-document")
        else:
            res.fail("spec", sig + ":" + spec[5:], inp, "specification predicate on the real output: %s" % spec)
    # ---- correspondence with the model
    if model.startswith("err "):
        impl = "err " + r[1] if r[0] == "err" else "ok"
        if impl != model:
            res.fail("corr", sig + ":outcome", inp, "impl=%r model=%r" % (impl, model))
    elif model.startswith("unchanged"):
        if not missing:
            res.fail("corr", sig + ":missing-disagree", inp, "model says untouched, python reading says present")
        if r[0] != "ok" or not r[1]:
            if not missing:
                res.fail("corr", sig + ":outcome", inp, "impl=%r model=unchanged" % (r[:2],))
    else:
        parts = model.split(" ")
        exp = g6.dec_blocks(parts[1])
        if missing:
            res.fail("corr", sig + ":missing-disagree", inp, "model rewrites, python reading says missing")
        if r[0] != "ok":
            res.fail("corr", sig + ":outcome", inp, "impl=%r model=ok" % (r,))
        else:
            if g6.as_map(o["pout"]) != g6.as_map(exp):
                if not g6.faithful(exp):
                    if not counted:
                        res.undecided += 1
                        res.count("tokeniser-cannot-carry-expected-document")
                else:
                    res.fail("corr", sig + ":document", inp, "parsed output differs from the model's document: %s" % diff_maps(o["pout"], exp))
            if mode == "replace":
                mm = [[k, v] for k, v in g6.dec_mapping(parts[2]).items()]
                if mm != r[2]:
                    res.fail("corr", sig + ":mapping", inp, "impl=%r model=%r" % (r[2], mm))
    return "res=%r model=%s spec=%s missing=%s rect=%s" % (r[:2], model[:60], spec, missing, rect)


def diff_maps(a, b):
    a, b = g6.as_map(a), g6.as_map(b)
    if len(a) != len(b):
        return "block count %d vs %d" % (len(a), len(b))
    for (na, ca), (nb, cb) in zip(a, b):
        if na != nb:
            return "block name %r vs %r" % (na, nb)
        for k in sorted(set(ca) | set(cb)):
            if ca.get(k) != cb.get(k):
                x, y = ca.get(k), cb.get(k)
                if x is None or y is None:
                    return "category %r only on one side" % k
                if x[0] != y[0]:
                    return "category %r items %r vs %r" % (k, x[0], y[0])
                for i, (ra, rb) in enumerate(zip(x[1], y[1])):
                    if ra != rb:
                        return "category %r row %d: %r vs %r" % (k, i, ra, rb)
                return "category %r row count %d vs %d" % (k, len(x[1]), len(y[1]))
    return "?"


def cli_model_line(which, o, text, args, missing_input):
    return ["tbl.cli", which, g6.hx(o["inp"]), g6.hx(o["outp"]), g6.opt(args.get("category")), g6.opt(args.get("copy_from")),
            g6.opt(args.get("copy_to")), g6.opt(args.get("replace")), g6.opt(args.get("values")),
            g6.opt(None if missing_input else text), g6.enc_blocks(o["ppath"]), g6.enc_blocks(o["pcontent"])]


def observed(o):
    if o["rc"] != 0:
        return "failed"
    if o["written"] is None:
        return "help" if o["usage"] else "nothing"
    return "wrote"


def judge_cli(res, fam, text, args, missing_input, o, model):
    inp = {"kind": "cli", "family": fam, "args": args, "text": text, "missing_input": missing_input}
    mode, lk, lv = o["lib"]
    obs = observed(o)
    sig = "C20:cli:" + mode
    # ---- specification: the tool writes exactly what the library function returns for the file's content
    if mode in ("copy", "replace"):
        if lk == "ok":
            if obs == "failed":
                res.fail("spec", "%s:raises:%s" % (sig, o["exc"]), inp,
                         "library returns a text for the file's content; the tool raised %s (%s)" % (o["exc"], o["stderr_tail"][-160:]))
            elif obs != "wrote":
                res.fail("spec", sig + ":writes-nothing", inp, "library returns a text; the tool wrote no file")
            elif o["written"] != lv:
                if o["written"] == o["inp"]:
                    res.fail("spec", sig + ":writes-input-path", inp,
                             "the tool wrote the *path* of the input file (%r) instead of the library result for its content" % o["written"])
                else:
                    res.fail("spec", sig + ":output-ne-library", inp, "written %r… library %r…" % (o["written"][:120], lv[:120]))
        else:
            # the library returns nothing for this content: the tool must fail too (which exception it
            # dies of is compared with the dispatch model below, not demanded by the statement)
            if obs != "failed":
                res.fail("spec", sig + ":library-raises-tool-does-not", inp,
                         "library raises %s for the file's content; tool: %s, wrote %r" % (lv, obs, (o["written"] or "")[:80]))
    elif mode == "help":
        if obs != "help":
            res.fail("corr", "C20:cli:help", inp, "no complete mode given; observed %s %s" % (obs, o["exc"]))
    # ---- correspondence with the dispatch model for the flags of the present tree
    if args.get("_inplace"):
        return "observed=%s exc=%s lib=%s/%s (in place: statement only)" % (obs, o["exc"], mode, lk)
    if model == "help":
        ok = obs == "help"
    elif model.startswith("failed "):
        _, e, trunc = model.split(" ")
        ename = o["exc"] if o["exc"] in ("IndexError", "StopIteration", "ValueError", "TypeError", "KeyError") else "other"
        ok = obs == "failed" and e == ename and (trunc == "true") == (o["written"] is not None)
    else:
        parts = model.split(" ")
        ok = obs == "wrote" and g6.unhx(parts[1]) == o["outp"]
        if ok and parts[2] == "raw":
            ok = g6.unhx(parts[3]) == o["written"]
        elif ok:
            exp = g6.dec_blocks(parts[3])
            got = o.get("pwritten")
            if got is None:
                got = o["pcontent"] if o["written"] == text else g6.parse_text(o["written"])
            ok = g6.as_map(got) == g6.as_map(exp) or not g6.faithful(exp)
    if not ok:
        res.fail("corr", "C20:cli:dispatch-model", inp, "observed %s exc=%s written=%r… model=%s" % (
            obs, o["exc"], (o["written"] or "")[:80], model[:120]))
    return "observed=%s exc=%s lib=%s/%s model=%s" % (obs, o["exc"], mode, lk, model[:80])


def run(ctx):
    res = Result("C20")
    res.rule = ("library: corpus mmCIF files x fixed requests + hand-made/malformed texts + generated multi-category documents "
                "(loop and key-value categories; bare/single/double-quoted/;-text values; multi-word, '?' and '.'; 1-3 data blocks) "
                "x random request (category/item present, absent, case variant; new, existing or identical target; alphabets default/"
                "upper/short/exact/repeated-letter/special/empty); CLI: the real tool in a subprocess on temporary files. "
                "non-trivial = category and item present so that the document is rewritten; distinct by hash of (text, request)")
    D = ctx.driver
    defaults = [g6.unhx(x) for x in D.ask1("tbl.defaults").split(" ")]
    res.notes.append("flags read off main(): " + D.ask1("tbl.flags"))
    # ---------------- library
    inputs = build_lib_inputs(ctx, res)
    outs = parallel_map(real_lib, [(t, r) for _, t, r in inputs])
    lines, idx = [], []
    for ci, ((fam, text, req), o) in enumerate(zip(inputs, outs)):
        r = o["res"]
        kind = "rewritten" if (r[0] == "ok" and not python_missing(o["pin"], effective(req, defaults))) else "other"
        rq, _ = model_requests(o["pin"], o.get("pout"), req, defaults, kind, r[2] if r[0] == "ok" else None)
        for what, l in rq:
            lines.append(l)
            idx.append((ci, what))
    resp = D.ask(lines)
    per = {}
    for (ci, what), r in zip(idx, resp):
        per.setdefault(ci, {})[what] = r
    for ci, ((fam, text, req), o) in enumerate(zip(inputs, outs)):
        m = per[ci]
        big = len(text) > 20000
        stored = None
        if big and fam.startswith("corpus:"):
            stored = {"corpus_file": fam.split(":", 1)[1]}
        judge_lib(res, fam, text, req, o, m["model"], m.get("spec"), defaults, stored_text=stored)
        rewritten = m["model"].startswith("ok ")
        res.case(short_hash([text if not stored else stored, req]), nontrivial=rewritten)
        res.count("family:" + fam.split(":")[0])
        res.count("mode:" + req["mode"])
        if req.get("asked_before"):
            res.count("asked-before-and-result-edited")
        res.count("outcome:" + ("rewritten" if rewritten else m["model"].split(" ")[0] + ("" if not m["model"].startswith("err") else ":" + m["model"][4:])))
        if req["mode"] == "replace":
            res.count("alphabet:" + ("default" if req.get("defaults") else req.get("alphabet", "?")))
        elif rewritten:
            ereq = effective(req, defaults)
            items = dict((n, it) for n, it, _ in o["pin"][0][1]).get(ereq["category"], [])
            res.count("target:" + ("same-as-source" if ereq["to"] == ereq["src"] else "existing" if ereq["to"] in items else "new"))
        if len(o["pin"]) > 1:
            res.count("multi-block")
        if not g6.is_rect(o["pin"]):
            res.count("ragged-rows")
    # the specification predicates must accept the model's own output (they are what the theorems say)
    lines, idx = [], []
    for ci, ((fam, text, req), o) in enumerate(zip(inputs, outs)):
        m = per[ci]["model"]
        if not m.startswith("ok ") or len(text) > 100000 or not g6.is_rect(o["pin"][:1]):
            continue
        parts = m.split(" ")
        rq, _ = model_requests(o["pin"], g6.dec_blocks(parts[1]), req, defaults, "rewritten",
                               list(g6.dec_mapping(parts[2]).items()) if req["mode"] == "replace" else None)
        lines.append(rq[1][1])
        idx.append(ci)
    for ci, r in zip(idx, D.ask(lines)):
        res.count("spec-on-model-output")
        if r != "ok":
            fam, text, req = inputs[ci]
            res.fail("corr", "C20:spec-rejects-model-output", {"kind": "lib", "family": fam, "request": req, "text": text}, r)
    for k in (0, len(inputs) // 2, len(inputs) - 1):
        fam, text, req = inputs[k]
        res.sample({"family": fam, "request": req, "text": text[:200], "model": per[k]["model"][:80]})
    # ---------------- CLI
    cases = cli_cases(ctx)
    couts = parallel_map(real_cli, [(t, a, mi) for _, t, a, mi in cases], nproc=16, chunksize=1) if len(cases) >= 64 else \
        _pool_map(real_cli, [(t, a, mi) for _, t, a, mi in cases])
    lines = [cli_model_line("cur", o, t, a, mi) for (_, t, a, mi), o in zip(cases, couts)]
    resp = D.ask(lines)
    for (fam, t, a, mi), o, m in zip(cases, couts, resp):
        judge_cli(res, fam, t, a, mi, o, m)
        res.case(short_hash(["cli", t, a, mi]), nontrivial=o["lib"][0] in ("copy", "replace"))
        res.count("cli:" + o["lib"][0])
        res.count("cli-observed:" + observed(o))
    res.sample({"family": "cli", "args": cases[0][2], "observed": observed(couts[0]), "written": (couts[0]["written"] or "")[:80]})
    return res


def _pool_map(fn, items):
    from core import fork_map
    return fork_map(fn, items, nproc=min(16, max(1, len(items))), chunksize=1)


# ------------------------------------------------------------------------------------------ shrink / replay

def _text_of(inp):
    t = inp["text"]
    if isinstance(t, dict):
        return open(os.path.join(g6.TESTS, t["corpus_file"])).read()
    return t


def _eval(ctx, inp):
    """re-run one stored input; returns (Result, description)"""
    res = Result("C20")
    D = ctx.driver
    defaults = [g6.unhx(x) for x in D.ask1("tbl.defaults").split(" ")]
    text = _text_of(inp)
    if inp["kind"] == "cli":
        o = real_cli((text, inp["args"], inp.get("missing_input", False)))
        m = D.ask1(*cli_model_line("cur", o, text, inp["args"], inp.get("missing_input", False)))
        desc = judge_cli(res, inp.get("family", "replay"), text, inp["args"], inp.get("missing_input", False), o, m)
        if inp.get("missing_input", False):
            spec = "(input file missing)"
        else:
            spec = D.ask1(*cli_model_line("spec", o, text, inp["args"], False))
        desc += "\n  written by the tool : %r" % ((o["written"] or "")[:200],)
        desc += "\n  library, in-process : %r" % ((o["lib"][2] or "")[:200] if isinstance(o["lib"][2], str) else o["lib"][2],)
        desc += "\n  model, present flags: %s\n  model, statement    : %s" % (m[:200], spec[:200])
        return res, desc
    req = inp["request"]
    o = real_lib((text, req))
    r = o["res"]
    kind = "rewritten" if (r[0] == "ok" and not python_missing(o["pin"], effective(req, defaults))) else "other"
    rq, _ = model_requests(o["pin"], o.get("pout"), req, defaults, kind, r[2] if r[0] == "ok" else None)
    ans = dict(zip([w for w, _ in rq], D.ask([l for _, l in rq])))
    desc = judge_lib(res, inp.get("family", "replay"), text, req, o, ans["model"], ans.get("spec"), defaults,
                     stored_text=inp["text"])
    if "text_out" in o:
        desc += "\n  output text:\n" + o["text_out"]
    return res, desc


def shrink(ctx, failure):
    """smallest stored input with the same signature: the two-line document first, then fewer rows/categories"""
    sig = failure["signature"]
    inp = failure["input"]

    def same(cand):
        try:
            r, _ = _eval(ctx, cand)
        except Exception:  # noqa: BLE001
            return False
        return any(f["signature"] == sig for f in r.failures)

    if inp["kind"] == "cli":
        a = inp["args"]
        small = dict(inp, text=MIN_DOC, family="min")
        mini = {"category": "c"}
        if a.get("copy_from") and a.get("copy_to"):
            mini.update(copy_from="x", copy_to="y")
        else:
            mini.update(replace="x", values="AB")
        for cand in (dict(small, args=mini), small):
            if same(cand):
                return dict(failure, input=cand)
        return failure
    text = _text_of(inp)
    blocks = g6.parse_text(text)
    if not blocks or not g6.faithful(blocks):
        return failure
    import random
    rng = random.Random(0)

    def mk(bl):
        return dict(inp, text=g6.serialise(rng, bl), family="shrunk")

    cur = blocks[:1] if same(mk(blocks[:1])) else blocks
    name, cats = cur[0]
    from core import ddmin
    if len(cats) > 1:
        cats = ddmin(cats, lambda cs: same(mk([(name, cs)] + cur[1:])), max_steps=60)
    new = []
    for k, (n, items, rows) in enumerate(cats):
        if len(rows) > 1:
            rows = ddmin(rows, lambda rs: same(mk([(name, cats[:k] + [(n, items, rs)] + cats[k + 1:])] + cur[1:])), max_steps=60)
        cats = cats[:k] + [(n, items, rows)] + cats[k + 1:]
    cand = mk([(name, cats)] + cur[1:])
    if same(cand):
        return dict(failure, input=cand)
    return failure


def replay(ctx, data):
    """re-run one stored input through implementation, model and specification predicates"""
    inp = data["input"]
    res, desc = _eval(ctx, inp)
    print("input :", {k: (v if k != "text" or not isinstance(v, str) else v[:300]) for k, v in inp.items()})
    print("result:", desc)
    if res.failures:
        for f in res.failures:
            print("%s failure %s: %s" % (f["kind"], f["signature"], f["detail"][:400]))
    else:
        print("no failure on this input (specification predicate and correspondence hold)")

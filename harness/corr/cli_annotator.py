"""The command-line entry point `rnapolis.annotator.main` as an observation point (used by C04, C07 and C11).

What the tool writes for a file and a combination of options must be what the library computes for that file: the
interaction lists in the JSON and CSV files are `extract_base_interactions` of the structure the reader returns (the
stackings among them `find_stackings`), the BPSEQ file and the printed notation are those of `extract_secondary_structure`,
every requested file that has content to hold is written, and the stems CSV names, for every stem, residues whose letters
are the ends of the strand sequences it prints.  Every run happens in a forked child (`core.fork_map`) on files in the
run's scratch directory; inputs are structure texts, so a failure replays from the text and the flags alone.

Inputs: small corpus files as they are; PDB texts of a corpus fragment without MODEL record, as MODEL 1, MODEL 3 and MODEL 0
(the first model of a file need not be number 1); two stacked residues with no base pair at all (no stem, no inter-stem
parameters); a fragment whose chain identifier is a comma or a double quote (CSV quoting); fragments with a chain break in
front of a stem (gap placeholders shift BPSEQ positions).  Option sets: every single output option, random subsets, and
all pairs of file-writing options.
"""
import contextlib
import csv
import io
import itertools
import json
import os
import sys
import tempfile

from core import call, fork_map
from gen import g3

FILE_OPTS = ["-c", "-j", "-b", "-p", "--inter-stem-csv", "--stems-csv"]
SUFFIX = {"-d": "out.dot", "-c": "out.csv", "-j": "out.json", "-b": "out.bpseq", "-p": "out.pml", "--inter-stem-csv": "inter.csv", "--stems-csv": "stems.csv"}


def pdb_text(st, model=None, chain=None):
    lines = []
    if model is not None:
        lines.append("MODEL     %4d" % model)
    k = 0
    for r in st.residues:
        for a in r.atoms:
            k += 1
            name = a.name if len(a.name) == 4 else " " + a.name
            lines.append("ATOM  %5d %-4s %3s %1s%4d%1s   %8.3f%8.3f%8.3f%6.2f%6.2f          %2s" % (
                k % 100000, name, (r.name or "N")[:3], chain or (r.chain or "A")[:1], r.number, r.icode or " ",
                a.x, a.y, a.z, 1.0 if a.occupancy is None else a.occupancy, 10.0, a.name[:1]))
    if model is not None:
        lines.append("ENDMDL")
    lines.append("END")
    return "\n".join(lines) + "\n"


def option_sets(rng, n_random):
    # -d (graph drawing through an external program) is left out: none of the properties reads it
    sets = [[]] + [[o] for o in FILE_OPTS] + [["-e"], ["-a"], ["-f"]]
    sets += [["-f", "--stems-csv"], ["-f", "-p", "-b"], ["-f", "-c", "-j"]]   # gap detection with the outputs that use positions
    sets += [["-a", "-f"], ["-a", "-b", "-j"], ["-a", "-d"], ["-f", "--inter-stem-csv", "-j"]]
    sets += [list(p) for p in itertools.combinations(FILE_OPTS, 2)]
    for _ in range(n_random):
        s = [o for o in FILE_OPTS if rng.random() < 0.5]
        s += [o for o in ("-e", "-a", "-f") if rng.random() < 0.3]
        sets.append(s)
    return sets


def inputs(ctx):
    rng = ctx.rng
    tests = os.environ.get("RNAPOLIS_TESTS", "/repo/tests")
    out = []
    # 4qln.pdb: chain breaks and a pseudoknot (two members in the list of all dot-brackets)
    for name in ["1A1T_1_B.cif", "1ATO.pdb", "4qln.pdb"] + ([] if ctx.quick else ["1DFU_1_M-N.cif", "1ehz-assembly-1.cif"]):
        p = os.path.join(tests, name)
        if os.path.exists(p):
            out.append(("corpus:" + name, open(p).read(), os.path.splitext(name)[1]))
    frag = None
    for name in ["1ATO.pdb", "1A1T_1_B.cif"]:
        p = os.path.join(tests, name)
        if os.path.exists(p):
            st = g3.load(p)
            first = st.residues[0].model
            frag = g3.mk_structure([r for r in st.residues if r.model == first and r.is_nucleotide])
            break
    if frag is not None:
        for tag, m in (("no-model-record", None), ("model-1", 1), ("model-3", 3), ("model-0", 0)):
            out.append(("fragment:" + tag, pdb_text(frag, m), ".pdb"))
        for ch in (",", '"'):
            out.append(("fragment:chain-%s" % ("comma" if ch == "," else "quote"), pdb_text(frag, None, ch), ".pdb"))
        rs0 = list(frag.residues)
        if len(rs0) >= 9:
            third = len(rs0) // 3
            # a chain identifier revisited after another chain (A..., B..., A...)
            mixed = [g3.renumber(r, "A" if (k < third or k >= 2 * third) else "B", r.number, r.icode) for k, r in enumerate(rs0)]
            out.append(("fragment:chain-revisited", pdb_text(g3.mk_structure(mixed)), ".pdb"))
            # two models, the first one numbered 2 and the second one numbered 1 with fewer residues
            two = pdb_text(frag, 2).replace("END\n", "") + pdb_text(g3.mk_structure(rs0[: len(rs0) - 4]), 1)
            out.append(("fragment:models-2-then-1", two, ".pdb"))
        # a chain break in front of the helix: residues 3-4 of the fragment left out
        rs = list(frag.residues)
        if len(rs) > 8:
            out.append(("fragment:chain-break", pdb_text(g3.mk_structure(rs[:2] + rs[4:])), ".pdb"))
    for k in range(ctx.pick(2, 8)):
        st = g3.stack_random(rng)
        out.append(("two-stacked-residues", pdb_text(st, rng.choice([None, 1, 2])), ".pdb"))
    if frag is not None:
        out += two_helices(ctx, frag)
    return out


def two_helices(ctx, frag):
    """a helix of the fragment and a rigidly moved copy of it (chain B) whose chosen end sits 3-7 A off a chosen end of the
    original, in a random orientation: every endpoint arrangement (cs55 / cs53 / cs35 / cs33) and every inter-stem torsion
    occurs, among them arrangements the library rates as coaxial"""
    import numpy as np
    from rnapolis.annotator import extract_secondary_structure
    from rnapolis.tertiary import Mapping2D3D
    rng = ctx.rng
    try:
        s2, _ = extract_secondary_structure(frag, None, False, False)
        mp = Mapping2D3D(frag, s2.baseInteractions.basePairs, s2.baseInteractions.stackings, False)
        stems = [st for st in s2.stems if st.strand5p.last - st.strand5p.first + 1 >= 3]
        if not stems:
            return []
        st = stems[0]
        n = st.strand5p.last - st.strand5p.first + 1
        pairs = [(mp.bpseq_index_to_residue_map[st.strand5p.first + i], mp.bpseq_index_to_residue_map[st.strand3p.last - i]) for i in range(n)]
    except Exception:  # noqa: BLE001
        return []
    helix = [a for a, _ in pairs] + [b for _, b in reversed(pairs)]
    cen = [np.mean([[x.x, x.y, x.z] for r in pr for x in r.atoms], axis=0) for pr in pairs]
    out = []
    for _ in range(ctx.pick(96, 600)):
        e1, e2 = (-1, -1) if rng.random() < 0.4 else (rng.choice([0, -1]), rng.choice([0, -1]))
        axis = cen[e1] - cen[e1 + 1 if e1 == 0 else e1 - 1]
        axis = axis / np.linalg.norm(axis)
        R = g3.quat_rotation(rng)
        target = cen[e1] + rng.uniform(3.0, 7.0) * axis
        move = lambda p: R @ (p - cen[e2]) + target  # noqa: E731
        copy = g3.map_coords(g3.mk_structure([g3.renumber(r, "B", (r.number or 0) + 100, r.icode) for r in helix]), move)
        both = g3.mk_structure([g3.renumber(r, "A", r.number, r.icode) for r in helix] + list(copy.residues))
        out.append(("two-helices", pdb_text(both), ".pdb"))
    return out


def _one(job):
    """run main() on one (text, suffix, flags) and compute the library's view of the same file; plain data only"""
    text, suffix, flags = job
    import logging
    import rnapolis.annotator as A
    from rnapolis.parser import read_3d_structure
    logging.disable(logging.CRITICAL)
    out = {"flags": flags}
    d = tempfile.mkdtemp(prefix="cli-annotator-")
    path = os.path.join(d, "input" + suffix)
    with open(path, "w") as f:
        f.write(text)
    argv = [path]
    for o in flags:
        argv.append(o)
        if o in SUFFIX:
            argv.append(os.path.join(d, SUFFIX[o]))
    buf = io.StringIO()
    old = sys.argv
    sys.argv = ["annotator"] + argv
    try:
        with contextlib.redirect_stdout(buf), contextlib.redirect_stderr(io.StringIO()):
            try:
                A.main()
                out["main"] = "ok"
            except SystemExit as e:
                out["main"] = "exit:%r" % (e.code,)
            except Exception as e:  # noqa: BLE001
                out["main"] = "raises:%s" % type(e).__name__
    finally:
        sys.argv = old
    out["stdout"] = buf.getvalue()
    for o in FILE_OPTS:
        p = os.path.join(d, SUFFIX[o])
        if os.path.exists(p):
            with open(p, newline="") as f:
                out["file:" + o] = f.read()
    # ---- the library's view
    from corr.c11 import expected_csv, expected_json
    fg, alldb = "-f" in flags, "-a" in flags

    def lib():
        with open(path) as f:
            s3 = read_3d_structure(f, None)
        bi = A.extract_base_interactions(s3, None)
        stk = A.find_stackings(s3, None)
        fp = A.find_pairs(s3, None)[0]
        s2, dbs = A.extract_secondary_structure(s3, None, fg, alldb)
        plain = A.extract_secondary_structure(s3, None, fg, False)[0] if alldb else s2
        other = A.extract_secondary_structure(s3, None, not fg, False)[0]
        inter = lambda x: [(p.stem1_idx, p.stem2_idx, p.type, p.torsion) for p in (x.interStemParameters or [])]  # noqa: E731
        letters = {r.full_name: r.one_letter_name for r in s3.residues}
        return {"csv": expected_csv(bi), "json": expected_json(bi),
                "stackings": sorted((p.nt1.full_name, p.nt2.full_name, p.topology.value if p.topology is not None else None) for p in stk),
                "pairs": sorted((p.nt1.full_name, p.nt2.full_name, p.lw.value) for p in fp),
                "dot_noall": plain.dotBracket, "inter": inter(s2), "inter_other_gaps": inter(other), "nstems_other_gaps": len(other.stems),
                "bpseq": s2.bpseq, "dot": s2.dotBracket, "ext": s2.extendedDotBracket, "all": list(dbs), "nstems": len(s2.stems),
                "ninter": len(s2.interStemParameters or []), "letters": letters}
    with contextlib.redirect_stdout(io.StringIO()), contextlib.redirect_stderr(io.StringIO()):
        st, v = call(lib)
    out["lib"] = v if st == "ok" else None
    out["lib_error"] = None if st == "ok" else v
    for n in os.listdir(d):
        os.unlink(os.path.join(d, n))
    os.rmdir(d)
    return out


def evaluate(ctx):
    jobs, tags = [], []
    osets = option_sets(ctx.rng, ctx.pick(6, 40))
    for tag, text, suffix in inputs(ctx):
        chosen = osets if (tag.startswith("fragment:model") or tag in ("two-stacked-residues", "fragment:chain-break") or not ctx.quick) else \
            osets[:17] + ctx.rng.sample(osets[17:], 6)
        if tag.startswith("corpus:") and ctx.quick:
            chosen = osets[:17]
        if tag == "two-helices":
            chosen = [["--inter-stem-csv", "-j"]]
        for flags in chosen:
            jobs.append((text, suffix, flags))
            tags.append(tag)
    outs = fork_map(_one, jobs, chunksize=1)
    return list(zip(tags, jobs, outs))


def judge(res, prop, runs):
    """failures for one property; `prop` in C04 / C07 / C11"""
    for tag, (text, suffix, flags), o in runs:
        inp = {"family": "cli:" + tag, "flags": flags, "suffix": suffix, "text": text if len(text) < 60000 else text[:60000]}
        res.count("cli:" + tag.split(":")[0])
        res.count("cli-options:%d" % len(flags))
        lib = o["lib"]
        if lib is None:
            res.count("cli:library-raises")
            continue
        res.case(("cli", tag, tuple(flags), len(text)), nontrivial=len(lib["csv"]) > 1)
        if o["main"] != "ok":
            # only what the property speaks about is judged: a tool that ends abnormally is reported when an output this
            # property reads (JSON / CSV; for C07 also BPSEQ and stems CSV) was asked for and is not there
            res.count("cli:main-%s" % o["main"].split(":")[0])
            reads = {"C07": ("-b", "--stems-csv"), "C06": ("-b",), "C01": ("-b",), "C08": ("-b",), "C16": (), "C18": ("--inter-stem-csv",), "C02": ("-j",)}.get(prop, ("-c", "-j"))
            need = [x for x in reads if x in flags and "file:" + x not in o]
            if need and not (prop == "C07" and need == ["--stems-csv"] and not lib["nstems"]) and not (prop == "C18" and not lib["inter"]):
                res.fail("spec", "%s:cli:main-%s" % (prop, o["main"].split(":")[0] + ":" + o["main"].split(":")[-1]), inp,
                         "annotator.main ended with %s before writing %s, although the library annotates the file" % (o["main"], need))
                continue
        js = None
        if "-j" in flags:
            if "file:-j" not in o:
                res.fail("spec", "%s:cli:json-not-written" % prop, inp, "-j given, no JSON file")
            else:
                js = json.loads(o["file:-j"])
        rows = None
        if "-c" in flags:
            if "file:-c" not in o:
                res.fail("spec", "%s:cli:csv-not-written" % prop, inp, "-c given, no CSV file (options %s)" % " ".join(flags))
            else:
                rows = [r for r in csv.reader(io.StringIO(o["file:-c"], newline=""))]
        if prop == "C04":
            if js is not None:
                got = sorted((_fn(p["nt1"]), _fn(p["nt2"]), p.get("topology")) for p in js.get("baseInteractions", {}).get("stackings", []))
                if got != lib["stackings"]:
                    res.fail("spec", "C04:cli:json-stackings-differ-from-find_stackings", inp,
                             "JSON lists %d stackings, find_stackings on the structure the reader returns %d; missing %s, extra %s"
                             % (len(got), len(lib["stackings"]), [x for x in lib["stackings"] if x not in got][:3], [x for x in got if x not in lib["stackings"]][:3]))
            if rows is not None:
                got = sorted((r[0], r[1], r[3] or None) for r in rows[1:] if len(r) >= 4 and r[2] == "stacking")
                if got != lib["stackings"]:
                    res.fail("spec", "C04:cli:csv-stackings-differ-from-find_stackings", inp,
                             "CSV lists %d stackings, find_stackings %d" % (len(got), len(lib["stackings"])))
        if prop == "C01" and "-b" in flags and "file:-b" in o and "-e" not in flags and "-a" not in flags:
            why = notation_matches_bpseq(o["stdout"], o["file:-b"])
            if why:
                res.fail("spec", "C01:cli:printed-notation-does-not-encode-the-bpseq-file", inp, why)
        if prop == "C03" and js is not None:
            got = sorted((_fn(p["nt1"]), _fn(p["nt2"]), p.get("lw")) for p in js.get("baseInteractions", {}).get("basePairs", []))
            if got != lib["pairs"]:
                res.fail("spec", "C03:cli:json-pairs-differ-from-find_pairs", inp,
                         "JSON lists %d base pairs, find_pairs on the structure the reader returns %d; missing %s, extra %s"
                         % (len(got), len(lib["pairs"]), [x for x in lib["pairs"] if x not in got][:3], [x for x in got if x not in lib["pairs"]][:3]))
        if prop == "C16" and "-a" in flags and "-e" not in flags:
            want = [l for m in lib["all"] for l in m.splitlines()]
            printed = o["stdout"].splitlines()
            if printed[:len(want)] != want:
                res.fail("spec", "C16:cli:printed-list-differs", inp, "the lines printed with -a are not the library's list of all dot-brackets, member by member "
                         "(first difference at line %d: %r)" % (next((k for k, (a, b) in enumerate(zip(printed, want)) if a != b), min(len(printed), len(want))),
                                                                printed[next((k for k, (a, b) in enumerate(zip(printed, want)) if a != b), 0)][:80] if printed else None))
        if prop == "C02" and js is not None and "-a" in flags:
            if js.get("dotBracket") != lib["dot_noall"]:
                res.fail("spec", "C02:cli:notation-under-all-dot-brackets", inp,
                         "with -a the JSON carries %r as THE dot-bracket, without -a the library gives %r" % (str(js.get("dotBracket"))[-80:], lib["dot_noall"][-80:]))
        if prop == "C18":
            if "--inter-stem-csv" in flags and "file:--inter-stem-csv" in o:
                rd = list(csv.DictReader(io.StringIO(o["file:--inter-stem-csv"], newline="")))
                got = [(int(r["stem1_idx"]), int(r["stem2_idx"]), r["type"], float(r["torsion"])) for r in rd]
                if len(got) != len(lib["inter"]) or any(a[:3] != b[:3] or abs(a[3] - b[3]) > 1e-9 for a, b in zip(got, lib["inter"])):
                    res.fail("spec", "C18:cli:inter-stem-csv-differs-from-library", inp, "inter-stem CSV %s, library %s" % (got[:3], lib["inter"][:3]))
                if any(not (-180.0 < t[3] <= 180.0) for t in got):
                    res.fail("spec", "C18:cli:inter-stem-torsion-out-of-range", inp, "torsion outside (-180, 180]: %s" % [t for t in got if not (-180.0 < t[3] <= 180.0)][:3])
            if lib["nstems"] == lib["nstems_other_gaps"] and len(lib["inter"]) == len(lib["inter_other_gaps"]):
                # placeholders for missing residues shift BPSEQ positions, not stems: the torsion between two stems is the same
                # with and without gap detection
                for a, b in zip(lib["inter"], lib["inter_other_gaps"]):
                    if a[:3] == b[:3] and abs(a[3] - b[3]) > 1e-9:
                        res.fail("spec", "C18:inter-stem-torsion-depends-on-gap-detection", inp,
                                 "stems %d/%d (%s): torsion %.6f with find_gaps=%s, %.6f with find_gaps=%s" % (a[0], a[1], a[2], a[3], "-f" in flags, b[3], "-f" not in flags))
                        break
        if prop == "C11":
            if js is not None and js.get("baseInteractions") != lib["json"]:
                res.fail("spec", "C11:cli:json-differs-from-lists", inp, "baseInteractions of the JSON file are not the library's interaction lists")
            if rows is not None and rows != lib["csv"]:
                k = next((i for i, (a, b) in enumerate(zip(rows, lib["csv"])) if a != b), min(len(rows), len(lib["csv"])))
                res.fail("spec", "C11:cli:csv-differs-from-lists", inp, "row %d: file %r, lists %r" % (
                    k, rows[k] if k < len(rows) else None, lib["csv"][k] if k < len(lib["csv"]) else None))
        if prop in ("C07", "C06", "C01", "C08"):
            if "-b" in flags and o.get("file:-b") is not None and o["file:-b"].strip() != str(lib["bpseq"]).strip():
                res.fail("spec", prop + ":cli:bpseq-file-differs", inp, "BPSEQ file is not the library's BPSEQ")
            want = lib["ext"] if "-e" in flags else None
            if want is not None and want.strip() not in o["stdout"]:
                res.fail("spec", prop + ":cli:printed-notation-differs", inp, "extended notation printed by the tool is not the library's")
            if "-e" not in flags and "-a" not in flags and lib["dot"].strip() not in o["stdout"]:
                res.fail("spec", prop + ":cli:printed-notation-differs", inp, "dot-bracket printed by the tool is not the library's")
            if prop == "C07" and "--stems-csv" in flags:
                if lib["nstems"] and "file:--stems-csv" not in o:
                    res.fail("spec", "C07:cli:stems-csv-not-written", inp, "%d stems, no stems CSV" % lib["nstems"])
                elif "file:--stems-csv" in o:
                    rd = list(csv.DictReader(io.StringIO(o["file:--stems-csv"], newline="")))
                    if len(rd) != lib["nstems"]:
                        res.fail("spec", "C07:cli:stems-csv-rows", inp, "%d rows for %d stems" % (len(rd), lib["nstems"]))
                    for r in rd:
                        for key, seq, pos in (("strand5p_first_nt_id", "strand5p_sequence", 0), ("strand5p_last_nt_id", "strand5p_sequence", -1),
                                              ("strand3p_first_nt_id", "strand3p_sequence", 0), ("strand3p_last_nt_id", "strand3p_sequence", -1)):
                            name, s = r.get(key), r.get(seq) or ""
                            if not name or name not in lib["letters"] or not s or lib["letters"][name] != s[pos]:
                                res.fail("spec", "C07:cli:stems-csv-residue-is-not-the-strand-end", inp,
                                         "stem %s: %s = %r (letter %r) but the strand sequence is %r" % (r.get("stem_idx"), key, name, lib["letters"].get(name), s))
                                break
                        else:
                            continue
                        break


def notation_matches_bpseq(stdout, bpseq_text):
    """None when the multi-strand notation printed by the tool (>strand / sequence / structure triples) spells the sequence
    of the BPSEQ file and decodes - one stack per bracket type - to exactly its pairs; otherwise a description"""
    lines = [l for l in stdout.splitlines() if l.strip()]
    seq, struct = "", ""
    k = 0
    while k + 2 < len(lines) + 0 and lines[k].startswith(">strand"):
        seq += lines[k + 1]
        struct += lines[k + 2]
        k += 3
    entries = [l.split() for l in bpseq_text.splitlines() if l.strip()]
    try:
        bseq = "".join(e[1] for e in entries)
        partner = {int(e[0]): int(e[2]) for e in entries}
    except (IndexError, ValueError):
        return "BPSEQ file does not parse: %r" % bpseq_text[:100]
    if [int(e[0]) for e in entries] != list(range(1, len(entries) + 1)):
        return "BPSEQ file is not numbered 1..N"
    if any(p and partner.get(p) != i for i, p in partner.items()):
        return "BPSEQ file is not symmetric"
    if seq != bseq or len(struct) != len(bseq):
        return "printed sequence %r (structure length %d) vs BPSEQ sequence %r" % (seq[:60], len(struct), bseq[:60])
    opening, closing = "([{<" + "ABCDEFGHIJKLMNOPQRSTUVWXYZ", ")]}>" + "abcdefghijklmnopqrstuvwxyz"
    stacks, got = {}, {}
    for i, ch in enumerate(struct, start=1):
        if ch in opening:
            stacks.setdefault(opening.index(ch), []).append(i)
        elif ch in closing:
            st = stacks.get(closing.index(ch)) or []
            if not st:
                return "printed notation is unbalanced at position %d" % i
            j = st.pop()
            got[i], got[j] = j, i
    if any(stacks.values()):
        return "printed notation has unclosed brackets"
    want = {i: p for i, p in partner.items() if p}
    if got != want:
        return "printed notation decodes to %d paired positions, the BPSEQ file has %d" % (len(got), len(want))
    return None


def _fn(j):
    """full name of a residue as the library prints it, from its JSON form"""
    from rnapolis.common import Residue, ResidueAuth, ResidueLabel
    a, l = j.get("auth"), j.get("label")
    return Residue(ResidueLabel(l["chain"], l["number"], l["name"]) if l else None,
                   ResidueAuth(a["chain"], a["number"], a.get("icode"), a["name"]) if a else None).full_name


def is_cli(inp):
    return str((inp or {}).get("family", "")).startswith("cli:")


def replay_cli(prop, inp):
    from core import Result
    o = fork_map(_one, [(inp["text"], inp["suffix"], inp["flags"])], nproc=1)[0]
    print("annotator.main", " ".join(inp["flags"]), "->", o["main"])
    for k in sorted(o):
        if k.startswith("file:"):
            print("--- written for %s:\n%s" % (k[5:], o[k][:1500]))
    print("--- printed:\n" + o["stdout"][:800])
    if o["lib"] is not None:
        print("--- library: %d csv rows, stackings %s" % (len(o["lib"]["csv"]), o["lib"]["stackings"][:6]))
    res = Result(prop)
    judge(res, prop, [(inp["family"][4:], (inp["text"], inp["suffix"], inp["flags"]), o)])
    for f in res.failures:
        print("%s FAILURE %s: %s" % (f["kind"].upper(), f["signature"], f["detail"][:400]))
    if not res.failures:
        print("no failure on this input")

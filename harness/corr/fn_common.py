"""Behavioural backup of the function translator (tools/py2lean.py).

Every function that is regenerated into lean/RnaVerif/Generated/Functions.lean is ALSO compared here, as a black
box, with the real Python function: over its whole finite domain where there is one, over a dense grid otherwise.
A function that py2lean refuses (anchor `py2lean:<name>` lost, pinned definition in place) is thereby still carried
by the correspondence.  `run_fn(ctx, res, prop)` runs the functions that serve property `prop`; signature of a
difference: `<prop>:corr:fn:<lean name>`.
"""
import itertools
import math
import types
import warnings
from fractions import Fraction

from core import call, hexs

SERVES = {
    "C03": ["residue3dLt", "cisTrans", "findAtom", "angleClamp"],
    "C04": ["stackingReverse", "angleClamp"],
    "C06": ["saengerIsCanonical", "bpScore", "bpIsCanonical", "pairScoreBpseq", "pairScoreData"],
    "C09": ["pdbAtomName"],
    "C11": ["lwReverse", "lwLt", "residueChain", "residueNumber", "residueIcode", "residueName", "residueLt", "moleculeType",
            "findAtom", "bphClass", "detectSaenger"],
    "C17": ["atomRadius", "atomMatches", "classifyClash"],
    "C18": ["chiClass"],
    "C19": ["matchDssrLw"],
}


# ------------------------------------------------------------------------------------------ encoders

def optstr(x):
    return "N" if x is None else "S" + hexs(x)


def flt(x, literal=False):
    """exact value of a double; literal=True: the decimal literal (repr), the convention for constants of the source"""
    x = float(x)
    if x != x:
        return "nan"
    fr = Fraction(repr(x)) if literal else Fraction(x)
    return "%d/%d" % (fr.numerator, fr.denominator)


def boolean(b):
    return "true" if b else "false"


def enc_label(l):
    return "N" if l is None else "%s:%d:%s" % (hexs(l.chain), l.number, hexs(l.name))


def enc_auth(a):
    return "N" if a is None else "%s:%d:%s:%s" % (hexs(a.chain), a.number, optstr(a.icode), hexs(a.name))


def enc_residue(r):
    return enc_label(r.label) + ";" + enc_auth(r.auth)


def enc_atom(a):
    return "%s:%s:%s:%s" % (hexs(a.name), flt(a.x), flt(a.y), flt(a.z))


def enc_res3d(r, chi="nan"):
    return ";".join([enc_label(r.label), enc_auth(r.auth), str(r.model), hexs(r.one_letter_name), chi,
                     ",".join(enc_atom(a) for a in r.atoms) or "~"])


def enc_oracle(d):
    return "|".join("%s=%s" % (",".join(k), v) for k, v in d.items()) or "~"


def outcome(st, val, enc):
    """('ok', v) | ('err', name) of core.call -> wire text of a function translated in raising mode"""
    return enc(val) if st == "ok" else "raise"


# ------------------------------------------------------------------------------------------ domains

def residues(C):
    labels = [None, C.ResidueLabel("A", 1, "G"), C.ResidueLabel("B", -3, "DA"), C.ResidueLabel(" ", 10, "psu")]
    auths = [None]
    for chain, number, icode, name in [("A", 1, None, "G"), ("A", 1, " ", "G"), ("A", 1, "?", "C"), ("A", 1, "", "U"), ("A", 1, "A", "DA"),
                                       ("A", 1, "B", "da"), ("A", 2, None, "dT"), ("A", -1, "A", "A"), ("B", 1, None, "PSU"),
                                       ("a", 1, None, ""), (" ", 1, None, "u"), ("AA", 10, "a", "DG"), ("A", 10, " ", "N"), ("", 0, None, "ß")]:
        auths.append(C.ResidueAuth(chain, number, icode, name))
    return [C.Residue(l, a) for l in labels for a in auths]


def mk_res3d(T, C, letter, atoms=(), model=1, label=None, auth="default"):
    if auth == "default":
        auth = C.ResidueAuth("A", 1, None, letter or "N")
    ats = tuple(T.Atom(None, label, auth, model, n, float(x), float(y), float(z), None) for n, (x, y, z) in atoms)
    return T.Residue3D(label, auth, model, letter, ats)


def tors_table(T, firsts, seconds, thirds, fourths):
    out = {}
    enc = {id(at): (flt(at.x), flt(at.y), flt(at.z)) for at in list(firsts) + list(seconds) + list(thirds) + list(fourths)}
    with warnings.catch_warnings():
        warnings.simplefilter("ignore")
        for a, b, c, d in itertools.product(firsts, seconds, thirds, fourths):
            if a is b or c is d:
                continue
            v = math.degrees(T.torsion_angle(a, b, c, d))
            out[enc[id(a)] + enc[id(b)] + enc[id(c)] + enc[id(d)]] = flt(v)
    return out


def nested_function(owner, name):
    """the nested def `name` inside property/function `owner` as a callable (it must not close over locals)"""
    f = owner
    f = getattr(f, "func", None) or getattr(f, "fget", None) or f
    for c in f.__code__.co_consts:
        if isinstance(c, types.CodeType) and c.co_name == name:
            if c.co_freevars:
                return None
            return types.FunctionType(c, f.__globals__)
    return None


# ------------------------------------------------------------------------------------------ per function: [(request, expected, input)]

def cases(name, ctx):
    from rnapolis import adapter as AD
    from rnapolis import annotator as A
    from rnapolis import clashfinder as CF
    from rnapolis import common as C
    from rnapolis import parser_v2 as P2
    from rnapolis import tertiary as T
    rng = ctx.rng
    out = []
    LW, SA = list(C.LeontisWesthof), list(C.Saenger)
    if name == "lwReverse":
        for m in LW:
            st, v = call(lambda: m.reverse)
            out.append((["fn.lwReverse", m.name], outcome(st, v, lambda x: x.name), m.name))
    elif name == "lwLt":
        for a in LW:
            for b in LW:
                out.append((["fn.lwLt", a.name, b.name], boolean(C.LeontisWesthof.__lt__(a, b)), [a.name, b.name]))
    elif name == "saengerIsCanonical":
        for m in SA:
            out.append((["fn.saengerIsCanonical", m.name], boolean(m.is_canonical), m.name))
    elif name == "stackingReverse":
        for m in C.StackingTopology:
            out.append((["fn.stackingReverse", m.name], m.reverse.name, m.name))
    elif name in ("residueChain", "residueNumber", "residueIcode", "residueName", "moleculeType"):
        attr = {"residueChain": "chain", "residueNumber": "number", "residueIcode": "icode", "residueName": "name",
                "moleculeType": "molecule_type"}[name]
        for r in residues(C):
            v = getattr(r, attr)
            exp = v.name if name == "moleculeType" else (("N" if v is None else "S%d" % v) if name == "residueNumber" else optstr(v))
            out.append((["fn." + name, enc_residue(r)], exp, repr(r)))
    elif name == "residueLt":
        rs = residues(C)
        for a in rs:
            for b in rs:
                st, v = call(lambda: C.Residue.__lt__(a, b))
                out.append((["fn.residueLt", enc_residue(a), enc_residue(b)], outcome(st, v, boolean), [enc_residue(a), enc_residue(b)]))
    elif name == "residue3dLt":
        rs = residues(C)[::3]
        r3 = [T.Residue3D(r.label, r.auth, m, "A", ()) for r in rs for m in (1, 2)]
        for a in r3:
            for b in r3:
                st, v = call(lambda: T.Residue3D.__lt__(a, b))
                out.append((["fn.residue3dLt", enc_res3d(a), enc_res3d(b)], outcome(st, v, boolean), [enc_res3d(a), enc_res3d(b)]))
    elif name == "chiClass":
        lo, hi = math.radians(-30), math.radians(120)
        vals = [float("nan"), lo, hi, math.nextafter(lo, 9), math.nextafter(lo, -9), math.nextafter(hi, 9), math.nextafter(hi, -9),
                0.0, math.pi, -math.pi, math.radians(-160), math.radians(160), math.radians(-29.999), math.radians(119.999)]
        vals += [k * 0.0123 - math.pi for k in range(0, 512)]
        tbl = enc_oracle({(flt(-30),): flt(lo), (flt(120),): flt(hi)})
        for v in vals:
            r = mk_res3d(T, C, "A")
            r.__dict__["chi"] = v
            c = r.chi_class
            out.append((["fn.chiClass", flt(v), tbl], "N" if c is None else "S" + c.name, v))
    elif name == "findAtom":
        names = ["N1", "C6", "N1", "C1'", "", "n1"]
        for k in range(len(names) + 1):
            r = mk_res3d(T, C, "A", [(n, (i, i * 0.5, -i)) for i, n in enumerate(names[:k])])
            for q in ["N1", "C6", "C1'", "", "n1", "X"]:
                a = r.find_atom(q)
                out.append((["fn.findAtom", enc_res3d(r), hexs(q)], "N" if a is None else "S" + enc_atom(a), [names[:k], q]))
    elif name == "bpScore":
        r = mk_res3d(T, C, "A")
        for m in LW:
            bp = T.BasePair3D(r, r, m, None, r, r)
            out.append((["fn.bpScore", m.name], str(bp.score), m.name))
    elif name in ("bpIsCanonical", "pairScoreBpseq", "pairScoreData"):
        letters = ["A", "U", "T", "C", "G", "a", "u", "N", ""]
        res = {l: mk_res3d(T, C, l) for l in letters}
        if name == "bpIsCanonical":
            for m in LW:
                for s in [None, C.Saenger.XIX, C.Saenger.XX, C.Saenger.XXVIII, C.Saenger.I, C.Saenger.XXI]:
                    for a in letters:
                        for b in letters:
                            bp = T.BasePair3D(res[a], res[b], m, s, res[a], res[b])
                            out.append((["fn.bpIsCanonical", m.name, "N" if s is None else s.name, hexs(a), hexs(b)], boolean(bp.is_canonical),
                                        [m.name, s and s.name, a, b]))
        else:
            owner = T.Mapping2D3D.__dict__["bpseq" if name == "pairScoreBpseq" else "_generated_bpseq_data"]
            f = nested_function(owner, "pair_scoring_function")
            if f is None:
                return None
            r1, r2 = C.Residue(None, C.ResidueAuth("A", 1, None, "G")), C.Residue(C.ResidueLabel("B", 2, "C"), None)
            for s in [None] + SA:
                for a in letters:
                    for b in letters:
                        bp = T.BasePair3D(r1, r2, C.LeontisWesthof.cWW, s, res[a], res[b])
                        st, v = call(f, bp)
                        exp = "%d:%s:%s" % (v[0], boolean(v[1] is r1), boolean(v[2] is r2)) if st == "ok" else "raise"
                        out.append((["fn.pairScore", "bpseq" if name == "pairScoreBpseq" else "data", "N" if s is None else s.name, hexs(a), hexs(b),
                                     enc_residue(r1), enc_residue(r2)], exp, [s and s.name, a, b]))
    elif name == "cisTrans":
        def rnd():
            return (round(rng.uniform(-5, 5), 3), round(rng.uniform(-5, 5), 3), round(rng.uniform(-5, 5), 3))
        subsets = [["C1'", "N9", "N1"], ["C1'", "N9"], ["C1'", "N1"], ["N9", "N1"], ["C1'"], []]
        for li, lj in itertools.product(["A", "G", "C", "a", "", "AG"], repeat=2):
            for si, sj in [(subsets[0], subsets[0]), (rng.choice(subsets), rng.choice(subsets)), (subsets[0], rng.choice(subsets))]:
                ri = mk_res3d(T, C, li, [(n, rnd()) for n in si])
                rj = mk_res3d(T, C, lj, [(n, rnd()) for n in sj], auth=C.ResidueAuth("A", 2, None, "G"))
                tbl = tors_table(T, ri.atoms, ri.atoms, rj.atoms, rj.atoms)
                out.append((["fn.cisTrans", enc_res3d(ri), enc_res3d(rj), enc_oracle(tbl)], optstr(A.detect_cis_trans(ri, rj)), [li, lj, si, sj]))
        # torsion exactly 0, 180, +90 and -90 degrees
        for y, z in ((1.0, 0.0), (-1.0, 0.0), (0.0, 1.0), (0.0, -1.0)):
            ri = mk_res3d(T, C, "A", [("C1'", (0, 1, 0)), ("N9", (0, 0, 0))])
            rj = mk_res3d(T, C, "C", [("C1'", (2, y, z)), ("N1", (2, 0, 0))], auth=C.ResidueAuth("A", 2, None, "C"))
            tbl = tors_table(T, ri.atoms, ri.atoms, rj.atoms, rj.atoms)
            out.append((["fn.cisTrans", enc_res3d(ri), enc_res3d(rj), enc_oracle(tbl)], optstr(A.detect_cis_trans(ri, rj)), ["exact", y, z, list(tbl.values())]))
    elif name == "bphClass":
        donors = sorted({n for b in T.BASE_DONORS for n in T.BASE_DONORS[b]} | {"N1", "C7", "X", ""})
        refs = ["N1", "C6", "N3", "C2", "C4"]
        pos = {"N1": (1.3, 0.0, -0.5), "N3": (1.3, 0.0, -0.5), "C6": (0.0, 0.0, 0.0), "C2": (0.0, 0.0, 0.0), "C4": (0.1, 0.0, 0.0)}

        def one(base, donor, present, angle):
            atoms = [(r, pos[r]) for r in present if r != donor] + [(donor, (0.0, 0.0, 1.4))]
            res = mk_res3d(T, C, base, atoms)
            d = res.find_atom(donor)
            a = math.radians(angle)
            xy = (2.5 * math.cos(a), 2.5 * math.sin(a)) if abs(angle) != 90.0 else (0.0, 2.5 * angle / 90.0)   # torsion exactly +-90.0
            acc = T.Atom(None, None, None, 1, "OP1", xy[0], xy[1], 2.0, None)
            v = A.detect_bph_br_classification(res, d, acc)
            others = [x for x in res.atoms if x is not d]
            tbl = tors_table(T, others, others, [d], [acc])
            out.append((["fn.bphClass", enc_res3d(res), enc_atom(d), enc_atom(acc), enc_oracle(tbl)], "N" if v is None else "S%d" % v,
                        [base, donor, present, angle]))
            return v
        for base in ["A", "G", "C", "U", "T", "a", "N", ""]:
            for donor in donors:
                vs = {one(base, donor, refs, angle) for angle in (20.0, -70.0, 160.0, -110.0)}
                one(base, donor, [], 20.0)
                if len(vs) > 1:     # torsion dependent: the bounds themselves; every single reference atom missing, both half planes
                    one(base, donor, refs, 90.0)
                    one(base, donor, refs, -90.0)
                    for x in refs:
                        for angle in (20.0, 160.0):
                            one(base, donor, [r for r in refs if r != x], angle)
    elif name == "angleClamp":
        import numpy
        vs = [(1, 0, 0), (0, 1, 0), (1, 1, 0), (-1, 0, 0), (0.1, 0.2, 0.3), (0, 0, 0), (3, 3, 3), (-3, -3, -3), (1e-8, 1e-8, 1e-8),
              (0.1, 0.1, 0.1), (0.3, 0.3, 0.3), (-0.7, -0.7, -0.7), (1 / 3, 1 / 3, 1 / 3)]
        vs += [(rng.uniform(-1, 1), rng.uniform(-1, 1), rng.uniform(-1, 1)) for _ in range(40)]
        vs += [tuple(k * c for c in v) for v in vs[-10:] for k in (3.0, -7.0, 1e-3)]
        for v1 in vs:
            for v2 in vs:
                a1, a2 = numpy.array(v1, dtype=float), numpy.array(v2, dtype=float)
                with warnings.catch_warnings():
                    warnings.simplefilter("ignore")
                    with numpy.errstate(all="ignore"):
                        cosine = float(numpy.dot(a1, a2) / numpy.linalg.norm(a1) / numpy.linalg.norm(a2))
                        st, real = call(A.angle_between_vectors, a1, a2)
                out.append((["fn.angleClamp", flt(cosine)], ("angle", st, real), [v1, v2]))
    elif name == "detectSaenger":
        letters = ["A", "C", "G", "U", "T", "a", "N", "", "AU"]
        res = {l: mk_res3d(T, C, l) for l in letters}
        for a in letters:
            for b in letters:
                for m in LW:
                    st, v = call(A.detect_saenger, res[a], res[b], m)
                    out.append((["fn.detectSaenger", hexs(a), hexs(b), m.name], outcome(st, v, lambda x: "N" if x is None else "S" + x.name), [a, b, m.name]))
    elif name == "matchDssrLw":
        xs = [None, "", "cW", "cWW ", " cWW", "__doc__", "name", "reverse", "__members__", "cww", "CWW", "tHS ", "_0", "XIX"]
        xs += [m.name for m in LW] + [m.name.lower() for m in LW] + [m.name[0] + m.name[2] + m.name[1] for m in LW] + [m.name + "a" for m in LW]
        for x in xs:
            st, v = call(AD.match_dssr_lw, x)
            out.append((["fn.matchDssrLw", optstr(x)], outcome(st, v, lambda y: "N" if y is None else "S" + y.name), x))
    elif name == "atomRadius":
        for m in CF.AtomType:
            st, v = call(lambda: CF.AtomType.radius.func(m) if hasattr(CF.AtomType.radius, "func") else m.radius)
            out.append((["fn.atomRadius", m.name], outcome(st, v, lambda x: flt(x, literal=True)), m.name))
    elif name == "atomMatches":
        alphabet = [" ", "C", "N", "O", "P", "H", "c", "1", "\t", " ", "'"]
        names = [""] + ["".join(p) for k in (1, 2, 3) for p in itertools.product(alphabet, repeat=k)]
        for m in CF.AtomType:
            for n in names:
                atom = T.Atom(None, None, None, 1, n, 0.0, 0.0, 0.0, None)
                out.append((["fn.atomMatches", m.name, hexs(n)], boolean(m.matches(atom)), [m.name, n]))
    elif name == "classifyClash":
        names = ["O3'", "OP1", "OP2", "OP3", "O1P", "O2P", "O3P", "P", "O5'", "", "o3'", "O3", " O3'", "OP4"]
        for a in names:
            for b in names:
                ai, aj = T.Atom(None, None, None, 1, a, 0.0, 0.0, 0.0, None), T.Atom(None, None, None, 1, b, 0.0, 0.0, 0.0, None)
                out.append((["fn.classifyClash", hexs(a), hexs(b)], optstr(CF.classify_clash(ai, aj, 1.0)), [a, b]))
    elif name == "pdbAtomName":
        alphabet = ["C", "a", "1", "'", " ", "Z", "é", "²", "٠", "*"]
        names = [""] + ["".join(p) for k in (1, 2, 3, 4) for p in itertools.product(alphabet, repeat=k)]
        if ctx.quick:
            names = names[:1200] + rng.sample(names[1200:], 2500)
        for n in names:
            line = P2._format_pdb_atom_line({"name": n})
            out.append((["fn.pdbAtomName", hexs(n)], hexs(line[12:16]) if len(line[12:16]) else "-", n))
    else:
        raise KeyError(name)
    return out


NO_MODEL_SIDE = {"residueChain", "residueNumber", "residueIcode", "residueName"}   # bridged by field equations, no separate model function


def _agree(got, exp):
    """-> (ok, description of what was expected)"""
    if isinstance(exp, tuple) and exp[0] == "angle":
        _, st, real = exp
        try:
            num, den = got.split("/")
            mine = math.acos(int(num) / int(den))
            ok = st == "ok" and (mine == real or abs(mine - real) <= 1e-12)
        except Exception:  # noqa: BLE001
            ok = False
        return ok, "acos(clamped cosine) == %r (%s)" % (real, st)
    return got == exp, exp


def run_fn(ctx, res, prop):
    """compare every regenerated function serving `prop` with the real Python function (`fn.*`: is the translation
    faithful?) and the real function with the model side of its bridge theorem (`fns.*`: on which argument did the
    function leave its model?)"""
    total = 0
    for name in SERVES.get(prop, []):
        sig = "%s:corr:fn:%s" % (prop, name)
        try:
            cs = cases(name, ctx)
        except Exception as e:  # noqa: BLE001  the real function can no longer be driven this way
            res.fail("corr", sig, {"function": name}, "cannot evaluate the real function: %s: %s" % (type(e).__name__, e))
            continue
        if cs is None:
            res.notes.append("fn:%s: real function not reachable as a black box (closure); carried by the translator only" % name)
            continue
        reqs = [c[0] for c in cs]
        with_model = name not in NO_MODEL_SIDE
        if with_model:
            reqs = reqs + [["fns." + c[0][0][3:]] + c[0][1:] for c in cs]
        answers = ctx.driver.ask(reqs)
        bad = badm = 0
        for k, (req, exp, inp) in enumerate(cs):
            res.case(("fn", name, tuple(req[1:])), nontrivial=True)
            total += 1
            ok, want = _agree(answers[k], exp)
            if not ok:
                bad += 1
                if bad <= 3:
                    res.fail("corr", sig, {"function": name, "request": req, "input": inp},
                             "regenerated Lean function answers %r, the real Python function %r" % (answers[k], want))
            if with_model:
                m = answers[len(cs) + k]
                if m == "undef":
                    res.count("fnspec-outside-hypotheses:%s" % name)
                    continue
                ok, want = _agree(m, exp)
                if not ok:
                    badm += 1
                    if badm <= 3:
                        res.fail("corr", "%s:corr:fnspec:%s" % (prop, name), {"function": name, "request": ["fns." + req[0][3:]] + req[1:], "input": inp},
                                 "the model side of the bridge theorem answers %r, the real Python function %r" % (m, want))
        res.count("fn:%s" % name, len(cs))
    return total

"""C14 worker: compute every output named in the property for a list of jobs, in THIS interpreter
(started with a given PYTHONHASHSEED), twice in-process with fresh objects, and print digests as JSON.

job = {"kind": "file", "path": ..., "find_gaps": bool} | {"kind": "bpseq", "seq": ..., "pairs": [...], "all": bool}
"""
import hashlib
import io
import json
import os
import sys
import tempfile

os.environ.setdefault("LOGLEVEL", "ERROR")


def dig(x):
    if isinstance(x, str):
        x = x.encode()
    return hashlib.sha256(x).hexdigest()[:16]


def outputs_file(job):
    from rnapolis.annotator import (extract_secondary_structure, write_csv, write_json)
    from rnapolis.parser import read_3d_structure
    out = {}
    with open(job["path"]) as f:
        s3d = read_3d_structure(f, None)
    s2d, dbs = extract_secondary_structure(s3d, None, job.get("find_gaps", False), job.get("all", True))
    bi = s2d.baseInteractions
    out["basePairs"] = dig(repr(bi.basePairs))
    out["stackings"] = dig(repr(bi.stackings))
    out["baseRibose"] = dig(repr(bi.baseRiboseInteractions))
    out["basePhosphate"] = dig(repr(bi.basePhosphateInteractions))
    out["bpseq"] = dig(s2d.bpseq)
    out["dotBracket"] = dig(s2d.dotBracket)
    out["extendedDotBracket"] = dig(s2d.extendedDotBracket)
    out["allDotBrackets(in order)"] = dig("\n".join(dbs))
    out["elements"] = dig("\n".join(str(e) for l in (s2d.stems, s2d.singleStrands, s2d.hairpins, s2d.loops) for e in l))
    d = tempfile.mkdtemp(prefix="c14-")
    try:
        pj, pc = os.path.join(d, "o.json"), os.path.join(d, "o.csv")
        write_json(pj, s2d)
        write_csv(pc, s2d)
        out["json"] = dig(open(pj, "rb").read())
        out["csv"] = dig(open(pc, "rb").read())
    finally:
        for f in os.listdir(d):
            os.remove(os.path.join(d, f))
        os.rmdir(d)
    # table-level reader and both writers
    try:
        from rnapolis import parser_v2
        with open(job["path"]) as f:
            if job["path"].endswith(".pdb"):
                atoms = parser_v2.parse_pdb_atoms(f)
            else:
                atoms = parser_v2.parse_cif_atoms(f)
        try:
            out["write_cif"] = dig(parser_v2.write_cif(atoms))
        except Exception as e:  # noqa: BLE001
            out["write_cif"] = "raises:" + type(e).__name__
        try:
            out["write_pdb"] = dig(parser_v2.write_pdb(atoms))
        except Exception as e:  # noqa: BLE001
            out["write_pdb"] = "raises:" + type(e).__name__
        # the fitting path (splitter / unifier): chain ids made two characters long, then fit_to_pdb + write_pdb
        if not job["path"].endswith(".pdb") and "auth_asym_id" in atoms.columns:
            try:
                a2 = atoms.copy()
                a2["auth_asym_id"] = (a2["auth_asym_id"].astype(str) + "x").astype("category")
                a2.attrs["format"] = atoms.attrs.get("format")
                out["fit_to_pdb+write_pdb"] = dig(parser_v2.write_pdb(parser_v2.fit_to_pdb(a2)))
            except Exception as e:  # noqa: BLE001
                out["fit_to_pdb+write_pdb"] = "raises:" + type(e).__name__
    except Exception as e:  # noqa: BLE001
        out["parser_v2"] = "raises:" + type(e).__name__
    return out


def outputs_external(job):
    """adapter path: a 3D file plus an FR3D listing (may contain competing pairs for one nucleotide)"""
    from rnapolis.adapter import ExternalTool, process_external_tool_output
    from rnapolis.annotator import write_csv, write_json
    from rnapolis.parser import read_3d_structure
    out = {}
    with open(job["path"]) as f:
        s3d = read_3d_structure(f, None)
    d = tempfile.mkdtemp(prefix="c14x-")
    try:
        lp = os.path.join(d, "listing.txt")
        with open(lp, "w") as f:
            f.write(job["listing"])
        s2d, dbs, mapping = process_external_tool_output(s3d, lp, ExternalTool("fr3d"), None, job.get("find_gaps", False), True)
        out["bpseq"] = dig(s2d.bpseq)
        out["dotBracket"] = dig(s2d.dotBracket)
        out["extendedDotBracket"] = dig(s2d.extendedDotBracket)
        out["allDotBrackets(in order)"] = dig("\n".join(dbs))
        out["basePairs"] = dig(repr(s2d.baseInteractions.basePairs))
        pj, pc = os.path.join(d, "o.json"), os.path.join(d, "o.csv")
        write_json(pj, s2d)
        write_csv(pc, s2d)
        out["json"] = dig(open(pj, "rb").read())
        out["csv"] = dig(open(pc, "rb").read())
    finally:
        for f in os.listdir(d):
            os.remove(os.path.join(d, f))
        os.rmdir(d)
    return out


def outputs_tool(job):
    """every file the command-line tool writes for an input path and a set of options, and what it prints"""
    import contextlib
    import logging
    import rnapolis.annotator as A
    logging.disable(logging.CRITICAL)
    names = {"-c": "o.csv", "-j": "o.json", "-b": "o.bpseq", "-p": "o.pml", "--inter-stem-csv": "inter.csv", "--stems-csv": "stems.csv"}
    d = tempfile.mkdtemp(prefix="c14-tool-")
    argv = [job["path"]]
    for o in job["flags"]:
        argv.append(o)
        if o in names:
            argv.append(os.path.join(d, names[o]))
    out = {}
    old, buf = sys.argv, io.StringIO()
    sys.argv = ["annotator"] + argv
    try:
        with contextlib.redirect_stdout(buf), contextlib.redirect_stderr(io.StringIO()):
            A.main()
    finally:
        sys.argv = old
    out["printed"] = dig(buf.getvalue())
    for o, n in names.items():
        q = os.path.join(d, n)
        if os.path.exists(q):
            # the scratch directory's own name may appear nowhere in an output
            out["file " + o] = dig(open(q, "rb").read().replace(d.encode(), b"<outdir>"))
    for n in os.listdir(d):
        os.remove(os.path.join(d, n))
    os.rmdir(d)
    return out


def outputs_bpseq(job):
    from rnapolis.common import BpSeq, Entry
    b = BpSeq([Entry(i + 1, c, p) for i, (c, p) in enumerate(zip(job["seq"], job["pairs"]))])
    out = {}
    out["bpseq"] = dig(str(b))
    out["dotBracket"] = dig(str(b.dot_bracket))
    out["fcfs"] = dig(str(b.fcfs))
    if job.get("all", True):
        out["allDotBrackets(in order)"] = dig("\n".join(d.structure for d in b.all_dot_brackets))
    out["elements"] = dig("\n".join(str(e) for l in b.elements for e in l))
    out["without_pseudoknots"] = dig(str(b.without_pseudoknots()))
    out["without_isolated"] = dig(str(b.without_isolated()))
    return out


def main():
    jobs = json.load(sys.stdin)
    res = []
    for job in jobs:
        f = {"file": outputs_file, "external": outputs_external, "tool": outputs_tool}.get(job["kind"], outputs_bpseq)
        try:
            a = f(job)
        except Exception as e:  # noqa: BLE001
            a = {"_error": type(e).__name__ + ": " + str(e)[:200]}
        try:
            b = f(job)
        except Exception as e:  # noqa: BLE001
            b = {"_error": type(e).__name__ + ": " + str(e)[:200]}
        res.append({"first": a, "second": b})
    json.dump(res, sys.stdout)


if __name__ == "__main__":
    main()

"""G1 — secondary structures: exhaustive matchings, planted-stem random structures, families.

A structure is (seq: str, pairs: list[int]) with pairs[i] = 1-based partner of position i+1 or 0.
"""
import os


def all_matchings(n):
    """every symmetric pairing on n positions (involutions without restriction on span)"""
    pairs = [0] * n

    def rec(i):
        while i < n and pairs[i] != 0:
            i += 1
        if i >= n:
            yield list(pairs)
            return
        # i unpaired
        pairs[i] = -1
        yield from rec(i + 1)
        pairs[i] = 0
        for j in range(i + 1, n):
            if pairs[j] == 0:
                pairs[i], pairs[j] = j + 1, i + 1
                yield from rec(i + 1)
                pairs[i], pairs[j] = 0, 0

    for p in rec(0):
        yield [0 if x == -1 else x for x in p]


def seq_for(n, rng=None):
    if rng is None:
        return ("ACGU" * (n // 4 + 1))[:n]
    # mostly the four standard letters; now and then what real BPSEQ files also carry: lower-case letters
    # (modified residues), N and T
    return "".join(rng.choice("ACGU" * 8 + "acguNT") for _ in range(n))


def exhaustive(nmax, nmin=1):
    for n in range(nmin, nmax + 1):
        s = seq_for(n)
        for p in all_matchings(n):
            yield (s, p)


def planted(rng, nstems=None, maxlen=6, n=None):
    """random structure from planted stems; crossing/nesting arbitrary"""
    if nstems is None:
        nstems = rng.randint(1, 25)
    if n is None:
        n = rng.randint(10, 400)
    pairs = [0] * n
    for _ in range(nstems):
        L = rng.randint(1, maxlen)
        for _try in range(20):
            i = rng.randrange(0, n)
            j = rng.randrange(0, n)
            if i > j:
                i, j = j, i
            if j - i + 1 < 2 * L:
                continue
            if all(pairs[i + t] == 0 and pairs[j - t] == 0 for t in range(L)):
                for t in range(L):
                    pairs[i + t] = j - t + 1
                    pairs[j - t] = i + t + 1
                break
    return (seq_for(n, rng), pairs)


def small_dense(rng, n=None, p=0.7):
    """short structure with many single pairs (lots of conflicts, small components)"""
    if n is None:
        n = rng.randint(6, 24)
    free = list(range(n))
    rng.shuffle(free)
    pairs = [0] * n
    while len(free) >= 2 and rng.random() < p:
        a = free.pop()
        b = free.pop()
        pairs[a] = b + 1
        pairs[b] = a + 1
    return (seq_for(n, rng), pairs)


def tight(rng, n=None, ntypes=3, fill=0.9):
    """structure decoded from a random balanced multi-type bracket string with few dots: stems that abut
    (opening nucleotide directly after another stem's strand), crossing groups with odd geometry"""
    import string as _s
    OPEN = "([{<" + _s.ascii_uppercase
    CLOSE = ")]}>" + _s.ascii_lowercase
    if n is None:
        n = rng.randint(6, 28)
    s = ["."] * n
    free = list(range(n))
    rng.shuffle(free)
    placed = {t: [] for t in range(ntypes)}
    k = int(n * fill / 2)
    for _ in range(k):
        if len(free) < 2:
            break
        a, b = free.pop(), free.pop()
        i, j = min(a, b), max(a, b)
        for t in rng.sample(range(ntypes), ntypes):
            if all(not (x < i < y < j or i < x < j < y) for x, y in placed[t]):
                placed[t].append((i, j))
                s[i], s[j] = OPEN[t], CLOSE[t]
                break
    return from_dbn("".join(s), seq_for(n, rng))


def ladder(k, stemlen=1, gap=0):
    """k mutually crossing stems: opening blocks 1..k then closing blocks 1..k (needs k levels)"""
    n = 2 * k * (stemlen + gap)
    pairs = [0] * n
    for s in range(k):
        o = s * (stemlen + gap)
        c = (k + s) * (stemlen + gap)
        for t in range(stemlen):
            i = o + t
            j = c + stemlen - 1 - t
            pairs[i] = j + 1
            pairs[j] = i + 1
    return (seq_for(n), pairs)


def clique(lengths, gap=1, rng=None):
    """len(lengths) mutually crossing stems of the given lengths (opening blocks in order, then closing blocks in the
    same order); returns ((seq, pairs), lengths in 5'->3' order of the stems)"""
    k = len(lengths)
    opens, pos = [], 0
    for L in lengths:
        opens.append(pos)
        pos += L + gap
    closes = []
    for L in lengths:
        closes.append(pos)
        pos += L + gap
    pairs = [0] * pos
    for s, L in enumerate(lengths):
        for t in range(L):
            i = opens[s] + t
            j = closes[s] + L - 1 - t
            pairs[i] = j + 1
            pairs[j] = i + 1
    return (seq_for(pos, rng), pairs)


def from_dbn(structure, seq=None):
    from rnapolis.common import BpSeq, DotBracket
    seq = seq or seq_for(len(structure))
    b = BpSeq.from_dotbracket(DotBracket.from_string(seq, structure))
    return (seq, [e.pair for e in b.entries])


def corpus():
    """BPSEQ / dot-bracket files of the repository's tests directory"""
    from rnapolis.common import BpSeq, DotBracket
    tdir = "/repo/tests"
    out = []
    for f in sorted(os.listdir(tdir)):
        p = os.path.join(tdir, f)
        try:
            if f.endswith(".bpseq"):
                b = BpSeq.from_file(p)
            elif f.endswith(".dbn"):
                b = BpSeq.from_dotbracket(DotBracket.from_file(p))
            else:
                continue
        except Exception:
            continue
        out.append((f, ("".join(e.sequence for e in b.entries), [e.pair for e in b.entries])))
    return out


def handmade():
    """corner cases kept from past failures / by hand"""
    cases = [
        ("A", [0]), ("AC", [2, 1]), ("ACG", [0, 0, 0]), ("ACGU", [4, 3, 2, 1]), ("ACGU", [2, 1, 4, 3]),
        ("ACGU", [3, 4, 1, 2]), ("ACGUAC", [4, 5, 6, 1, 2, 3]), ("ACGUACGU", [5, 7, 0, 0, 1, 8, 2, 6]),
    ]
    cases.append(from_dbn("((..[[..))..]]"))
    cases.append(from_dbn("(.[.{.).].}"))
    cases.append(from_dbn("((.(..).(..).))"))
    cases.append(from_dbn("..((..))..((..)).."))
    cases.append(from_dbn("(([[))]]..((..))"))
    return cases


def mk_bpseq(seq, pairs):
    from rnapolis.common import BpSeq, Entry
    return BpSeq([Entry(i + 1, c, p) for i, (c, p) in enumerate(zip(seq, pairs))])


def pstr(pairs):
    return ",".join(map(str, pairs)) if pairs else "-"


def stats(seq, pairs):
    """cheap structural statistics used for the input-distribution report"""
    n = len(pairs)
    npairs = sum(1 for i, p in enumerate(pairs) if p > i + 1)
    return n, npairs

"""G2 — structures x pair lists for the 3D->2D mapping (C06).

A *case* is JSON-serialisable:
  {"structure": {"kind": "corpus", "name": "1A1T_1_B.cif"} |
                {"kind": "synthetic", "label": bool, "residues": [{"chain","number","icode","letter","atoms":[[name,x,y,z],..]}, ..]},
   "pairs": [[r1, r2, lw, sa], ...],   r = nucleotide position (int) or ["d", k] (a residue that is not in the structure);
                                        lw = index into LeontisWesthof, sa = index into Saenger or None
   "mode": "full" | "auth",            how the Residue objects of the pair list are built (label+auth / auth only)
   "find_gaps": bool}
"""
import os
from fractions import Fraction

REPO = os.environ.get("RNAPOLIS_REPO", "/repo")
TESTS = os.path.join(REPO, "tests")

_cache = {}

NUC_ATOMS = ["P", "OP1", "OP2", "O5'", "O3'", "C1'", "C2'", "C3'", "C4'", "C5'", "O4'"]
COMPLEMENT = {"A": "UT", "U": "AG", "T": "A", "G": "CU", "C": "G"}


def load_corpus(name):
    if name not in _cache:
        from rnapolis.parser import read_3d_structure
        with open(os.path.join(TESTS, name)) as fh:
            _cache[name] = read_3d_structure(fh, 1)
    return _cache[name]


def build_structure(desc):
    """Structure3D for a case description"""
    if desc["kind"] == "corpus":
        return load_corpus(desc["name"])
    from rnapolis.common import ResidueAuth, ResidueLabel
    from rnapolis.tertiary import Atom, Residue3D, Structure3D
    residues = []
    for k, r in enumerate(desc["residues"]):
        name = r["letter"].upper()
        auth = ResidueAuth(r["chain"], r["number"], r["icode"], name)
        label = ResidueLabel(r["chain"], k + 1, name) if desc.get("label") else None
        atoms = tuple(Atom(None, label, auth, 1, a[0], float(a[1]), float(a[2]), float(a[3]), 1.0) for a in r["atoms"])
        residues.append(Residue3D(label, auth, 1, r["letter"], atoms))
    return Structure3D(residues)


def nucleotides(structure):
    return [r for r in structure.residues if r.is_nucleotide]


def _atom(res, name):
    for a in res.atoms:
        if a.name == name:
            return a
    return None


def describe(structure):
    """model view of a structure: [(chain, number, icode, letter, d2)] per nucleotide in file order;
    d2 = exact squared O3'(k)...P(k+1) distance as 'num/den' or None; plus #near-threshold"""
    nts = nucleotides(structure)
    out = []
    near = 0
    for k, r in enumerate(nts):
        d2 = None
        if k + 1 < len(nts):
            o3, p = _atom(r, "O3'"), _atom(nts[k + 1], "P")
            if o3 is not None and p is not None:
                d = sum((Fraction(a) - Fraction(b)) ** 2 for a, b in ((o3.x, p.x), (o3.y, p.y), (o3.z, p.z)))
                d2 = "%d/%d" % (d.numerator, d.denominator)
                if abs(float(d) ** 0.5 - 2.4) < 1e-6:
                    near += 1
        out.append((r.chain, r.number, r.icode, r.one_letter_name, d2))
    return out, near


def unique_ok(structure):
    """the identification residue = position is sound: labels, auths and ordering keys are unique"""
    nts = nucleotides(structure)
    if any(r.auth is None for r in nts):
        return False
    if len({r.auth for r in nts}) != len(nts) or len({(r.chain, r.number, r.icode or " ") for r in nts}) != len(nts):
        return False
    labels = [r.label for r in structure.residues if r.label is not None]
    auths = [r.auth for r in structure.residues if r.auth is not None]
    return len(set(labels)) == len(labels) and len(set(auths)) == len(auths) and all(len(r.one_letter_name) == 1 for r in nts)


def build_pairs(structure, pairs, mode):
    """BasePair list for the abstract records"""
    from rnapolis.common import BasePair, LeontisWesthof, Residue, ResidueAuth, Saenger
    nts = nucleotides(structure)
    lws, sas = list(LeontisWesthof), list(Saenger)

    def res(r):
        if isinstance(r, (list, tuple)):
            if len(r) == 3 and nts and nts[r[2] % len(nts)].auth is not None:
                # chain, number and insertion code of an existing nucleotide under another residue name (the parent name
                # of a modified nucleotide, a listing made for a homologous molecule): not a residue of this structure
                a = nts[r[2] % len(nts)].auth
                return Residue(None, ResidueAuth(a.chain, a.number, a.icode, (a.name or "") + "X"))
            return Residue(None, ResidueAuth("Zq", 9000 + int(r[1]), None, "G"))
        n = nts[r]
        if mode == "mixed":
            # a merged list of several sources: every occurrence of a residue spelled its own way
            # (label + auth, auth only, label only) — deterministic per (list position) so that replays agree
            k = (res.count * 7 + (r if isinstance(r, int) else 0) * 3) % 5
            res.count += 1
            if k in (0, 1) or n.label is None or n.auth is None:
                return Residue(n.label, n.auth)
            return Residue(None, n.auth) if k in (2, 3) else Residue(n.label, None)
        if mode == "foreign-label" and n.auth is not None:
            # a list made for another form of the same entry (annotated on the mmCIF file, applied to the PDB file): the
            # author identifiers are this structure's, the label identifiers are not
            from rnapolis.common import ResidueLabel
            return Residue(ResidueLabel("zz", 7000 + (r if isinstance(r, int) else 0), n.auth.name), n.auth)
        return Residue(n.label if mode == "full" else None, n.auth)
    res.count = 0
    return [BasePair(res(a), res(b), lws[lw], None if sa is None else sas[sa]) for a, b, lw, sa in pairs]


# ---------------------------------------------------------------- synthetic structures

def synthetic(rng, max_chains=3, max_len=6):
    """minimal nucleotides (phosphate + sugar atoms, P-O5' bonded) with O3'/P placed to force or
    forbid connectivity, number jumps -1..+5, insertion codes, interspersed non-nucleotides"""
    residues = []
    used = set()
    x = 0.0
    nchains = rng.randint(1, max_chains)
    names = rng.sample(["A", "B", "C", "AA", "a", "B-2"], nchains)
    if rng.random() < 0.3:
        names.sort(reverse=True)
    if nchains >= 2 and rng.random() < 0.2:
        # a chain identifier revisited after another chain (A.., B.., A..: trailing modified residues, a nicked strand)
        names = names + [names[0]]
    last_number = {}
    for chain in names:
        number = rng.choice([1, 1, 5, -3, 100]) if chain not in last_number else last_number[chain] + rng.choice([1, 2, 10])
        prev_o3 = None
        for k in range(rng.randint(1, max_len)):
            if k > 0:
                number += rng.choice([1, 1, 1, 1, 2, 2, 3, 4, 5, 6, 0, -1])
            icode = None
            while (chain, number, icode) in used:
                icode = rng.choice("ABCDE")
            if icode is None and rng.random() < 0.05:
                icode = rng.choice("AB")
            used.add((chain, number, icode))
            last_number[chain] = number
            # P position: next to the previous O3' at a chosen distance, or far away
            if prev_o3 is not None:
                d = rng.choice([1.6, 1.6, 1.6, 2.39, 2.41, 2.399, 2.401, 3.5, 7.0])
                px = prev_o3 + d
            else:
                px = x
            atoms = []
            drop = rng.random()
            for i, nm in enumerate(NUC_ATOMS):
                if nm == "P":
                    if drop < 0.05 and k > 0:
                        continue
                    atoms.append([nm, px, 0.0, 0.0])
                elif nm == "O5'":
                    atoms.append([nm, px + 1.5, 0.0, 0.0])
                elif nm == "O3'":
                    if 0.05 <= drop < 0.10:
                        continue
                    atoms.append([nm, px + 4.0, 0.0, 0.0])
                else:
                    atoms.append([nm, px + 1.0, 1.0 + i, 0.0])
            if drop < 0.10:
                # keep it a nucleotide although a backbone atom is missing: add the glycosidic bond
                atoms.append(["N9", px + 1.0, 1.0 + NUC_ATOMS.index("C1'") + 1.0, 0.0])
                atoms += [[nm, px + 2.0, 9.0 + j, 1.0] for j, nm in enumerate(["N1", "C2", "N3", "C4", "C5", "C6", "N6", "N7", "C8"])]
            prev_o3 = px + 4.0
            x = px + 20.0
            letter = rng.choice("ACGU" * 5 + "T" + "a" + "N")
            residues.append({"chain": chain, "number": number, "icode": icode, "letter": letter, "atoms": atoms})
            if rng.random() < 0.08:
                wn = 5000 + len(residues)
                residues.append({"chain": chain, "number": wn, "icode": None, "letter": "X",
                                 "atoms": [["O", x, 50.0, 0.0]]})
    return {"kind": "synthetic", "label": rng.random() < 0.5, "residues": residues}


# ---------------------------------------------------------------- pair lists

CANON_SA = [18, 19, 27]  # XIX, XX, XXVIII


def random_pairs(rng, letters, size=None, nlw=18, nsa=28, lw_rev=None):
    """abstract records over nucleotide positions 0..n-1 (letters = their one-letter names)"""
    n = len(letters)
    if n == 0:
        return [[["d", 1], ["d", 2], 0, None]], {"dangling": 1}
    if size is None:
        size = rng.choice([0, 1, 2, 3, 5, 8, 12, 20])
    feats = {}
    out = []

    def lw_pick():
        return 0 if rng.random() < 0.55 else rng.randrange(nlw)

    def sa_pick():
        r = rng.random()
        if r < 0.6:
            return None
        if r < 0.85:
            return rng.choice(CANON_SA)
        return rng.randrange(nsa)

    def partner_for(i):
        """prefer a complementary letter so that pairs without Saenger class can be canonical"""
        if rng.random() < 0.7:
            want = COMPLEMENT.get(letters[i].upper(), "")
            cands = [j for j in range(n) if j != i and letters[j].upper() in want]
            if cands:
                return rng.choice(cands)
        return rng.randrange(n)

    # planted helices: nested runs, realistic and mostly conflict free
    if n >= 6 and rng.random() < 0.5:
        for _ in range(rng.randint(1, 3)):
            i = rng.randrange(0, n - 3)
            j = rng.randrange(i + 3, n)
            L = rng.randint(1, 5)
            sa = rng.choice([None, None, 18, 19])
            for t in range(L):
                if i + t < j - t - 1:
                    out.append([i + t, j - t, 0, sa])
            feats["helix"] = feats.get("helix", 0) + 1
    for _ in range(size):
        r = rng.random()
        if r < 0.50 or not out:
            i = rng.randrange(n)
            out.append([i, partner_for(i), lw_pick(), sa_pick()])
        elif r < 0.60:
            out.append(list(rng.choice(out)))
            feats["dup"] = feats.get("dup", 0) + 1
        elif r < 0.72:
            a, b, lw, sa = rng.choice(out)
            out.append([b, a, lw_rev[lw] if rng.random() < 0.8 else lw, sa])
            feats["rev"] = feats.get("rev", 0) + 1
        elif r < 0.84:
            # multiplet: one residue, one edge class, degree 2..5
            i = rng.randrange(n)
            lw = lw_pick()
            sa = sa_pick()
            deg = rng.randint(2, 5)
            for _ in range(deg):
                j = partner_for(i)
                out.append([i, j, lw, sa] if rng.random() < 0.6 else [j, i, lw_rev[lw], sa])
            feats["multiplet"] = max(feats.get("multiplet", 0), deg)
        elif r < 0.90:
            d = ["d", rng.randint(1, 3)]
            if rng.random() < 0.4:
                d = ["d", rng.randint(1, 3), rng.randrange(n)]
                feats["dangling-at-existing-position"] = feats.get("dangling-at-existing-position", 0) + 1
            i = rng.randrange(n)
            out.append(rng.choice([[d, i, lw_pick(), sa_pick()], [i, d, lw_pick(), sa_pick()], [d, ["d", 7], 0, None]]))
            feats["dangling"] = feats.get("dangling", 0) + 1
        elif r < 0.95:
            i = rng.randrange(n)
            out.append([i, i, lw_pick(), sa_pick()])
            feats["self"] = feats.get("self", 0) + 1
        else:
            # same two residues again under another class / Saenger annotation
            a, b, lw, sa = rng.choice(out)
            out.append([a, b, lw_pick(), sa_pick()])
            feats["same-residues-other-class"] = feats.get("same-residues-other-class", 0) + 1
    if rng.random() < 0.3:
        rng.shuffle(out)
    return out, feats


def hand_cases():
    """small hand-made cases (run first): the two shapes on which a two-row extended notation breaks"""
    def nt(chain, number, letter, px):
        atoms = []
        for i, nm in enumerate(NUC_ATOMS):
            if nm == "P":
                atoms.append([nm, px, 0.0, 0.0])
            elif nm == "O5'":
                atoms.append([nm, px + 1.5, 0.0, 0.0])
            elif nm == "O3'":
                atoms.append([nm, px + 4.0, 0.0, 0.0])
            else:
                atoms.append([nm, px + 1.0, 1.0 + i, 0.0])
        return {"chain": chain, "number": number, "icode": None, "letter": letter, "atoms": atoms}
    s4 = {"kind": "synthetic", "label": False, "residues": [nt("A", k + 1, "GCAU"[k % 4], 5.6 * k) for k in range(4)]}
    s5 = {"kind": "synthetic", "label": False, "residues": [nt("A", k + 1, "GCAUG"[k % 5], 5.6 * k) for k in range(5)]}
    gap = {"kind": "synthetic", "label": False,
           "residues": [nt("A", 1, "G", 0.0), nt("A", 2, "C", 5.6), nt("A", 5, "G", 30.0), nt("B", 9, "C", 60.0), nt("B", 8, "U", 90.0)]}
    out = []
    for fg in (False, True):
        # one residue with three partners in one class
        out.append({"structure": s4, "pairs": [[0, 1, 1, None], [0, 2, 1, None], [0, 3, 1, None]], "mode": "auth", "find_gaps": fg})
        # degree two only: x-z, y-w fill the first row, r-x and r-y then share r in the second
        out.append({"structure": s5, "pairs": [[1, 3, 0, None], [2, 4, 0, None], [0, 1, 0, None], [0, 2, 0, None]], "mode": "auth", "find_gaps": fg})
        out.append({"structure": gap, "pairs": [[0, 3, 0, None], [1, 2, 0, 18], [1, 4, 0, 27]], "mode": "auth", "find_gaps": fg})
        out.append({"structure": gap, "pairs": [], "mode": "auth", "find_gaps": fg})
    return out

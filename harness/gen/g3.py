"""G3 — 3D structures: corpus files, rigid motions, jitter, thinning, shuffles, synthetic placements.

Everything random takes an explicit ``rng`` (pass ``ctx.rng``).  Structures are the repo's own
``Structure3D`` / ``Residue3D`` / ``Atom`` objects; ``to_request`` converts one into the exact-rational
argument of the Lean driver's ``stk.*`` / ``clash.*`` ops (see lean/RnaVerif/Driver/GeomOps.lean).
"""
import dataclasses
import gzip
import math
import os
import tempfile

import numpy as np

TESTS = os.environ.get("RNAPOLIS_TESTS", "/repo/tests")

_cache = {}


# ----------------------------------------------------------------------------- corpus
def corpus_paths():
    out = []
    for f in sorted(os.listdir(TESTS)):
        low = f.lower()
        if low.endswith((".cif", ".pdb", ".cif.gz", ".pdb.gz")):
            out.append((f, os.path.join(TESTS, f)))
    return out


def load(path, model=None):
    """Structure3D through the real reader (``.gz`` is unpacked to a temporary file first)."""
    from rnapolis.parser import read_3d_structure
    if path.endswith(".gz"):
        with gzip.open(path, "rt") as g:
            text = g.read()
        suffix = ".cif" if ".cif" in path else ".pdb"
        with tempfile.NamedTemporaryFile("w+", suffix=suffix) as tmp:
            tmp.write(text)
            tmp.flush()
            tmp.seek(0)
            return read_3d_structure(tmp, model)
    with open(path) as f:
        return read_3d_structure(f, model)


def corpus(max_atoms=None):
    """[(file name, Structure3D)] for every readable 3D file under /repo/tests (cached)."""
    if "corpus" not in _cache:
        out = []
        for name, path in corpus_paths():
            try:
                st = load(path)
            except Exception:  # noqa: BLE001  unreadable corpus members are simply skipped
                continue
            if st.residues:
                out.append((name, st))
        _cache["corpus"] = out
    res = _cache["corpus"]
    if max_atoms is not None:
        res = [(n, s) for n, s in res if n_atoms(s) <= max_atoms]
    return res


def n_atoms(st):
    return sum(len(r.atoms) for r in st.residues)


# ----------------------------------------------------------------------------- rebuilding
def mk_structure(residues):
    from rnapolis.tertiary import Structure3D
    return Structure3D(list(residues))


def mk_residue(r, atoms=None, **kw):
    from rnapolis.tertiary import Residue3D
    return Residue3D(kw.get("label", r.label), kw.get("auth", r.auth), kw.get("model", r.model),
                     kw.get("one_letter_name", r.one_letter_name), tuple(r.atoms if atoms is None else atoms))


def map_atoms(st, fn):
    """fn(residue_index, atom_index, atom) -> Atom | None (dropped)"""
    out = []
    for ri, r in enumerate(st.residues):
        atoms = []
        for ai, a in enumerate(r.atoms):
            b = fn(ri, ai, a)
            if b is not None:
                atoms.append(b)
        out.append(mk_residue(r, atoms))
    return mk_structure(out)


def map_coords(st, fn):
    """fn(np.array([x, y, z])) -> array-like of three floats"""
    def f(ri, ai, a):
        p = fn(np.array([a.x, a.y, a.z]))
        return dataclasses.replace(a, x=float(p[0]), y=float(p[1]), z=float(p[2]))
    return map_atoms(st, f)


def subset(st, idx):
    return mk_structure([st.residues[i] for i in idx])


def window(st, rng, size):
    n = len(st.residues)
    if n <= size:
        return st
    s = rng.randrange(0, n - size + 1)
    return subset(st, range(s, s + size))


def concat(*sts):
    rs = []
    for s in sts:
        rs.extend(s.residues)
    return mk_structure(rs)


def renumber(res, chain, number, icode=None):
    """same residue under another auth identity (label dropped so that `auth` decides)"""
    from rnapolis.common import ResidueAuth
    name = res.auth.name if res.auth is not None else (res.label.name if res.label is not None else "N")
    auth = ResidueAuth(chain, number, icode, name)
    atoms = [dataclasses.replace(a, label=None, auth=auth) for a in res.atoms]
    return mk_residue(res, atoms, label=None, auth=auth)


def icode_siblings(st, rng, chain=None):
    """the same atoms under identities that differ ONLY in the insertion code: runs of 2-3 consecutive residues
    share chain and number (47, 47A, 47B as in tRNA numbering).  File order is kept and stays ascending in
    (chain, number, icode).  Residues of every model get the same new identity pattern."""
    out = []
    ch = chain or (st.residues[0].chain if st.residues else "A") or "A"
    num = rng.randint(1, 300)
    i = 0
    rs = list(st.residues)
    while i < len(rs):
        run = min(len(rs) - i, rng.choice([1, 2, 2, 3]))
        for k in range(run):
            out.append(renumber(rs[i + k], ch, num, [None, "A", "B"][k]))
        i += run
        num += rng.choice([1, 1, 2])
    return mk_structure(out)


def split_residue(st, rng, base_together=False):
    """one residue's atom records are not contiguous: its second half is listed after the following residue, so the
    structure holds two entries with the same identifiers (what the reader builds from such a file); None when there
    is no suitable residue"""
    rs = list(st.residues)
    cand = [i for i in range(len(rs) - 1) if len(rs[i].atoms) >= 6]
    if not cand:
        return None
    i = rng.choice(cand)
    r = rs[i]
    if base_together:
        # backbone / sugar atoms first, the whole base after the following residue (only one of the two entries has a base)
        from rnapolis.tertiary import BASE_ATOMS
        names = set(BASE_ATOMS.get(r.one_letter_name, []))
        a1 = [a for a in r.atoms if a.name not in names]
        a2 = [a for a in r.atoms if a.name in names]
        if not a1 or not a2:
            return None
        first, second = mk_residue(r, a1), mk_residue(r, a2)
        return mk_structure(rs[:i] + [first, rs[i + 1], second] + rs[i + 2:])
    k = rng.randint(2, len(r.atoms) - 2)
    first = mk_residue(r, list(r.atoms[:k]))
    second = mk_residue(r, list(r.atoms[k:]))
    return mk_structure(rs[:i] + [first, rs[i + 1], second] + rs[i + 2:])


# ----------------------------------------------------------------------------- rigid motions
def quat_rotation(rng):
    """uniform random rotation matrix from a normalised Gaussian quaternion"""
    while True:
        q = np.array([rng.gauss(0, 1) for _ in range(4)])
        n = np.linalg.norm(q)
        if n > 1e-6:
            break
    w, x, y, z = q / n
    return np.array([
        [1 - 2 * (y * y + z * z), 2 * (x * y - z * w), 2 * (x * z + y * w)],
        [2 * (x * y + z * w), 1 - 2 * (x * x + z * z), 2 * (y * z - x * w)],
        [2 * (x * z - y * w), 2 * (y * z + x * w), 1 - 2 * (x * x + y * y)]])


def axis_permutations():
    """the 24 proper rotations that permute the coordinate axes (exact in floating point)"""
    import itertools
    out = []
    for perm in itertools.permutations(range(3)):
        for signs in itertools.product((1.0, -1.0), repeat=3):
            m = np.zeros((3, 3))
            for i in range(3):
                m[i, perm[i]] = signs[i]
            if round(np.linalg.det(m)) == 1:
                out.append(m)
    assert len(out) == 24
    return out


def random_translation(rng, limit=500.0):
    return np.array([rng.uniform(-limit, limit) for _ in range(3)])


def rigid(st, R, t=(0.0, 0.0, 0.0)):
    R = np.asarray(R, dtype=float)
    t = np.asarray(t, dtype=float)
    return map_coords(st, lambda p: R @ p + t)


def random_rigid(st, rng, limit=500.0):
    return rigid(st, quat_rotation(rng), random_translation(rng, limit))


# ----------------------------------------------------------------------------- perturbations
def jitter(st, rng, sigma):
    return map_coords(st, lambda p: p + np.array([rng.gauss(0, sigma) for _ in range(3)]))


def thin(st, rng, p_res=0.1, p_atom=0.1):
    """drop residues with probability p_res and atoms of the others with probability p_atom"""
    keep = [r for r in st.residues if rng.random() >= p_res]
    out = []
    for r in keep:
        atoms = [a for a in r.atoms if rng.random() >= p_atom]
        if atoms:
            out.append(mk_residue(r, atoms))
    return mk_structure(out)


def shuffle_atoms(st, rng):
    out = []
    for r in st.residues:
        atoms = list(r.atoms)
        rng.shuffle(atoms)
        out.append(mk_residue(r, atoms))
    return mk_structure(out)


def shuffle_residues(st, rng):
    rs = list(st.residues)
    rng.shuffle(rs)
    return mk_structure(rs)


def set_occupancies(st, fn):
    """fn(residue_index, atom_index, atom) -> occupancy (float | None)"""
    return map_atoms(st, lambda ri, ai, a: dataclasses.replace(a, occupancy=fn(ri, ai, a)))


OCC_PAIRS = [(0.5, 0.5), (0.3, 0.7), (0.33, 0.67), (0.25, 0.75), (0.4, 0.6), (0.0, 1.0), (1.0, 1.0),
             (None, None), (None, 0.0), (0.5, 1.0), (0.0, 0.0), (0.1, 0.9), (0.45, 0.55), (1.0, 0.0)]
OCC_SINGLE = [1.0, 1.0, 1.0, 0.5, 0.5, 0.3, 0.7, 0.25, 0.75, 0.0, None, 0.33, 0.67]


def random_occupancies(st, rng, p=0.5):
    """partial occupancies on a fraction p of the atoms"""
    return set_occupancies(st, lambda ri, ai, a: rng.choice(OCC_SINGLE) if rng.random() < p else a.occupancy)


# ----------------------------------------------------------------------------- exact-rational requests
def frac(x):
    n, d = float(x).as_integer_ratio()
    return "%d/%d" % (n, d) if d != 1 else "%d" % n


def _hex(s):
    return s.encode("utf-8").hex() if s else "-"


def residue_request(r):
    head = ",".join([str(r.model), _hex(r.chain or ""), str(r.number if r.number is not None else 0),
                     _hex(r.icode or ""), _hex(r.one_letter_name or ""), _hex(str(r)),
                     "1" if r.is_nucleotide else "0"])
    atoms = ["%s:%s:%s:%s:%s" % (_hex(a.name), frac(a.x), frac(a.y), frac(a.z),
                                 "-" if a.occupancy is None else frac(a.occupancy)) for a in r.atoms]
    return "|".join([head] + atoms)


def to_request(st):
    """the structure argument of `stk.find` / `clash.find` / `clash.report`"""
    if not st.residues:
        return "-"
    return ";".join(residue_request(r) for r in st.residues)


def atom_index(st):
    """id(atom) -> global atom index (file order), as the driver numbers atoms"""
    out = {}
    k = 0
    for r in st.residues:
        for a in r.atoms:
            out[id(a)] = k
            k += 1
    return out


def residue_index(st):
    out = {}
    for i, r in enumerate(st.residues):
        out[id(r)] = i
    return out


def well_formed(st, allow_repeated_identity=False):
    """distinct residue identities, numbers present, atom names without separators or outer blanks"""
    seen = set()
    for r in st.residues:
        if r.chain is None or r.number is None:
            return False
        k = (r.model, r.label, r.auth)
        k2 = (r.model, r.chain, r.number, r.icode or " ")
        if (k in seen or k2 in seen) and not allow_repeated_identity:
            return False
        seen.add(k)
        seen.add(k2)
        for a in r.atoms:
            if not a.name or a.name != a.name.strip():
                return False
            if not all(math.isfinite(v) for v in (a.x, a.y, a.z)):
                return False
    return True


# ----------------------------------------------------------------------------- base templates and placements
def code_centroid(r):
    """centroid exactly as find_stackings computes it (Python floats); None without base atoms"""
    from rnapolis.tertiary import BASE_ATOMS
    xs, ys, zs = [], [], []
    for name in BASE_ATOMS.get(r.one_letter_name, []):
        a = r.find_atom(name)
        if a is not None:
            xs.append(a.x)
            ys.append(a.y)
            zs.append(a.z)
    if not xs:
        return None
    return np.array([sum(xs) / len(xs), sum(ys) / len(ys), sum(zs) / len(zs)])


def code_normal(r):
    return mk_residue(r).base_normal_vector  # fresh object: no stale cached_property


def base_templates(max_per_letter=6):
    """residues with a complete base, cut from the corpus and moved to the standard pose:
    centroid at the origin, base normal along +z.  [(letter, Residue3D)]"""
    if "templates" in _cache:
        return _cache["templates"]
    from rnapolis.tertiary import BASE_ATOMS
    out, per = [], {}
    for name, st in corpus():
        for r in st.residues:
            names = BASE_ATOMS.get(r.one_letter_name)
            if not names or per.get(r.one_letter_name, 0) >= max_per_letter:
                continue
            if any(r.find_atom(n) is None for n in names):
                continue
            c, n = code_centroid(r), code_normal(r)
            if c is None or n is None or not np.all(np.isfinite(n)):
                continue
            R = rotation_to_z(n)
            std = mk_structure([r])
            std = rigid(std, R, -(R @ c)).residues[0]
            per[r.one_letter_name] = per.get(r.one_letter_name, 0) + 1
            out.append((r.one_letter_name, std))
    _cache["templates"] = out
    return out


def rotation_to_z(n):
    """rotation matrix taking the unit vector n to (0, 0, 1)"""
    n = np.asarray(n, dtype=float)
    n = n / np.linalg.norm(n)
    z = np.array([0.0, 0.0, 1.0])
    v = np.cross(n, z)
    s, c = np.linalg.norm(v), float(np.dot(n, z))
    if s < 1e-12:
        return np.eye(3) if c > 0 else np.diag([1.0, -1.0, -1.0])
    vx = np.array([[0, -v[2], v[1]], [v[2], 0, -v[0]], [-v[1], v[0], 0]])
    return np.eye(3) + vx + vx @ vx * ((1 - c) / (s * s))


def rot_x(deg):
    a = math.radians(deg)
    return np.array([[1, 0, 0], [0, math.cos(a), -math.sin(a)], [0, math.sin(a), math.cos(a)]])


def rot_z(deg):
    a = math.radians(deg)
    return np.array([[math.cos(a), -math.sin(a), 0], [math.sin(a), math.cos(a), 0], [0, 0, 1]])


def stack_pair(rng, tmpl_i, tmpl_j, d, alpha, beta, near="i", flip_vector=False, key_order="lt", move=True):
    """Two residues, `i` listed first in the file.  In the construction frame n_i = +z,
    n_j = Rx(alpha) z = (0, -sin a, cos a)  [angle(n_i, n_j) = alpha, use alpha > 90 for opposing normals],
    v = c_i - c_j of length d at angle beta from n_i (near="i"; then angle(v, n_j) = alpha + beta)
    or at angle beta from n_j (near="j"; then angle(v, n_i) = alpha + beta).
    flip_vector replaces v by -v.  key_order: "lt" gives residue i the lower (chain, number), "gt" the higher.
    Finally everything is moved by a random rigid motion."""
    spin_i, spin_j = rot_z(rng.uniform(0, 360)), rot_z(rng.uniform(0, 360))
    Rj = rot_x(alpha) @ spin_j
    ang = beta if near == "i" else alpha + beta
    v = d * np.array([0.0, math.sin(math.radians(ang)), math.cos(math.radians(ang))])
    if near == "j":
        v = d * np.array([0.0, -math.sin(math.radians(ang)), math.cos(math.radians(ang))])
    if flip_vector:
        v = -v
    ri = rigid(mk_structure([tmpl_i]), spin_i).residues[0]
    rj = rigid(mk_structure([tmpl_j]), Rj, -v).residues[0]
    chain = rng.choice(["A", "B", "AA", "x"])
    n1 = rng.randint(-5, 900)
    n2 = n1 + rng.randint(1, 40)
    if key_order == "lt":
        ri, rj = renumber(ri, chain, n1), renumber(rj, chain, n2)
    else:
        ri, rj = renumber(ri, chain, n2), renumber(rj, chain, n1)
    st = mk_structure([ri, rj])
    if move:
        st = random_rigid(st, rng, 200.0)
    return st


STATED_DISTANCE, STATED_ANGLE_NORMALS, STATED_ANGLE_VECTOR = 6.0, 35.0, 45.0


def stack_straddles(rng, eps_list=(1e-4, 1e-3, 1e-2, 0.1)):
    """placements straddling each of the three thresholds of find_stackings, in both sign cases.
    yields (tag, expected: bool, Structure3D)"""
    # the values the property statement pins (not the live module constants: an edited threshold must show)
    D, AN, AV = STATED_DISTANCE, STATED_ANGLE_NORMALS, STATED_ANGLE_VECTOR
    tm = base_templates()
    out = []

    def pick():
        return rng.choice(tm)[1]
    for eps in eps_list:
        for sgn in (-1, 1):
            for key_order in ("lt", "gt"):
                for opposed in (False, True):
                    a0 = rng.uniform(2, AN - 5)
                    alpha = 180 - a0 if opposed else a0
                    # --- distance threshold (angles comfortably inside)
                    b = rng.uniform(2, min(30, AV - 5))
                    out.append(("dist%+g" % (sgn * eps), sgn < 0,
                                stack_pair(rng, pick(), pick(), D + sgn * eps, alpha, b, "i", False, key_order)))
                    # --- normal-normal threshold
                    an = AN + sgn * eps
                    out.append(("normals%s%+g" % ("-opp" if opposed else "", sgn * eps), sgn < 0,
                                stack_pair(rng, pick(), pick(), rng.uniform(3.2, 5.5), 180 - an if opposed else an,
                                           rng.uniform(1, 8), "i", False, key_order)))
                    # --- vector-normal threshold through n_i and through n_j
                    for near in ("i", "j"):
                        bv = AV + sgn * eps
                        if opposed and near == "j":
                            # opposing normals: v near -n_j is not near n_j; build v near n_j instead
                            # n_j = Rx(alpha) z; v at angle bv from n_j on the far side from n_i
                            st = stack_pair(rng, pick(), pick(), rng.uniform(3.2, 5.5), alpha, bv, "j", False, key_order)
                        else:
                            st = stack_pair(rng, pick(), pick(), rng.uniform(3.2, 5.5), alpha, bv, near, False, key_order)
                        out.append(("vector-%s%s%+g" % (near, "-opp" if opposed else "", sgn * eps), sgn < 0, st))
                    # --- the reversed vector never qualifies through the same normal (signed reading)
                    out.append(("vector-reversed", None,
                                stack_pair(rng, pick(), pick(), rng.uniform(3.2, 5.5), alpha, rng.uniform(2, 30), "i", True, key_order)))
    return out


def stack_random(rng):
    """a random two-residue placement anywhere around the thresholds"""
    tm = base_templates()
    return stack_pair(rng, rng.choice(tm)[1], rng.choice(tm)[1], rng.uniform(2.5, 7.5), rng.uniform(0, 180),
                      rng.uniform(0, 180), rng.choice("ij"), rng.random() < 0.3, rng.choice(["lt", "gt"]))


# ----------------------------------------------------------------------------- synthetic close contacts
def clash_contact(rng, tmpl_a, tmpl_b, dist, names=None):
    """two residues; one typed atom of each placed exactly `dist` apart (other contacts fall as they may).
    returns (Structure3D, (name_a, name_b))"""
    typed = lambda r: [a for a in r.atoms if a.name[:1] in "CNOP"]  # noqa: E731
    ra = rigid(mk_structure([tmpl_a]), quat_rotation(rng)).residues[0]
    rb = rigid(mk_structure([tmpl_b]), quat_rotation(rng)).residues[0]
    if names is None:
        a, b = rng.choice(typed(ra)), rng.choice(typed(rb))
    else:
        a, b = ra.find_atom(names[0]), rb.find_atom(names[1])
    while True:
        u = np.array([rng.gauss(0, 1) for _ in range(3)])
        if np.linalg.norm(u) > 1e-6:
            break
    u = u / np.linalg.norm(u)
    shift = (a.coordinates + dist * u) - b.coordinates
    rb = rigid(mk_structure([rb]), np.eye(3), shift).residues[0]
    ch = rng.choice(["A", "B"])
    ch2 = ch if rng.random() < 0.6 else ("B" if ch == "A" else "A")
    n = rng.randint(1, 500)
    st = mk_structure([renumber(ra, ch, n), renumber(rb, ch2, n + 1)])
    return st, (a.name, b.name)


def with_alt_conformers(st, rng):
    """one residue carries both conformers of a few atoms: the same atom names twice, 0.3-0.8 A apart, occupancies 0.6 /
    0.4 (what a caller gets who builds residues from a file with alternate locations without choosing one)"""
    rs = list(st.residues)
    cand = [i for i, r in enumerate(rs) if len(r.atoms) >= 3]
    if not cand:
        return None
    i = rng.choice(cand)
    r = rs[i]
    picked = set(rng.sample(range(len(r.atoms)), min(3, len(r.atoms))))
    atoms = []
    for k, a in enumerate(r.atoms):
        if k in picked:
            d = [rng.uniform(-1, 1) for _ in range(3)]
            n = math.sqrt(sum(x * x for x in d)) or 1.0
            h = rng.uniform(0.3, 0.8)
            atoms.append(dataclasses.replace(a, occupancy=0.6))
            atoms.append(dataclasses.replace(a, x=a.x + h * d[0] / n, y=a.y + h * d[1] / n, z=a.z + h * d[2] / n, occupancy=0.4))
        else:
            atoms.append(a)
    rs[i] = mk_residue(r, atoms)
    return mk_structure(rs)


def clash_coincident(rng):
    """two residues with one typed atom of each on bit-identical coordinates (distance exactly 0: superposed copies,
    a ligand modelled onto an atom) - the strongest clash there is"""
    tm = base_templates()
    A, B = rng.choice(tm)[1], rng.choice(tm)[1]
    st, (na, nb) = clash_contact(rng, A, B, 0.0)
    ra, rb = st.residues
    a = ra.find_atom(na)
    atoms = [dataclasses.replace(x, x=a.x, y=a.y, z=a.z) if x.name == nb else x for x in rb.atoms]
    return mk_structure([ra, mk_residue(rb, atoms)])


def clash_straddles(rng, eps_list=(1e-3, 1e-2, 0.1)):
    """atom pairs at (r_a + r_b [+ 0.5]) +- eps for every pair of atom types; yields (tag, Structure3D)"""
    import rnapolis.clashfinder as CF
    tm = base_templates()
    out = []
    types = list(CF.AtomType)
    for ta in types:
        for tb in types:
            for mp in (0.0, 0.5):
                for eps in eps_list:
                    for sgn in (-1, 1):
                        for _ in range(20):
                            A, B = rng.choice(tm)[1], rng.choice(tm)[1]
                            na = [a.name for a in A.atoms if a.name.startswith(ta.value)]
                            nb = [a.name for a in B.atoms if a.name.startswith(tb.value)]
                            if na and nb:
                                break
                        else:
                            continue
                        R = ta.radius + tb.radius + mp
                        st, _ = clash_contact(rng, A, B, R + sgn * eps, (rng.choice(na), rng.choice(nb)))
                        out.append(("%s%s-mp%g%+g" % (ta.value, tb.value, mp, sgn * eps), st))
    return out


def clash_partial(rng, k=3):
    """k overlapping copies of one residue (alternate conformations as separate residues) with
    occupancy pairs from OCC_PAIRS: many same-name contacts with sums on and off 1"""
    tm = base_templates()
    base = rng.choice(tm)[1]
    rs = []
    occs = rng.choice(OCC_PAIRS)
    for c in range(k):
        sh = np.array([rng.gauss(0, 0.25) for _ in range(3)])
        r = rigid(mk_structure([base]), np.eye(3), sh).residues[0]
        r = renumber(r, rng.choice(["A", "A", "B"]), 10 + c)
        o = occs[c % 2]
        r = mk_residue(r, [dataclasses.replace(a, occupancy=o) for a in r.atoms])
        rs.append(r)
    return mk_structure(rs)


# ----------------------------------------------------------------------------- files for the command-line tool
def write_cif(st, path, metadata=True, short_occupancy=False):
    """minimal mmCIF the v1 reader understands (coordinates with 3 decimals, occupancy with 2)"""
    lines = ["data_synthetic", "#"]
    if metadata:
        lines += ["_exptl.entry_id synthetic", "_exptl.method 'X-RAY DIFFRACTION'", "#",
                  "_refine.entry_id synthetic", "_refine.ls_d_res_high 2.00", "#"]
    cols = ["group_PDB", "id", "type_symbol", "label_atom_id", "label_alt_id", "label_comp_id", "label_asym_id",
            "label_entity_id", "label_seq_id", "pdbx_PDB_ins_code", "Cartn_x", "Cartn_y", "Cartn_z", "occupancy",
            "B_iso_or_equiv", "auth_seq_id", "auth_comp_id", "auth_asym_id", "auth_atom_id", "pdbx_PDB_model_num"]
    lines.append("loop_")
    lines += ["_atom_site." + c for c in cols]
    k = 0
    for ri, r in enumerate(st.residues):
        for a in r.atoms:
            k += 1
            nm = '"%s"' % a.name if "'" in a.name else a.name
            comp = (r.name or "N").strip() or "N"
            chain = r.chain if (r.chain and r.chain.strip() and " " not in r.chain) else "A"
            lines.append(" ".join([
                "ATOM", str(k), a.name[:1], nm, ".", comp, chain, "1", str(ri + 1), r.icode or "?",
                "%.3f" % a.x, "%.3f" % a.y, "%.3f" % a.z,
                "." if a.occupancy is None else (("%.2f" % a.occupancy)[1:] if short_occupancy and 0 < a.occupancy < 1 else "%.2f" % a.occupancy),
                "10.00", str(r.number), comp, chain, nm, str(r.model)]))
    lines.append("#")
    with open(path, "w") as f:
        f.write("\n".join(lines) + "\n")


def write_pdb(st, path):
    lines = []
    k = 0
    for r in st.residues:
        for a in r.atoms:
            k += 1
            name = a.name if len(a.name) == 4 else " " + a.name
            lines.append("ATOM  %5d %-4s %3s %1s%4d%1s   %8.3f%8.3f%8.3f%6.2f%6.2f          %2s" % (
                k % 100000, name, (r.name or "N")[:3], (r.chain or "A")[:1], r.number, r.icode or " ",
                a.x, a.y, a.z, 1.0 if a.occupancy is None else a.occupancy, 10.0, a.name[:1]))
    lines.append("END")
    with open(path, "w") as f:
        f.write("\n".join(lines) + "\n")


# ----------------------------------------------------------------------------- JSON (replay files)
def to_json(st):
    """JSON-serialisable copy of a structure (floats survive json round trips exactly)"""
    out = []
    for r in st.residues:
        out.append({
            "label": None if r.label is None else [r.label.chain, r.label.number, r.label.name],
            "auth": None if r.auth is None else [r.auth.chain, r.auth.number, r.auth.icode, r.auth.name],
            "model": r.model, "letter": r.one_letter_name,
            "atoms": [[a.entity_id, a.name, a.x, a.y, a.z, a.occupancy] for a in r.atoms]})
    return out


def from_json(obj):
    from rnapolis.common import ResidueAuth, ResidueLabel
    from rnapolis.tertiary import Atom, Residue3D
    rs = []
    for d in obj:
        label = None if d["label"] is None else ResidueLabel(*d["label"])
        auth = None if d["auth"] is None else ResidueAuth(*d["auth"])
        atoms = tuple(Atom(e, label, auth, d["model"], n, x, y, z, o) for e, n, x, y, z, o in d["atoms"])
        rs.append(Residue3D(label, auth, d["model"], d["letter"], atoms))
    return mk_structure(rs)

"""G3 (subset used by C03 / C11): 3D structures for the exact pair model.

* corpus files from /repo/tests, every model;
* rigid motions (random SO(3) from quaternions, axis permutations, translations), jitter, residue / atom
  thinning, overlapping copies (competition for an edge with tied hydrogen-bond counts);
* synthetic two-residue placements: template pairs cut from corpus residues, the second residue moved so
  that a chosen donor-acceptor distance, a normal angle, or the glycosidic torsion straddles its threshold;
* exact-rational wire encoding for the Lean driver (`float.as_integer_ratio`).

All randomness comes from the `rng` handed in (ctx.rng).
"""
import math
import os
from concurrent.futures import ThreadPoolExecutor

import numpy

TESTS = os.environ.get("RNAPOLIS_TESTS", "/repo/tests")

QUICK_FILES = ["1A1T_1_B.cif", "184D.cif", "1HMH_1_E.cif", "6INQ.cif", "1DFU_1_M-N.cif", "4WTI_1_T-P.cif",
               "1E7K_1_C.cif", "488d.pdb", "8btk_B7.cif", "1ehz-assembly-1.cif"]
THOROUGH_FILES = QUICK_FILES + ["1E7K_1_C_modified.cif", "1ATO.pdb", "1JJP.cif", "6FC9.cif", "4gqj-assembly1.cif",
                                "q-ugg-5k-salt_400-500ns_frame1065.pdb"]
# big files: thorough only, few variants
BIG_FILES = ["2HY9.cif", "6RS3.cif", "1a9n.cif", "4qln.cif", "6g90_1.cif"]
# small files whose whole structure is cheap in the exact model
SMALL_FILES = ["1A1T_1_B.cif", "184D.cif", "1HMH_1_E.cif", "6INQ.cif", "1DFU_1_M-N.cif", "4WTI_1_T-P.cif", "1E7K_1_C.cif"]


def path_of(name):
    return os.path.join(TESTS, name)


def load(name, model=None):
    from rnapolis.parser import read_3d_structure
    with open(path_of(name)) as f:
        return read_3d_structure(f, model)


def models_of(name):
    """model numbers present in a file (cheap scan through the parser's atom list)"""
    from rnapolis import parser
    with open(path_of(name)) as f:
        atoms = (parser.parse_cif(f) if parser.is_cif(f) else parser.parse_pdb(f))[0]
    return list(dict.fromkeys(a.model for a in atoms))


# ----------------------------------------------------------------------------------------------
# rebuilding residues

def rebuild(res, xyz=None, keep=None, relabel=None, model=None):
    """copy of a Residue3D with coordinates mapped by xyz(numpy 3-vector) -> 3-vector, atoms filtered by
    keep(atom) and identity changed by relabel = (chain, number) (label and auth alike)"""
    from rnapolis.common import ResidueAuth, ResidueLabel
    from rnapolis.tertiary import Atom, Residue3D
    label, auth = res.label, res.auth
    if relabel is not None:
        ch, num = relabel
        if label is not None:
            label = ResidueLabel(ch, num, label.name)
        if auth is not None:
            auth = ResidueAuth(ch, num, auth.icode, auth.name)
    m = res.model if model is None else model
    atoms = []
    for a in res.atoms:
        if keep is not None and not keep(a):
            continue
        p = (a.x, a.y, a.z)
        if xyz is not None:
            q = xyz(numpy.array(p, dtype=float))
            p = (float(q[0]), float(q[1]), float(q[2]))
        atoms.append(Atom(a.entity_id, label, auth, m, a.name, p[0], p[1], p[2], a.occupancy))
    return Residue3D(label, auth, m, res.one_letter_name, tuple(atoms))


def structure(residues):
    from rnapolis.tertiary import Structure3D
    return Structure3D(list(residues))


def random_rotation(rng):
    q = numpy.array([rng.gauss(0, 1) for _ in range(4)])
    q /= numpy.linalg.norm(q)
    w, x, y, z = q
    return numpy.array([[1 - 2 * (y * y + z * z), 2 * (x * y - z * w), 2 * (x * z + y * w)],
                        [2 * (x * y + z * w), 1 - 2 * (x * x + z * z), 2 * (y * z - x * w)],
                        [2 * (x * z - y * w), 2 * (y * z + x * w), 1 - 2 * (x * x + y * y)]])


def axis_rotation(axis, angle):
    axis = numpy.asarray(axis, dtype=float)
    axis = axis / numpy.linalg.norm(axis)
    K = numpy.array([[0, -axis[2], axis[1]], [axis[2], 0, -axis[0]], [-axis[1], axis[0], 0]])
    return numpy.eye(3) + math.sin(angle) * K + (1 - math.cos(angle)) * (K @ K)


AXIS_PERMS = []
for perm in ((0, 1, 2), (1, 2, 0), (2, 0, 1), (0, 2, 1), (2, 1, 0), (1, 0, 2)):
    for signs in ((1, 1, 1), (1, -1, -1), (-1, 1, -1), (-1, -1, 1), (-1, -1, -1), (-1, 1, 1), (1, -1, 1), (1, 1, -1)):
        M = numpy.zeros((3, 3))
        for r, c in enumerate(perm):
            M[r, c] = signs[r]
        if abs(numpy.linalg.det(M) - 1) < 1e-9:
            AXIS_PERMS.append(M)
assert len(AXIS_PERMS) == 24


def moved(residues, R, t):
    R = numpy.asarray(R)
    t = numpy.asarray(t, dtype=float)
    return [rebuild(r, xyz=lambda p: R @ p + t) for r in residues]


def jittered(rng, residues, sigma):
    return [rebuild(r, xyz=lambda p: p + numpy.array([rng.gauss(0, sigma) for _ in range(3)])) for r in residues]


def thinned(rng, residues, p_res=0.15, p_atom=0.03):
    out = []
    for r in residues:
        if rng.random() < p_res:
            continue
        out.append(rebuild(r, keep=lambda a: rng.random() >= p_atom))
    return out


def nucleotides(residues):
    from rnapolis.tertiary import BASE_DONORS
    return [r for r in residues if r.one_letter_name in BASE_DONORS]


def neighbourhood(residues, centre, radius=14.0, cap=12):
    """residues with any atom within `radius` of the first atom of `centre` (small sub-structures of big files)"""
    if not centre.atoms:
        return [centre]
    c = centre.atoms[0].coordinates
    out = []
    for r in residues:
        if any(numpy.linalg.norm(a.coordinates - c) <= radius for a in r.atoms[:3]):
            out.append(r)
    return out[:cap] if centre in out[:cap] else [centre] + out[:cap - 1]


# ----------------------------------------------------------------------------------------------
# synthetic placements

def _normal(res):
    n = res.base_normal_vector
    return None if n is None or numpy.isnan(n).any() else n


def template_pairs(struct, pairs):
    """(ri, rj) Residue3D for reported pairs"""
    out = []
    for p in pairs:
        a = struct.find_residue(p.nt1.label, p.nt1.auth)
        b = struct.find_residue(p.nt2.label, p.nt2.auth)
        if a is not None and b is not None:
            out.append((a, b))
    return out


def donor_acceptor_atoms(ri, rj):
    """candidate (atom of ri, atom of rj) with one base donor and one base acceptor, both with an edge"""
    from rnapolis.tertiary import BASE_ACCEPTORS, BASE_DONORS, BASE_EDGES
    out = []
    for a in ri.atoms:
        for b in rj.atoms:
            ea = BASE_EDGES.get(ri.one_letter_name, {}).get(a.name)
            eb = BASE_EDGES.get(rj.one_letter_name, {}).get(b.name)
            if not ea or not eb:
                continue
            da = a.name in BASE_DONORS.get(ri.one_letter_name, []) and a.name != "O2'"
            db = b.name in BASE_DONORS.get(rj.one_letter_name, []) and b.name != "O2'"
            aa = a.name in BASE_ACCEPTORS.get(ri.one_letter_name, []) or a.name == "O2'"
            ab = b.name in BASE_ACCEPTORS.get(rj.one_letter_name, []) or b.name == "O2'"
            if (da and ab) or (aa and db):
                out.append((a, b))
    return out


def place_distance(ri, rj, a, b, target):
    """translate rj along the a->b line so that |a - b| = target"""
    v = b.coordinates - a.coordinates
    d = numpy.linalg.norm(v)
    if d < 1e-6:
        return None
    shift = v / d * (target - d)
    return rebuild(rj, xyz=lambda p: p + shift)


def place_normal_angle(ri, rj, a, b, which, target_deg):
    """translate rj so that the angle between the normal of `which` (0 = ri, 1 = rj) and the vector a - b is
    target_deg, keeping |a - b|"""
    n = _normal(ri if which == 0 else rj)
    if n is None:
        return None
    v = a.coordinates - b.coordinates
    d = numpy.linalg.norm(v)
    if d < 1e-6:
        return None
    w = v - numpy.dot(v, n) * n
    if numpy.linalg.norm(w) < 1e-6:
        w = numpy.cross(n, [1.0, 0.3, 0.2])
    w = w / numpy.linalg.norm(w)
    th = math.radians(target_deg)
    u = math.cos(th) * n + math.sin(th) * w
    newb = a.coordinates - d * u
    shift = newb - b.coordinates
    return rebuild(rj, xyz=lambda p: p + shift)


def glyco(res):
    c1 = res.find_atom("C1'")
    n = res.find_atom("N9" if res.one_letter_name in "AG" else "N1")
    return c1, n


def place_torsion(ri, rj, target_deg):
    """rotate rj about the N(i)->N(j) axis through N(j) so that the C1'-N...N-C1' torsion becomes target_deg"""
    from rnapolis.tertiary import torsion_angle
    c1i, ni = glyco(ri)
    c1j, nj = glyco(rj)
    if None in (c1i, ni, c1j, nj):
        return None
    cur = math.degrees(torsion_angle(c1i, ni, nj, c1j))
    axis = nj.coordinates - ni.coordinates
    if numpy.linalg.norm(axis) < 1e-6:
        return None
    R = axis_rotation(axis, math.radians(target_deg - cur))
    o = nj.coordinates
    out = rebuild(rj, xyz=lambda p: R @ (p - o) + o)
    c1j2, nj2 = glyco(out)
    got = math.degrees(torsion_angle(c1i, ni, nj2, c1j2))
    if abs(((got - target_deg + 180) % 360) - 180) > 1e-6:
        # sign convention mismatch: rotate the other way
        R = axis_rotation(axis, -math.radians(target_deg - cur))
        out = rebuild(rj, xyz=lambda p: R @ (p - o) + o)
    return out


DELTAS = [1e-3, 1e-2, 0.1]


def placements(rng, templates, n):
    """n two-residue structures straddling a threshold; returns list of (tag, [ri, rj'])"""
    out = []
    if not templates:
        return out
    kinds = ["dist", "angle0", "angle1", "torsion", "free", "copy"]
    guard = 0
    while len(out) < n and guard < 20 * n:
        guard += 1
        ri, rj = templates[rng.randrange(len(templates))]
        kind = kinds[len(out) % len(kinds)]
        # mostly the three nominal offsets; now and then right on the threshold (inside the undecided band)
        delta = rng.choice(DELTAS) * rng.choice([-1, 1]) if rng.random() < 0.85 else rng.choice([0.0, 1e-7, -1e-7])
        cands = donor_acceptor_atoms(ri, rj)
        if kind == "dist" and cands:
            a, b = rng.choice(cands)
            if rng.random() < 0.3:
                # very close to the cut-off, still 20-100 times the width of the undecided band (single precision
                # rounds coordinates of a few hundred Angstroms by more than that)
                delta = rng.choice([2e-5, 1e-4]) * rng.choice([-1, 1])
            r2 = place_distance(ri, rj, a, b, 4.0 + delta)
            tag = "dist%+g" % delta
        elif kind in ("angle0", "angle1") and cands:
            a, b = rng.choice(cands)
            base = rng.choice([50.0, 130.0])
            r2 = place_normal_angle(ri, rj, a, b, 0 if kind == "angle0" else 1, base + delta)
            tag = "%s:%g%+g" % (kind, base, delta)
        elif kind == "torsion":
            base = rng.choice([90.0, -90.0])
            r2 = place_torsion(ri, rj, base + delta)
            tag = "torsion:%g%+g" % (base, delta)
        elif kind == "free":
            # small random rigid perturbation of the partner about its own centre
            c = numpy.mean([a.coordinates for a in rj.atoms], axis=0)
            R = axis_rotation([rng.gauss(0, 1) for _ in range(3)], math.radians(rng.uniform(-25, 25)))
            t = numpy.array([rng.uniform(-1.2, 1.2) for _ in range(3)])
            r2 = rebuild(rj, xyz=lambda p: R @ (p - c) + c + t)
            tag = "free"
        elif kind == "copy":
            # an overlapping copy of the partner: two candidates compete for the same edge with tied counts
            t = numpy.array([rng.uniform(-0.4, 0.4) for _ in range(3)])
            num = (rj.number or 0) + 500
            r3 = rebuild(rj, xyz=lambda p: p + t, relabel=(rj.chain or "Z", num))
            out.append(("copy", [ri, rj, r3]))
            continue
        else:
            continue
        if r2 is None:
            continue
        out.append((tag, [ri, r2]))
    return out


# ----------------------------------------------------------------------------------------------
# wire encoding for the Lean driver

def hx(s):
    return s.encode("utf-8").hex()


def rat(x):
    n, d = float(x).as_integer_ratio()
    return "%d" % n if d == 1 else "%d/%d" % (n, d)


def ident(x):
    return "~" if x is None else hx(repr(x))


def encode_residue(r):
    atoms = ",".join("%s:%s:%s:%s" % (hx(a.name), rat(a.x), rat(a.y), rat(a.z)) for a in r.atoms)
    return "|".join([str(r.model), hx(r.chain or ""), str(r.number if r.number is not None else 0), hx(r.icode or " "),
                     ident(r.label), ident(r.auth), hx(r.one_letter_name), atoms])


def encode(residues):
    return ";".join(encode_residue(r) for r in residues) if residues else "-"


def finite(residues):
    return all(math.isfinite(a.x) and math.isfinite(a.y) and math.isfinite(a.z) for r in residues for a in r.atoms)


def ask_parallel(driver, reqs, nproc=12):
    """split a batch over several driver processes (the exact model is single-threaded)"""
    if len(reqs) < 2 * nproc:
        return driver.ask(reqs)
    # interleave so that expensive neighbours spread out
    chunks = [reqs[k::nproc] for k in range(nproc)]
    with ThreadPoolExecutor(nproc) as ex:
        outs = list(ex.map(driver.ask, chunks))
    res = [None] * len(reqs)
    for k, o in enumerate(outs):
        res[k::nproc] = o
    return res

"""G4 — atom tables.

An abstract *row* is a dict with the 16 PDB fields
    record serial name altLoc resName chain resSeq iCode x y z occ b element charge model
text fields are str ("" = absent), serial/resSeq/model are int, x y z are int in 1/1000 A, occ and b int in 1/100,
charge is the PDB text ("", "1+", "2-") for PDB-shaped tables.

Tables are turned into the pandas DataFrames the real readers produce by *emitting text with the small independent
emitters below and calling the real reader* (`pdb_frame`, `cif_frame`) — so dtypes are exactly the reader's — or, for
the huge overflow cases of C10, by `cif_frame_direct`, which builds the same dtypes without the mmCIF tokenizer
(checked against the reader on small tables by `frames_agree`).

All randomness comes from the `rng` passed in (ctx.rng).
"""
import glob
import io
import os
import string
import warnings
from fractions import Fraction

FIELDS = ["record", "serial", "name", "altLoc", "resName", "chain", "resSeq", "iCode", "x", "y", "z", "occ", "b",
          "element", "charge", "model"]
TEXT = ["record", "name", "altLoc", "resName", "chain", "iCode", "element", "charge"]
PDB_COLS = {"record": "record_type", "serial": "serial", "name": "name", "altLoc": "altLoc", "resName": "resName",
            "chain": "chainID", "resSeq": "resSeq", "iCode": "iCode", "x": "x", "y": "y", "z": "z", "occ": "occupancy",
            "b": "tempFactor", "element": "element", "charge": "charge", "model": "model"}
# same preference order as write_pdb's mmCIF branch
CIF_COLS = {"record": ["group_PDB"], "serial": ["id"], "name": ["auth_atom_id", "label_atom_id"], "altLoc": ["label_alt_id"],
            "resName": ["auth_comp_id", "label_comp_id"], "chain": ["auth_asym_id", "label_asym_id"],
            "resSeq": ["auth_seq_id", "label_seq_id"], "iCode": ["pdbx_PDB_ins_code"], "x": ["Cartn_x"], "y": ["Cartn_y"],
            "z": ["Cartn_z"], "occ": ["occupancy"], "b": ["B_iso_or_equiv"], "element": ["type_symbol"],
            "charge": ["pdbx_formal_charge"], "model": ["pdbx_PDB_model_num"]}
CIF_ATTRS = ["group_PDB", "id", "type_symbol", "label_atom_id", "label_alt_id", "label_comp_id", "label_asym_id",
             "label_entity_id", "label_seq_id", "pdbx_PDB_ins_code", "Cartn_x", "Cartn_y", "Cartn_z", "occupancy",
             "B_iso_or_equiv", "pdbx_formal_charge", "auth_seq_id", "auth_comp_id", "auth_asym_id", "auth_atom_id",
             "pdbx_PDB_model_num"]
CHAIN_ALPHABET = string.ascii_uppercase + string.ascii_lowercase + string.digits

NAMES_BACKBONE = ["P", "OP1", "OP2", "O5'", "C5'", "C4'", "O4'", "C3'", "O3'", "C2'", "O2'", "C1'"]
NAMES_BASE = ["N1", "C2", "N3", "C4", "C5", "C6", "N6", "N7", "C8", "N9", "O6", "N2", "O2", "O4", "N4"]
NAMES_H4 = ["H5''", "HO5'", "HO2'", "HO3'", "H5'1", "H5'2", "1H5'", "2H5'", "2HO'", "H2''", "HN61", "1H2*"]
NAMES_ODD = ["H1'", "H8", "K", "MG", "ZN", "CA", "O1P", "C1*", "1HB", "3H", 'H5"', "O", "N", "FE", "C5M", "O5*", "H2'1"]
ELEMENTS = ["H", "C", "N", "O", "P", "S", "MG", "ZN", "CA", "FE", "NA", "K", "SE", "BR", "CL", "D"]
RESNAMES = ["A", "C", "G", "U", "DA", "DC", "DG", "DT", "PSU", "5MC", "H2U", "1MA", "M2G", "7MG", "OMC", "HOH", "MG", "N", "GTP", "SO4"]
CHARGES = ["1+", "2+", "1-", "2-", "3+", "9-"]


def element_of(name, rng):
    if name in ("MG", "ZN", "CA", "FE", "K"):
        return name
    for ch in name:
        if ch.isalpha():
            return ch
    return "C"


# ------------------------------------------------------------------------------------------------- random tables
def coord(rng):
    r = rng.random()
    if r < 0.80:
        return rng.randint(-99999, 199999)
    if r < 0.88:
        return rng.choice([0, 1, -1, 5, -5, 1000, -1000, 999, -999, 500, -500, 12345, -12345])
    if r < 0.94:
        return rng.choice([-999999, 9999999, -999998, 9999998, -100000, 1000000, 999999, -99999])
    return rng.randint(-999999, 9999999)


def residue_atoms(rng):
    """names of the atoms of one residue"""
    r = rng.random()
    if r < 0.15:
        return [rng.choice(NAMES_ODD)]
    n = rng.randint(1, 8)
    pool = NAMES_BACKBONE + NAMES_BASE + (NAMES_H4 if rng.random() < 0.5 else []) + (NAMES_ODD if rng.random() < 0.2 else [])
    names = []
    for _ in range(n):
        x = rng.choice(pool)
        if x not in names:
            names.append(x)
    return names


def random_table(rng, nchains=None, nmodels=None, max_res=6, serial0=None, multichar_chains=False, big_numbers=False):
    """rows of a structure: `nmodels` models that share residue identities, `nchains` chains.

    Within PDB limits unless `multichar_chains` / `big_numbers` (C10 inputs)."""
    if nchains is None:
        nchains = rng.choice([1, 1, 2, 2, 3, 4, 6])
    if nmodels is None:
        nmodels = rng.choice([1, 1, 1, 2, 3, 4])
    if multichar_chains:
        ids = set()
        while len(ids) < nchains:
            k = rng.choice([1, 2, 2, 3, 4])
            ids.add("".join(rng.choice(CHAIN_ALPHABET) for _ in range(k)))
        chains = sorted(ids)
        rng.shuffle(chains)
    else:
        chains = rng.sample(CHAIN_ALPHABET, min(nchains, 62))
    skeleton = []  # (chain, resSeq, iCode, resName, record, [(name, altLoc, element, charge, occ)])
    for ch in chains:
        nres = rng.randint(1, max_res)
        start = rng.choice([1, 1, 1, 0, -3, -999, 17, 250, 9990, 9999 - nres])
        if big_numbers and rng.random() < 0.6:
            start = rng.choice([9998, 10000, 12345, 99999, 100000])
        num = start
        for _ in range(nres):
            icode = ""
            r = rng.random()
            if r < 0.15:
                icode = rng.choice("ABCXYZ" + "ABCXYZ" + "1270")   # same number, new insertion code (letters, now and then a digit)
            elif r < 0.9:
                num += rng.choice([1, 1, 1, 1, 2, 5])
            else:
                num -= rng.choice([1, 2])              # numbering that steps back
            limit = 9999 if not big_numbers else 10 ** 6
            num = max(-999, min(limit, num))
            rn = rng.choice(RESNAMES)
            het = rn in ("HOH", "MG", "SO4", "GTP") or rng.random() < 0.05
            atoms = []
            for nm in residue_atoms(rng):
                el = element_of(nm, rng) if rng.random() < 0.93 else rng.choice(ELEMENTS + [""])
                cg = rng.choice(CHARGES) if rng.random() < 0.12 else ""
                if rng.random() < 0.08:
                    a1, a2 = rng.choice([("A", "B"), ("1", "2"), ("A", "C")])
                    o = rng.choice([50, 30, 67, 0, 100])
                    atoms.append((nm, a1, el, cg, o))
                    atoms.append((nm, a2, el, cg, 100 - o))
                else:
                    atoms.append((nm, "", el, cg, rng.choice([100, 100, 100, 50, 0, 75, 1, 99])))
            skeleton.append((ch, num, icode, rn, "HETATM" if het else "ATOM", atoms))
    if rng.random() < 0.1 and len(chains) > 1:
        rng.shuffle(skeleton)                          # chains interleaved residue by residue
    models = list(range(1, nmodels + 1))
    if rng.random() < 0.12:
        models = list(range(0, nmodels))          # numbered from 0 (trajectory frames): 0 is a model number like any other
    if rng.random() < 0.2:
        models = sorted(rng.sample(range(1, 60), nmodels)) if rng.random() < 0.8 else sorted(rng.sample(range(1, 9999), nmodels))
    natoms = sum(len(s[5]) for s in skeleton) * nmodels
    if serial0 is None:
        serial0 = rng.choice([1, 1, 1, 1, 7, 1000, max(1, 99998 - natoms - 70 * nmodels)])
    rows = []
    serial = serial0
    restart = rng.random() < 0.5                       # serials restart in every model (NMR style) or run on
    for m in models:
        if restart:
            serial = serial0
        last_chain = None
        for (ch, num, icode, rn, rec, atoms) in skeleton:
            if last_chain is not None and ch != last_chain and rng.random() < 0.7:
                serial += 1                            # room for the TER
            last_chain = ch
            for (nm, alt, el, cg, occ) in atoms:
                rows.append({"record": rec, "serial": serial, "name": nm, "altLoc": alt, "resName": rn, "chain": ch,
                             "resSeq": num, "iCode": icode, "x": coord(rng), "y": coord(rng), "z": coord(rng),
                             "occ": occ if rng.random() < 0.97 else rng.choice([-9999, 99999, 12345, -1]),
                             "b": rng.randint(0, 15000) if rng.random() < 0.95 else rng.choice([-9999, 99999, 0, -1, 99998]),
                             "element": el, "charge": cg, "model": m})
                serial += 1
        serial += 1
    return rows


def charge_ok(c, cif=False):
    if c == "":
        return True
    if cif:  # str() of the Int64 of a mmCIF-derived table
        return c.lstrip("-").isdigit() and len(c.lstrip("-")) == 1 and not c.startswith("--")
    return len(c) == 2 and c[0] in "123456789" and c[1] in "+-"


def within_limits(row, cif=False):
    """the value shapes PDB columns can hold (mirrors Lean `withinPdbLimits`, with serial+1 kept free for a TER,
    and no field equal to a mmCIF null marker); `cif`: the charge is the integer text of a mmCIF-derived table"""
    g = lambda s: all(33 <= ord(c) <= 126 for c in s) and s not in ("?", ".")
    return (row["record"] in ("ATOM", "HETATM") and 0 <= row["serial"] <= 99998 and 1 <= len(row["name"]) <= 4 and g(row["name"])
            and len(row["altLoc"]) <= 1 and g(row["altLoc"]) and 1 <= len(row["resName"]) <= 3 and g(row["resName"])
            and len(row["chain"]) == 1 and g(row["chain"]) and -999 <= row["resSeq"] <= 9999 and len(row["iCode"]) <= 1
            and g(row["iCode"]) and all(-999999 <= row[k] <= 9999999 for k in "xyz") and -9999 <= row["occ"] <= 99999
            and -9999 <= row["b"] <= 99999 and len(row["element"]) <= 2 and g(row["element"])
            and charge_ok(row["charge"], cif)
            and -999 <= row["model"] <= 9999)


# ------------------------------------------------------------------------------------------------- independent emitters
def fixed(k, p):
    """exact decimal text of k / 10^p"""
    s = "-" if k < 0 else ""
    k = abs(k)
    return "%s%d.%0*d" % (s, k // 10 ** p, p, k % 10 ** p)


def pdb_atom_line(r):
    nm = r["name"]
    nm4 = (" " + nm).ljust(4) if len(nm) < 4 and nm[:1].isalpha() else nm.ljust(4)
    return "%-6s%5d %s%1s%3s %1s%4d%1s   %8s%8s%8s%6s%6s          %2s%2s" % (
        r["record"], r["serial"], nm4, r["altLoc"], r["resName"], r["chain"], r["resSeq"], r["iCode"],
        fixed(r["x"], 3), fixed(r["y"], 3), fixed(r["z"], 3), fixed(r["occ"], 2), fixed(r["b"], 2), r["element"], r["charge"])


def emit_pdb(rows, model_records=True, ter=True):
    """PDB text from rows (independent of the code under test)"""
    out = []
    last = None
    for r in rows:
        if last is None or r["model"] != last["model"]:
            if last is not None:
                if ter:
                    out.append("TER")
                if model_records:
                    out.append("ENDMDL")
            if model_records:
                out.append("MODEL     %4d" % r["model"])
        elif ter and r["chain"] != last["chain"]:
            out.append("TER")
        out.append(pdb_atom_line(r))
        last = r
    if last is not None:
        if ter:
            out.append("TER")
        if model_records:
            out.append("ENDMDL")
    out.append("END")
    return "\n".join(out) + "\n"


def cif_quote(v):
    """quoting of one value; the bare tokens ? and . are the null markers (no generated field value equals them)"""
    if v == "" or v is None:
        raise ValueError("empty token")
    special = v[0] in "_#$'\"[];" or any(c in v for c in " \t'\"") or v.lower() in ("loop_", "stop_", "global_") \
        or v.lower().startswith("data_") or v.lower().startswith("save_")
    if not special:
        return v
    if "'" not in v:
        return "'" + v + "'"
    if '"' not in v:
        return '"' + v + '"'
    raise ValueError("cannot quote %r" % v)


def pdb_charge_to_int(c):
    """'2+' -> 2, '1-' -> -1, '' -> None"""
    if not c:
        return None
    return int(c[0]) * (1 if c[1] == "+" else -1)


def cif_tokens(r, label_chain=None, label_seq=None, nulls=("?", "."), charge_zero=False, jitter=None):
    """tokens of one atom_site row in CIF_ATTRS order; `nulls` = (marker for '?'-style, marker for '.'-style)"""
    q, d = nulls
    cg = pdb_charge_to_int(r["charge"])
    cgt = q if cg is None else str(cg)
    if cg is None and charge_zero:
        cgt = "0"
    return [r["record"], str(r["serial"]), r["element"] or q, r["name"], r["altLoc"] or d, r["resName"],
            label_chain or r["chain"], "1", str(label_seq if label_seq is not None else r["resSeq"]), r["iCode"] or q,
            fixed(r["x"], 3) if jitter is None else fixed(r["x"] * 100 + jitter[0], 5),
            fixed(r["y"], 3) if jitter is None else fixed(r["y"] * 100 + jitter[1], 5),
            fixed(r["z"], 3) if jitter is None else fixed(r["z"] * 100 + jitter[2], 5),
            fixed(r["occ"], 2), fixed(r["b"], 2), cgt,
            str(r["resSeq"]), r["resName"], r["chain"], r["name"], str(r["model"])]


def emit_cif(rows, rng=None, attrs=None, drop=()):
    """mmCIF text with one atom_site loop.  With `rng`: both null markers are used at random, label_asym_id /
    label_seq_id differ from the auth_ values, neutral charges are sometimes written as 0."""
    attrs = [a for a in (attrs or CIF_ATTRS) if a not in drop]
    idx = [CIF_ATTRS.index(a) for a in attrs]
    kw = (lambda w: w)
    if rng is not None and rng.random() < 0.1:
        kw = rng.choice([str.upper, str.capitalize])     # reserved words of CIF are case-insensitive
    out = [kw("data_") + "g4", "#", kw("loop_")] + ["_atom_site." + a for a in attrs]
    lab = {}
    seq = {}
    fine = rng is not None and rng.random() < 0.15     # coordinates with 5 decimals (never within 1e-5 of a rounding tie)
    for r in rows:
        jit = None
        if rng is None:
            nulls, lc, ls, cz = ("?", "."), None, None, False
        else:
            if fine:
                jit = (rng.randint(-49, 49), rng.randint(-49, 49), rng.randint(-49, 49))
            nulls = (rng.choice("?."), rng.choice("?."))
            lc = lab.setdefault(r["chain"], string.ascii_uppercase[len(lab) % 26] * (1 + len(lab) // 26))
            ls = seq.setdefault((r["chain"], r["resSeq"], r["iCode"]), len(seq) + 1)
            cz = rng.random() < 0.1
        toks = cif_tokens(r, lc, ls, nulls, cz, jit)
        out.append(" ".join(cif_quote(toks[i]) for i in idx))
    out.append("#")
    return "\n".join(out) + "\n"


# ------------------------------------------------------------------------------------------------- frames
def pdb_frame(rows, **kw):
    from rnapolis.parser_v2 import parse_pdb_atoms
    return parse_pdb_atoms(emit_pdb(rows, **kw))


def cif_frame(rows, rng=None, **kw):
    from rnapolis.parser_v2 import parse_cif_atoms
    with warnings.catch_warnings():
        warnings.simplefilter("ignore")
        return parse_cif_atoms(emit_cif(rows, rng, **kw))


def cif_frame_direct(cols):
    """DataFrame with the dtypes of `parse_cif_atoms` from a dict attribute -> list of tokens (None = missing).
    Used for the huge tables of C10 (no text, no tokenizer)."""
    import pandas as pd
    int_cols = {"label_seq_id", "pdbx_PDB_model_num", "pdbx_formal_charge"}
    float_cols = {"Cartn_x", "Cartn_y", "Cartn_z", "occupancy", "B_iso_or_equiv"}
    df = pd.DataFrame({a: pd.Series(v, dtype=object) for a, v in cols.items()})
    for a in df.columns:
        if a in float_cols:
            df[a] = pd.to_numeric(df[a], errors="coerce")
        elif a in int_cols:
            df[a] = pd.to_numeric(df[a], errors="coerce").astype("Int64")
        else:
            df[a] = df[a].astype("category")
    df.attrs["format"] = "mmCIF"
    return df


def cols_of_rows(rows):
    toks = [cif_tokens(r) for r in rows]
    return {a: [None if t[i] in ("?", ".") else t[i] for t in toks] for i, a in enumerate(CIF_ATTRS)}


def frames_agree(a, b):
    """same columns, dtypes and values (NaN == NaN)"""
    if list(a.columns) != list(b.columns) or a.attrs.get("format") != b.attrs.get("format"):
        return False
    if [str(t) for t in a.dtypes] != [str(t) for t in b.dtypes]:
        return False
    return fields16(a) == fields16(b) and a.astype(object).where(a.notna(), None).values.tolist() == \
        b.astype(object).where(b.notna(), None).values.tolist()


# ------------------------------------------------------------------------------------------------- reading tables back
def _isna(v):
    import pandas as pd
    try:
        return bool(pd.isna(v))
    except Exception:
        return False


def _txt(v):
    return "" if _isna(v) else str(v)


def _fx(v, p):
    """double -> fixed point, correctly rounded (ties to even) from the exact binary value, like Python's `%.pf`"""
    if _isna(v):
        return None
    return round(Fraction(float(v)) * 10 ** p)


def _int(v):
    if _isna(v):
        return None
    return int(v)


def charge_norm(v):
    """formal charge as a signed integer; absent and 0 are both neutral (None).  Text that is not a charge -> the text"""
    if _isna(v) or v == "":
        return None
    s = str(v).strip()
    try:
        n = int(float(s))
        return n or None
    except ValueError:
        pass
    if len(s) == 2 and s[0].isdigit() and s[1] in "+-":
        n = int(s[0]) * (1 if s[1] == "+" else -1)
        return n or None
    return s


def column_for(df, field):
    if df.attrs.get("format") == "mmCIF":
        for c in CIF_COLS[field]:
            if c in df.columns:
                return c
        return None
    c = PDB_COLS[field]
    return c if c in df.columns else None


def rows_of(df):
    """the 16 fields of every row of a frame produced by the real code (either format), as abstract rows;
    floats are converted exactly (see `_fx`); additionally '_raw' keeps the float values for numeric comparison"""
    cols = {f: column_for(df, f) for f in FIELDS}
    data = {f: (df[c].tolist() if c is not None else [None] * len(df)) for f, c in cols.items()}
    out = []
    for i in range(len(df)):
        r = {}
        for f in FIELDS:
            v = data[f][i]
            if f in TEXT:
                r[f] = _txt(v)
            elif f in ("serial", "resSeq", "model"):
                r[f] = _int(v)
            elif f in ("x", "y", "z"):
                r[f] = _fx(v, 3)
            else:
                r[f] = _fx(v, 2)
        r["_raw"] = tuple(None if _isna(data[f][i]) else float(data[f][i]) for f in ("x", "y", "z", "occ", "b"))
        out.append(r)
    return out


def fields16(df):
    """hashable canonical view used for equality of tables (charge normalised)"""
    return [tuple(charge_norm(r[f]) if f == "charge" else r[f] for f in FIELDS) for r in rows_of(df)]


def compare_rows(a, b, tol3=1e-3, tol2=1e-2):
    """first difference between two tables read back by `rows_of`, fields compared as the property demands:
    text and integers exactly, coordinates to 0.001, occupancy/B to 0.01, charge as a number.
    Returns None or (row index, field, value a, value b)."""
    if len(a) != len(b):
        return (-1, "rows", len(a), len(b))
    for i, (r, s) in enumerate(zip(a, b)):
        for f in FIELDS:
            if f in ("x", "y", "z", "occ", "b"):
                j = ("x", "y", "z", "occ", "b").index(f)
                u, v = r["_raw"][j], s["_raw"][j]
                tol = tol3 if j < 3 else tol2
                if (u is None) != (v is None) or (u is not None and abs(u - v) > tol + 1e-9):
                    return (i, f, u, v)
            elif f == "charge":
                if charge_norm(r[f]) != charge_norm(s[f]):
                    return (i, f, r[f], s[f])
            elif r[f] != s[f]:
                return (i, f, r[f], s[f])
    return None


# ------------------------------------------------------------------------------------------------- wire format
def hx(s):
    return s.encode("utf-8").hex() if s else "-"


def wire(r):
    """one row as a driver argument"""
    return ",".join(hx(r[f]) if f in TEXT else str(r[f]) for f in FIELDS)


def unwire(s):
    if s == "none":
        return None
    parts = s.split(",")
    r = {}
    for f, p in zip(FIELDS, parts):
        r[f] = (bytes.fromhex(p).decode("utf-8") if p != "-" else "") if f in TEXT else int(p)
    return r


def wire_ok(r):
    return all(r[f] is not None for f in FIELDS)


def plain(r):
    return {f: r[f] for f in FIELDS}


# ------------------------------------------------------------------------------------------------- corpus
def corpus_files(kind):
    base = os.environ.get("RNAPOLIS_TESTS", "/repo/tests")
    return sorted(glob.glob(os.path.join(base, "*." + kind)))


def corpus_frames(max_rows=None):
    """(name, frame) parsed by the real readers from the repository's test files"""
    from rnapolis.parser_v2 import parse_cif_atoms, parse_pdb_atoms
    out = []
    for p in corpus_files("pdb"):
        with open(p) as f:
            out.append((os.path.basename(p), parse_pdb_atoms(f.read())))
    for p in corpus_files("cif"):
        with warnings.catch_warnings():
            warnings.simplefilter("ignore")
            with open(p) as f:
                try:
                    df = parse_cif_atoms(f.read())
                except Exception:
                    continue
        if len(df):
            out.append((os.path.basename(p), df))
    if max_rows is not None:
        out = [(n, head(df, max_rows)) for n, df in out]
    return out


def head(df, n):
    if len(df) <= n:
        return df
    h = df.iloc[:n].copy()
    h.attrs.update(df.attrs)
    return h


# ------------------------------------------------------------------------------------------------- C10 overflow families
def overflow_cols(rng, kind, quick=False, side=None):
    """huge mmCIF-shaped tables built cheaply (column dict for `cif_frame_direct`) + a description.

    kinds: many_atoms (> 99999 rows), edge_atoms (rows + chains around 99999), many_chains (63..70 chains),
    edge_chains (61..63 multi-character chains), many_residues (> 9999 residues in a chain), edge_residues
    (exactly 9999 / 10000), big_serial (ids > 99999 on a small table), big_numbers (auth_seq_id > 9999),
    interleaved (rows + chains <= 99999 < rows + chain changes), spread_residues (each chain <= 9999 residues,
    > 9999 distinct residue keys over all chains).
    `side` 0 / 1 selects the fitting / the refusing side of a boundary for the edge_ kinds"""
    n_at, chains, res_per_chain = 30, ["A"], None
    serial0, num0 = 1, 1
    if kind == "many_atoms":
        n_at, chains = rng.choice([100000, 100001, 120000]), ["AA", "B"]
    elif kind == "edge_atoms":
        chains = ["AA", "B", "C"][: rng.randint(1, 3)]
        # rows + chains = 99999 still fits, 100000 does not (quick: only the refusing side — the real code needs
        # ~30 s to fit 10^5 rows)
        n_at = 99999 - len(chains) + (1 if quick else (rng.choice([-1, 0, 0, 1]) if side is None else side))
    elif kind == "many_chains":
        chains = ["c%d" % i for i in range(rng.randint(63, 70))]
        n_at = len(chains) * rng.randint(1, 3)
    elif kind == "edge_chains":
        chains = ["c%d" % i for i in range(rng.choice([61, 62]) if side is None else 62 + side)]
        n_at = len(chains) * rng.randint(1, 3)
    elif kind == "many_residues":
        chains, n_at, res_per_chain = ["AA", "B"][: rng.randint(1, 2)], rng.choice([10000, 10001, 10500]), "all"
    elif kind == "edge_residues":
        chains, n_at, res_per_chain = ["AA"], (rng.choice([9999, 10000]) if side is None else 9999 + side), "all"
    elif kind == "big_serial":
        chains, n_at, serial0 = ["A", "B"][: rng.randint(1, 2)], rng.randint(2, 60), rng.choice([99990, 100000, 250000])
    elif kind == "big_numbers":
        chains, n_at, num0 = ["A", "B"][: rng.randint(1, 2)], rng.randint(2, 60), rng.choice([9995, 10000, 50000])
    elif kind == "interleaved":
        chains, n_at = ["AA", "B"], rng.choice([50001, 50007, 60000])
    elif kind == "spread_residues":
        # every chain has <= 9999 residues (a fit exists) but the residue keys of all chains together are more
        # than 9999 distinct (number, icode) pairs: numbering that continues across chains
        chains = ["AA", "B", "CC"][: rng.randint(2, 3)]
        n_at, res_per_chain = rng.choice([10002, 12000, 15000]), "spread"
    else:
        raise ValueError(kind)
    per = max(1, n_at // len(chains))
    chain_col, num_col, ic_col = [], [], []
    if kind == "interleaved":
        for i in range(n_at):
            chain_col.append(chains[i % 2])
            num_col.append(1 + i // 2 % 50)
            ic_col.append(None)
    else:
        for ci, ch in enumerate(chains):
            k = per if ci < len(chains) - 1 else n_at - per * (len(chains) - 1)
            for j in range(k):
                chain_col.append(ch)
                if res_per_chain == "spread":
                    # one atom per residue, numbering continues from chain to chain
                    num_col.append(num0 + len(num_col))
                    ic_col.append(None)
                elif res_per_chain == "all" and ci == 0:
                    # every atom its own residue; insertion codes make some of them share a number
                    num_col.append(num0 + j // 2)
                    ic_col.append("A" if j % 2 else None)
                else:
                    num_col.append(num0 + j // (400 if n_at > 50000 else 3))
                    ic_col.append(None)
    n = len(chain_col)
    names = ["P", "O5'", "C1'"]
    cols = {
        "group_PDB": ["ATOM"] * n, "id": [str(serial0 + i) for i in range(n)], "type_symbol": [names[i % 3][0] for i in range(n)],
        "label_atom_id": [names[i % 3] for i in range(n)], "label_alt_id": [None] * n, "label_comp_id": ["G"] * n,
        "label_asym_id": chain_col, "label_entity_id": ["1"] * n, "label_seq_id": [str(1 + i // 3) for i in range(n)],
        "pdbx_PDB_ins_code": ic_col, "Cartn_x": ["%.3f" % (i % 1000 / 7.0) for i in range(n)],
        "Cartn_y": ["%.3f" % (-(i % 977) / 3.0) for i in range(n)], "Cartn_z": ["1.500"] * n, "occupancy": ["1.00"] * n,
        "B_iso_or_equiv": ["%.2f" % (i % 90) for i in range(n)], "pdbx_formal_charge": [None] * n,
        "auth_seq_id": [str(v) for v in num_col], "auth_comp_id": ["G"] * n, "auth_asym_id": chain_col,
        "auth_atom_id": [names[i % 3] for i in range(n)], "pdbx_PDB_model_num": ["1"] * n}
    return cols, {"kind": kind, "rows": n, "chains": len(chains)}

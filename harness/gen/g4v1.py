"""G4 (reader v1 part) — atom tables from a grammar of value shapes, with independent emitters.

A table is a list of records (dicts, all values as *written text* or ints):

  model:int  chain:str(1)  lchain:str  num:int  lnum:int|None  icode:str|None  resname:str(1-3)
  name:str(1-4)  alt:str|None  occ:str|None (decimal text)  x,y,z:str (decimal text)  het:bool
  entity:str

plus per-record choices of the mmCIF null marker ('?' or '.') for the three optional items
(`nm_icode`, `nm_alt`, `nm_occ`).  Shapes covered: 1-4 character atom names (primes, leading
digits, 4-character hydrogens), negative coordinates and residue numbers, insertion codes, alternate
locations with occupancies (interleaved or block-wise), repeated names without altloc, hetero groups
(no label_seq_id), 1-4 models sharing residue identities (NMR-like: same identities, coordinates
equal / slightly moved / far), several chains, near-coincident atoms around the clash distance with
margins +-{1e-3, 1e-2, 0.1} and exactly at the threshold.

Emitters (`to_pdb`, `to_cif`) are written here from the format descriptions, independent of
rnapolis' writers; `read_cif_tokens` reads a document back with the `mmcif` package (the tokeniser
rnapolis itself uses) so that the emitter can be validated against it.
"""
import os
from fractions import Fraction

NAMES_BACKBONE = ["P", "OP1", "OP2", "O5'", "C5'", "C4'", "O4'", "C3'", "O3'", "C2'", "O2'", "C1'"]
NAMES_BASE = ["N1", "C2", "N3", "C4", "C5", "C6", "N6", "N7", "C8", "N9", "O6", "N2", "O2", "O4", "N4", "C5M"]
NAMES_H = ["H5'", "H5''", "HO2'", "H1'", "H8", "H61", "H62", "1H5'", "2H5'", "HO5'", "H2''", "HO3'", "1H2", "2HO'"]
NAMES_HET = ["MG", "NA", "K", "O", "ZN", "CA", "O1", "C1", "N", "S"]
RES_STD = ["A", "C", "G", "U", "DA", "DC", "DG", "DT"]
RES_MOD = ["PSU", "5MC", "H2U", "1MA", "OMG", "M2G", "7MG"]
RES_HET = ["HOH", "MG", "NA", "K", "ZN", "SO4", "GTP"]
CHAINS = "ABCDEFGHIJKLMNOPQRSTUVWXYZabcdefghijklmnopqrstuvwxyz0123456789"


def dec3(v):
    """integer thousandths -> decimal text with three decimals"""
    s = "-" if v < 0 else ""
    v = abs(v)
    return "%s%d.%03d" % (s, v // 1000, v % 1000)


def dec2(v):
    s = "-" if v < 0 else ""
    v = abs(v)
    return "%s%d.%02d" % (s, v // 100, v % 100)


def frac(text):
    return Fraction(text)


class Builder:
    def __init__(self, rng, big=False):
        self.rng = rng
        self.used = set()
        self.span = rng.choice([6, 10, 20])
        self.origin = tuple(rng.choice([0, 0, -30000, 40000, -900000 + 200000, 9000000]) if big else rng.choice([0, -20000, 15000])
                            for _ in range(3))
        self.tags = set()

    def cell(self):
        """a fresh lattice cell (2 A spacing) with jitter <= 0.2 A: unrelated atoms are >= 1.6 A apart"""
        rng = self.rng
        for _ in range(1000):
            c = tuple(rng.randrange(-self.span, self.span + 1) for _ in range(3))
            if c not in self.used:
                self.used.add(c)
                return tuple(self.origin[k] + 2000 * c[k] + rng.randrange(-200, 201) for k in range(3))
        raise RuntimeError("lattice full")


def near_offset(rng):
    """offset vector (thousandths) whose length is the clash distance 0.5 A +- margin"""
    kind = rng.choice(["-1e-3", "+1e-3", "-1e-2", "+1e-2", "-0.1", "+0.1", "exact", "zero", "diag", "diag"])
    d = {"-1e-3": 499, "+1e-3": 501, "-1e-2": 490, "+1e-2": 510, "-0.1": 400, "+0.1": 600, "exact": 500, "zero": 0}.get(kind)
    if kind == "diag":
        # off-axis: a 3-4-5 direction scaled, or a random direction, rounded to the grid
        if rng.random() < 0.5:
            base = rng.choice([(300, 400, 0), (0, 300, 400), (400, 0, 300)])
            bump = rng.choice([-10, -1, 0, 1, 10, 100, -100])
            v = [base[0], base[1], base[2]]
            i = rng.choice([k for k in range(3) if v[k]])
            v[i] += bump
        else:
            import math
            t, p = rng.uniform(0, math.pi), rng.uniform(0, 2 * math.pi)
            r = rng.choice([499, 501, 490, 510, 400, 600, 500])
            v = [round(r * math.sin(t) * math.cos(p)), round(r * math.sin(t) * math.sin(p)), round(r * math.cos(t))]
        sgn = [rng.choice([-1, 1]) for _ in range(3)]
        return "diag", tuple(v[k] * sgn[k] for k in range(3))
    axis = rng.randrange(3)
    v = [0, 0, 0]
    v[axis] = d * rng.choice([-1, 1])
    return kind, tuple(v)


def occ_pair(rng):
    k = rng.choice(["hi-lo", "lo-hi", "tie", "tie1", "hi-zero", "zero-hi", "zero-zero"])
    if k == "hi-zero":
        return k, (rng.choice(["1.00", "0.60"]), "0.00")
    if k == "zero-hi":
        return k, ("0.00", rng.choice(["1.00", "0.45"]))
    if k == "zero-zero":
        return k, ("0.00", "0.00")
    if k == "hi-lo":
        return k, ("0.70", "0.30")
    if k == "lo-hi":
        return k, ("0.35", "0.65")
    if k == "tie":
        return k, ("0.50", "0.50")
    return k, ("1.00", "1.00")


def altloc_occs(rng, n):
    if n == 2:
        return rng.choice([("0.50", "0.50"), ("0.60", "0.40"), ("0.40", "0.60"), ("0.33", "0.67"), ("1.00", "1.00"),
                           ("0.00", "1.00"), ("0.5", "0.5"), ("0.700", "0.300")])
    return rng.choice([("0.34", "0.33", "0.33"), ("0.20", "0.50", "0.30"), ("0.30", "0.30", "0.40"), ("0.25", "0.50", "0.25")])


def table(rng, size="small", nmodels=None, family=None):
    """one random atom table; returns (records, meta)"""
    B = Builder(rng, big=rng.random() < 0.08)
    tags = B.tags
    if nmodels is None:
        nmodels = rng.choice([1, 1, 1, 2, 2, 3, 4])
    nchains = rng.choice([1, 1, 2, 3]) if size == "small" else rng.choice([1, 2, 4, 6])
    chains = rng.sample(CHAINS, nchains)
    # ---- model 1 layout: chains -> residues -> atoms
    layout = []  # list of residues: dict(chain, lchain, num, lnum, icode, resname, het, entity, atoms=[(name, [copies])])
    lchain_of = {}
    for ci, ch in enumerate(chains):
        lchain_of[ch] = CHAINS[ci] if rng.random() < 0.7 else CHAINS[(ci + 7) % 26] + CHAINS[ci % 26]
        nres = rng.randint(1, 3 if size == "small" else 8)
        num = rng.choice([1, 1, -3, -1, 0, 10, 98, 999, -12, 1000 if rng.random() < 0.3 else 5])
        lnum = 1
        prev_icode = None
        for _ in range(nres):
            het = rng.random() < 0.15
            icode = None
            r = rng.random()
            if r < 0.2 and not het:
                # insertion: same number as before with the next insertion code
                # upper case mostly; the format also allows lower-case letters and digits in this column
                icode = rng.choice(["A", "A", "A", "B", "a", "x", "1"]) if prev_icode is None else chr(ord(prev_icode) + 1)
                if not icode.isupper():
                    tags.add("icode-not-upper")
                if prev_icode is None and rng.random() < 0.5:
                    num += 1
                tags.add("icode")
            else:
                num += rng.choice([1, 1, 1, 2, 5]) if layout else 0
            prev_icode = icode
            if num < 0:
                tags.add("negnum")
            resname = rng.choice(RES_HET) if het else rng.choice(RES_STD + RES_STD + RES_MOD)
            if het:
                tags.add("hetero")
                pool = [n for n in NAMES_HET]
                natoms = rng.randint(1, 3)
            else:
                pool = NAMES_BACKBONE + NAMES_BASE + NAMES_H
                natoms = rng.randint(1, 6 if size == "small" else 14)
            names = rng.sample(pool, min(natoms, len(pool)))
            if not het and resname in RES_MOD and rng.random() < 0.5:
                het = "mod"  # modified residue: HETATM record but part of the polymer (has label_seq_id)
            res = dict(chain=ch, lchain=lchain_of[ch], num=num, lnum=(None if het is True else lnum), icode=icode,
                       resname=resname, het=bool(het), entity=str(ci + 1), atoms=[])
            if het is not True:
                lnum += 1
            for nm in names:
                if len(nm) == 4:
                    tags.add("name4")
                if nm[0].isdigit():
                    tags.add("name-leading-digit")
                if "'" in nm:
                    tags.add("name-prime")
                res["atoms"].append([nm, None, rng.choice(["1.00", "1.00", "1.00", "0.50", "0.75", "0.00", "1.0", "1"]), B.cell()])
            layout.append(res)
    # ---- altlocs / repeated names
    final = []  # records of model 1 (dicts)
    for res in layout:
        atoms = res["atoms"]
        mode = rng.random()
        recs = []
        if mode < 0.25 and atoms:
            # alternate locations for a subset of atoms
            k = rng.choice([2, 2, 3])
            sub = set(rng.sample(range(len(atoms)), rng.randint(1, len(atoms))))
            occs = altloc_occs(rng, k)
            order = rng.choice(["interleaved", "block"])
            tags.add("altloc-" + order)
            tags.add("altloc-tie" if len(set(occs)) < len(occs) else "altloc-strict")
            labels = "ABC"[:k]
            copies = {}
            for i in sub:
                copies[i] = [(labels[j], occs[j], (atoms[i][3] if j == 0 or rng.random() < 0.15 else B.cell() if rng.random() < 0.7 else
                              tuple(atoms[i][3][q] + rng.choice([-300, 150, 250, 700]) for q in range(3)))) for j in range(k)]
            if order == "interleaved":
                for i, a in enumerate(atoms):
                    if i in sub:
                        for (al, oc, xyz) in copies[i]:
                            recs.append((a[0], al, oc, xyz))
                    else:
                        recs.append((a[0], None, a[2], a[3]))
            else:
                for j in range(k):
                    for i, a in enumerate(atoms):
                        if i in sub:
                            al, oc, xyz = copies[i][j]
                            recs.append((a[0], al, oc, xyz))
                        elif j == 0:
                            recs.append((a[0], None, a[2], a[3]))
        elif mode < 0.35 and atoms:
            # a repeated name without altloc (the later copy somewhere else), occupancies hi/lo/tie
            i = rng.randrange(len(atoms))
            kind, (o1, o2) = occ_pair(rng)
            tags.add("repeat-" + kind)
            for j, a in enumerate(atoms):
                recs.append((a[0], None, o1 if j == i else a[2], a[3]))
            pos = rng.randint(i + 1, len(recs))
            if rng.random() < 0.3:
                # the repeated record sits on exactly the same coordinates (superposed copies that differ in occupancy only)
                tags.add("repeat-same-coordinates")
                recs.insert(pos, (atoms[i][0], None, o2, atoms[i][3]))
            else:
                recs.insert(pos, (atoms[i][0], None, o2, B.cell()))
        else:
            for a in atoms:
                recs.append((a[0], None, a[2], a[3]))
        # near-coincident partner (a different atom name in the same residue or a new hetero neighbour)
        if recs and rng.random() < 0.35:
            j = rng.randrange(len(recs))
            kind, off = near_offset(rng)
            okind, (o1, o2) = occ_pair(rng)
            tags.add("near:" + kind)
            tags.add("near-occ:" + okind)
            nm, al, _, xyz = recs[j]
            recs[j] = (nm, al, o1, xyz)
            pool = [n for n in (NAMES_BASE + NAMES_BACKBONE + NAMES_H) if n not in {r[0] for r in recs}]
            pname = rng.choice(pool)
            partner = (pname, None, o2, tuple(xyz[q] + off[q] for q in range(3)))
            where = rng.choice(["after", "end", "before"])
            if where == "after":
                recs.insert(j + 1, partner)
            elif where == "end":
                recs.append(partner)
            else:
                recs.insert(j, partner)
            if rng.random() < 0.2:
                # a chain of three: a third atom the same offset further on
                tags.add("near-chain3")
                pool = [n for n in pool if n != pname]
                third = (rng.choice(pool), None, rng.choice(["0.20", "0.90", o2]),
                         tuple(xyz[q] + 2 * off[q] for q in range(3)))
                recs.append(third)
        for (nm, al, oc, xyz) in recs:
            final.append(dict(model=1, chain=res["chain"], lchain=res["lchain"], num=res["num"], lnum=res["lnum"],
                              icode=res["icode"], resname=res["resname"], name=nm, alt=al, occ=oc,
                              x=xyz[0], y=xyz[1], z=xyz[2], het=res["het"], entity=res["entity"]))
    # ---- further models
    numbering = rng.choice(["1..k", "1..k", "1..k", "offset", "shuffled", "from-0-shuffled"])
    if nmodels == 1:
        mnums = [1] if rng.random() < 0.85 else [rng.choice([2, 7, 20])]
    elif numbering == "1..k":
        mnums = list(range(1, nmodels + 1))
    elif numbering == "offset":
        s = rng.choice([0, 2, 5, 11])
        mnums = [s + 2 * i for i in range(nmodels)]
    elif numbering == "from-0-shuffled":
        mnums = list(range(0, nmodels))           # 0 is a model number like any other, and need not come first
        rng.shuffle(mnums)
    else:
        mnums = list(range(1, nmodels + 1))
        rng.shuffle(mnums)
    if mnums[0] != 1:
        tags.add("first-model-not-1")
    records = []
    for mi, mn in enumerate(mnums):
        if mi == 0:
            for r in final:
                records.append(dict(r, model=mn))
            continue
        move = rng.choice(["same", "nmr", "nmr", "far"])
        tags.add("models:" + move)
        occmode = rng.choice(["same", "same", "higher", "lower"])
        dropsome = rng.random() < 0.25
        d = {"same": 0, "nmr": 1, "far": 2}[move]
        shift = tuple(rng.choice([-1, 1]) * 100000 * (mi + 1) for _ in range(3)) if d == 2 else (0, 0, 0)
        for idx, r in enumerate(final):
            if dropsome and rng.random() < 0.2:
                tags.add("models-differ-in-atoms")
                continue
            jit = tuple(rng.randrange(-250, 251) for _ in range(3)) if d == 1 else (0, 0, 0)
            rr = dict(r, model=mn, x=r["x"] + shift[0] + jit[0], y=r["y"] + shift[1] + jit[1], z=r["z"] + shift[2] + jit[2])
            if occmode == "higher" and r["occ"] in ("0.50", "0.75", "0.30", "0.35", "0.40"):
                rr["occ"] = "0.90"
                tags.add("later-model-higher-occ")
            elif occmode == "lower" and r["occ"] in ("1.00",):
                rr["occ"] = "0.80"
            records.append(rr)
    # ---- mmCIF rows written chain by chain instead of model by model (each model's rows are then not contiguous)
    interleaved = False
    if len(mnums) > 1 and rng.random() < 0.2:
        first = {}
        for r in records:
            first.setdefault(r["chain"], len(first))
        if len(first) > 1:
            records.sort(key=lambda r: first[r["chain"]])    # stable: inside a chain the model blocks keep their order
            interleaved = True
            tags.add("models-interleaved")
    # ---- finishing: text forms, null markers, absent occupancy (mmCIF only)
    noocc = rng.random() < 0.12
    for r in records:
        for k in "xyz":
            v = r[k]
            v = max(-999999, min(9999999, v))
            if v < 0:
                tags.add("negcoord")
            r[k] = dec3(v)
        r["nm_icode"] = rng.choice("?.")
        r["nm_alt"] = rng.choice("?.")
        r["nm_occ"] = rng.choice("?.")
        if noocc and rng.random() < 0.5:
            r["occ"] = None
    if noocc:
        tags.add("occ-absent")
    meta = dict(nmodels=len(mnums), models=mnums, tags=sorted(tags), pdb_ok=not noocc and not interleaved)
    return records, meta


# ------------------------------------------------------------------------------------------------ PDB

def pdb_name(name):
    """columns 13-16: four-character names and names starting with a digit begin in column 13,
    others in column 14 (one-letter elements)"""
    if len(name) >= 4 or name[0].isdigit():
        return name.ljust(4)[:4]
    return (" " + name).ljust(4)


def pdb_atom_line(r, serial):
    rec = "HETATM" if r["het"] else "ATOM  "
    cols = [rec, "%5d" % (serial % 100000), " ", pdb_name(r["name"]), r["alt"] or " ", r["resname"].rjust(3), " ", r["chain"],
            "%4d" % r["num"], r["icode"] or " ", "   ", r["x"].rjust(8), r["y"].rjust(8), r["z"].rjust(8),
            (r["occ"] if r["occ"] is not None else "").rjust(6), "  0.00".rjust(6), "          ",
            "".join(c for c in r["name"] if c.isalpha())[:1].rjust(2)]
    line = "".join(cols)
    assert len(line) == 78, (len(line), line)
    return line


def to_pdb(records, model_records=None, header=True, ter=True, serial0=1):
    """PDB text.  `model_records`: None = write MODEL/ENDMDL iff there are several models or the
    only model is not 1."""
    models = []
    for r in records:
        if not models or models[-1] != r["model"]:
            models.append(r["model"])
    if model_records is None:
        model_records = len(models) > 1 or models[:1] != [1]
    out = []
    if header:
        out.append("HEADER    RNA                                     01-JAN-00   XXXX")
        out.append("REMARK   2 GENERATED TABLE")
    serial = serial0
    cur = None
    prev = None
    for r in records:
        if r["model"] != cur:
            if cur is not None and model_records:
                if ter and prev is not None:
                    out.append("TER   %5d      %3s %1s%4d%1s" % (serial % 100000, prev["resname"].rjust(3), prev["chain"], prev["num"], prev["icode"] or " "))
                    serial += 1
                out.append("ENDMDL")
            cur = r["model"]
            if model_records:
                out.append("MODEL     %4d" % cur)
        elif ter and prev is not None and prev["chain"] != r["chain"]:
            out.append("TER   %5d      %3s %1s%4d%1s" % (serial % 100000, prev["resname"].rjust(3), prev["chain"], prev["num"], prev["icode"] or " "))
            serial += 1
        out.append(pdb_atom_line(r, serial))
        serial += 1
        prev = r
    if model_records and cur is not None:
        out.append("ENDMDL")
    out.append("END")
    return "\n".join(out) + "\n"


# ---------------------------------------------------------------------------------------------- mmCIF

CIF_ATTRS = ["group_PDB", "id", "type_symbol", "label_atom_id", "label_alt_id", "label_comp_id", "label_asym_id",
             "label_entity_id", "label_seq_id", "pdbx_PDB_ins_code", "Cartn_x", "Cartn_y", "Cartn_z", "occupancy",
             "B_iso_or_equiv", "auth_seq_id", "auth_comp_id", "auth_asym_id", "auth_atom_id", "pdbx_PDB_model_num"]


def cif_quote(v):
    """mmCIF value syntax: bare word unless it has white space / quote characters / a reserved start"""
    if v == "":
        return "''"
    special_start = v[0] in "_#$'\"[];" or v.lower().startswith(("data_", "loop_", "save_", "global_", "stop_"))
    if not special_start and not any(c in v for c in " \t'\""):
        return v
    if "'" not in v:
        return "'" + v + "'"
    if '"' not in v:
        return '"' + v + '"'
    # a quote may appear inside a quoted string when it is not followed by white space
    return '"' + v + '"'


def cif_rows(records, attrs=None):
    """the token table: list of rows (lists of strings) in the order of `attrs`"""
    attrs = attrs or CIF_ATTRS
    rows = []
    for i, r in enumerate(records):
        el = "".join(c for c in r["name"] if c.isalpha())[:1] or "X"
        d = {
            "group_PDB": "HETATM" if r["het"] else "ATOM", "id": str(i + 1), "type_symbol": el,
            "label_atom_id": r["name"], "label_alt_id": r["alt"] or r["nm_alt"], "label_comp_id": r["resname"],
            "label_asym_id": r["lchain"], "label_entity_id": r["entity"],
            "label_seq_id": str(r["lnum"]) if r["lnum"] is not None else ".",
            "pdbx_PDB_ins_code": r["icode"] or r["nm_icode"], "Cartn_x": r["x"], "Cartn_y": r["y"], "Cartn_z": r["z"],
            "occupancy": r["occ"] if r["occ"] is not None else r["nm_occ"], "B_iso_or_equiv": "0.00",
            "auth_seq_id": str(r["num"]), "auth_comp_id": r["resname"], "auth_asym_id": r["chain"],
            "auth_atom_id": r["name"], "pdbx_PDB_model_num": str(r["model"]),
        }
        rows.append([d[a] for a in attrs])
    return rows


def to_cif(records, attrs=None, extra=True):
    attrs = attrs or CIF_ATTRS
    rows = cif_rows(records, attrs)
    out = ["data_G4", "#"]
    if extra:
        out += ["_entry.id   G4", "#"]
    out.append("loop_")
    for a in attrs:
        out.append("_atom_site." + a)
    width = [max([1] + [len(cif_quote(row[i])) for row in rows]) for i in range(len(attrs))]
    for row in rows:
        out.append(" ".join(cif_quote(v).ljust(width[i]) for i, v in enumerate(row)).rstrip())
    out.append("#")
    return "\n".join(out) + "\n", attrs, rows


def read_cif_tokens(path):
    """(attribute list, rows) of the first data block's atom_site category, by the `mmcif` package"""
    from mmcif.io.IoAdapterPy import IoAdapterPy
    import contextlib
    import io
    with contextlib.redirect_stdout(io.StringIO()), contextlib.redirect_stderr(io.StringIO()):
        data = IoAdapterPy().readFile(path)
    if not data:
        return [], []
    obj = data[0].getObj("atom_site")
    if obj is None:
        return [], []
    return list(obj.getAttributeList()), [list(map(str, r)) for r in obj.getRowList()]


def rows_to_cif(attrs, rows, name="SUB"):
    out = ["data_" + name, "#", "loop_"] + ["_atom_site." + a for a in attrs]
    for row in rows:
        out.append(" ".join(cif_quote(v) for v in row))
    out.append("#")
    return "\n".join(out) + "\n"


def altloc_subset(path, text, fmt, cap):
    """a smaller well-formed table derived from a corpus file: every residue with an alternate
    location plus its sequence neighbours, then the beginning of the file, up to `cap` atoms"""
    if fmt == "pdb":
        lines = text.split("\n")
        atoms = [(i, l) for i, l in enumerate(lines) if l.startswith(("ATOM", "HETATM"))]
        resid = [l[21:27] for _, l in atoms]
        alt = [l[16:17].strip() != "" for _, l in atoms]
    else:
        attrs, rows = read_cif_tokens(path)
        ix = {a: i for i, a in enumerate(attrs)}
        resid = [(r[ix["auth_asym_id"]], r[ix["auth_seq_id"]], r[ix.get("pdbx_PDB_ins_code", ix["auth_seq_id"])]) for r in rows]
        alt = [r[ix["label_alt_id"]] not in ("?", ".") for r in rows] if "label_alt_id" in ix else [False] * len(rows)
    order = []
    for r in resid:
        if not order or order[-1] != r:
            order.append(r)
    pos = {}
    for k, r in enumerate(order):
        pos.setdefault(r, k)
    hot = {pos[r] for r, a in zip(resid, alt) if a}
    keep_res = set()
    for k in sorted(hot):
        keep_res |= {k - 1, k, k + 1}
    keep = [pos[r] in keep_res for r in resid]
    n = sum(keep)
    for i in range(len(keep)):
        if n >= cap:
            break
        if not keep[i]:
            keep[i] = True
            n += 1
    if n > cap:
        seen = 0
        for i in range(len(keep)):
            if keep[i]:
                seen += 1
                if seen > cap:
                    keep[i] = False
    if fmt == "pdb":
        drop = {atoms[i][0] for i in range(len(atoms)) if not keep[i]}
        return "\n".join(l for i, l in enumerate(lines) if i not in drop and not l.startswith(("ANISOU", "TER", "CONECT")))
    return rows_to_cif(attrs, [r for r, k in zip(rows, keep) if k])


def corpus_files():
    d = os.path.join(os.environ.get("RNAPOLIS_TESTS", "/repo/tests"))
    out = []
    for f in sorted(os.listdir(d)):
        if f.endswith((".pdb", ".cif")) and os.path.getsize(os.path.join(d, f)) > 0:
            out.append(os.path.join(d, f))
    return out


def superposed(rng, k):
    """two copies of one set of k atoms lying on top of each other (0.1 A apart) as two chains, the copy of lower
    occupancy listed first: the clash rule removes a whole half of the table, the survivors are the high indices"""
    names = NAMES_BACKBONE + NAMES_BASE
    recs = []
    lo, hi = rng.choice([("0.40", "0.60"), ("0.30", "0.70"), ("0.45", "0.55")])
    first_low = rng.random() < 0.7
    for ci, (chain, occ, dx) in enumerate((("A", lo if first_low else hi, 0), ("B", hi if first_low else lo, 100))):
        for t in range(k):
            num = 1 + t // len(names)
            recs.append(dict(model=1, chain=chain, lchain=chain, num=num, lnum=num, icode=None, resname="G", name=names[t % len(names)],
                             alt=None, occ=occ, x=dec3(1500 * t + dx), y=dec3(-7000 * ci * 0), z="0.000", het=False, entity="1",
                             nm_icode="?", nm_alt=".", nm_occ="?"))
    meta = dict(nmodels=1, models=[1], tags=["superposed-copies", "superposed:%d" % k], pdb_ok=True)
    return recs, meta


def handmade():
    """small fixed tables, each aimed at one clause of the property"""
    def rec(model, chain, num, name, x, occ="1.00", icode=None, alt=None, resname="G", het=False, lnum=1, y="0.000", z="0.000"):
        return dict(model=model, chain=chain, lchain=chain, num=num, lnum=lnum, icode=icode, resname=resname, name=name,
                    alt=alt, occ=occ, x=x, y=y, z=z, het=het, entity="1", nm_icode="?", nm_alt=".", nm_occ="?")
    T = {}
    T["two-models-shared-identity"] = [rec(1, "A", 1, "P", "11.000"), rec(1, "A", 1, "C1'", "13.000"),
                                       rec(2, "A", 1, "P", "21.000"), rec(2, "A", 1, "C1'", "23.000")]
    T["two-models-near"] = [rec(1, "A", 1, "P", "11.000"), rec(1, "A", 1, "C1'", "13.000"),
                            rec(2, "A", 1, "P", "11.100"), rec(2, "A", 1, "C1'", "13.100")]
    T["later-model-higher-occ"] = [rec(1, "A", 1, "P", "11.000", "0.50"), rec(1, "A", 1, "C1'", "13.000"),
                                   rec(2, "A", 1, "P", "21.000", "0.90"), rec(2, "A", 1, "C1'", "23.000")]
    T["altloc-second-wins"] = [rec(1, "A", 1, "P", "1.000", "0.40", alt="A"), rec(1, "A", 1, "P", "5.000", "0.60", alt="B"),
                               rec(1, "A", 1, "C1'", "9.000")]
    T["altloc-tie-first-wins"] = [rec(1, "A", 1, "P", "1.000", "0.50", alt="A"), rec(1, "A", 1, "C1'", "9.000"),
                                  rec(1, "A", 1, "P", "5.000", "0.50", alt="B")]
    T["clash-lower-dropped"] = [rec(1, "A", 1, "P", "1.000", "0.30"), rec(1, "A", 1, "OP1", "1.400", "0.70"), rec(1, "A", 1, "C1'", "9.000")]
    T["clash-tie-first-dropped"] = [rec(1, "A", 1, "P", "1.000", "0.50"), rec(1, "A", 1, "OP1", "1.400", "0.50"), rec(1, "A", 1, "C1'", "9.000")]
    T["clash-chain3"] = [rec(1, "A", 1, "P", "1.000", "0.20"), rec(1, "A", 1, "OP1", "1.400", "0.50"), rec(1, "A", 1, "OP2", "1.800", "0.90")]
    T["negative-number-icode"] = [rec(1, "A", -5, "P", "-1.000"), rec(1, "A", -5, "P", "-4.000", icode="A", lnum=2),
                                  rec(1, "A", -4, "P", "-7.000", lnum=3), rec(1, "B", -4, "P", "-10.000", lnum=1)]
    T["hetero"] = [rec(1, "A", 1, "P", "1.000"), rec(1, "A", 101, "MG", "8.000", het=True, resname="MG", lnum=None)]
    T["interleaved-residues"] = [rec(1, "A", 1, "P", "1.000"), rec(1, "A", 2, "P", "4.000", lnum=2), rec(1, "A", 1, "C1'", "7.000")]
    T["single-model-not-1"] = [rec(3, "A", 1, "P", "1.000"), rec(3, "A", 1, "C1'", "4.000")]
    T["icode-null-dot"] = [dict(rec(1, "A", 2, "P", "1.000"), nm_icode="."), dict(rec(1, "A", 2, "C1'", "4.000"), nm_icode=".")]
    T["occ-null-question"] = [dict(rec(1, "A", 2, "P", "1.000", occ=None), nm_occ="?")]
    T["occ-null-dot"] = [dict(rec(1, "A", 2, "P", "1.000", occ=None), nm_occ=".")]
    T["occ-null-dot-repeated-name"] = [dict(rec(1, "A", 2, "P", "1.000", occ=None), nm_occ="."),
                                       dict(rec(1, "A", 2, "P", "4.000", occ=None), nm_occ=".")]
    # an mmCIF table without the optional item auth_comp_id: the hetero row (no label_seq_id) then
    # has neither a complete label nor a complete auth identity
    T["hetero-without-auth-comp-item"] = [rec(1, "A", 1, "P", "1.000"), rec(1, "A", 101, "MG", "8.000", het=True, resname="MG", lnum=None)]
    out = []
    for k, recs in T.items():
        models = []
        for r in recs:
            if r["model"] not in models:
                models.append(r["model"])
        meta = dict(nmodels=len(models), models=models, tags=["hand:" + k], pdb_ok=all(r["occ"] is not None for r in recs))
        if k == "hetero-without-auth-comp-item":
            meta["cif_attrs"] = [a for a in CIF_ATTRS if a != "auth_comp_id"]
        out.append((k, recs, meta))
    return out

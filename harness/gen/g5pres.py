"""G5 — presentation changes of one structure (C05).

A *presentation* is a list of `Residue3D` of one model.  Changes:
  * rigid motions of the objects (random SO(3) from quaternions, the 24 proper signed permutation matrices,
    translations up to +-500 A): `moved`;
  * another order of the atoms inside residues: `atom_shuffled`;
  * order-preserving renaming of chains and residue numbers (label and auth alike): `relabelled`;
  * the same atoms as PDB text and as mmCIF text, emitted from ONE token table by the independent emitters of
    gen/g4v1.py (same decimal strings in both), read back with `parser.read_3d_structure`; on the table also
    exact-in-decimals motions (axis permutation + translation in thousandths), atom shuffles and renamings.

All randomness from the `rng` handed in.
"""
import os
import tempfile

import numpy

from gen import g3pairs as G
from gen import g4v1

AXIS_PERMS = G.AXIS_PERMS
PDB_CHAINS = "ABCDEFGHIJKLMNOPQRSTUVWXYZabcdefghijklmnopqrstuvwxyz"


# ---------------------------------------------------------------------------------------------- objects

def identities_unique(residues):
    seen = set()
    for r in residues:
        for k in ((r.model, "l", r.label), (r.model, "a", r.auth), (r.model, "k", r.chain, r.number, r.icode or " ")):
            if k[2] is None:
                continue
            if k in seen:
                return False
            seen.add(k)
        if r.chain is None or r.number is None:
            return False
    return True


def fresh(residues):
    """new objects (no stale cached properties)"""
    return [G.rebuild(r) for r in residues]


def random_motion(rng, kind=None):
    """(tag, R, t) — R a numpy 3x3, t a list"""
    kind = kind or rng.choice(["so3", "so3", "axis", "axis", "so3-far", "translation"])
    if kind == "so3":
        return kind, G.random_rotation(rng), [rng.uniform(-50, 50) for _ in range(3)]
    if kind == "so3-far":
        return kind, G.random_rotation(rng), [rng.choice([-1, 1]) * rng.uniform(300, 500) for _ in range(3)]
    if kind == "axis":
        return kind, AXIS_PERMS[rng.randrange(24)], [rng.uniform(-500, 500) for _ in range(3)]
    return "translation", numpy.eye(3), [rng.uniform(-500, 500) for _ in range(3)]


def moved(residues, R, t):
    return G.moved(residues, R, t)


def atom_shuffled(rng, residues):
    from rnapolis.tertiary import Residue3D
    out = []
    for r in residues:
        atoms = list(r.atoms)
        rng.shuffle(atoms)
        out.append(Residue3D(r.label, r.auth, r.model, r.one_letter_name, tuple(atoms)))
    return out


def monotone_chain_map(rng, names):
    """order-preserving renaming of a set of chain names (plain string order)"""
    names = sorted(set(names))
    style = rng.choice(["prefix", "letters", "double"])
    if style == "prefix":
        p = rng.choice(["X", "Z", "a", "q", "c", "0"])
        return {n: p + n for n in names}
    if style == "double":
        return {n: n + n[:1] + "x" if n else "x" for n in names} if all(names) and len({n[:1] for n in names}) == len(names) \
            else {n: "k" + n for n in names}
    # fresh increasing names of the same length class
    pool = sorted(rng.sample(range(26 * 26), len(names)))
    return {n: "%c%c" % (65 + p // 26, 97 + p % 26) for n, p in zip(names, pool)}


def monotone_number_map(rng, shift_only):
    """strictly increasing map on the integers"""
    c = rng.choice([1, 7, 100, 1000, -50, 12345, -3])
    if shift_only:
        return ("shift%+d" % c), (lambda n: n + c)
    a = rng.choice([2, 3])
    kind = rng.choice(["affine", "steps"])
    if kind == "affine":
        return ("affine*%d%+d" % (a, c)), (lambda n: a * n + c)
    return "steps", (lambda n: n + n // 7 + c)


def relabelled(rng, residues, shift_only):
    """(tag, residues', chain map) — label and auth identities renamed with one chain map and one number map"""
    from rnapolis.common import ResidueAuth, ResidueLabel
    from rnapolis.tertiary import Atom, Residue3D
    chains = set()
    for r in residues:
        if r.label is not None:
            chains.add(r.label.chain)
        if r.auth is not None:
            chains.add(r.auth.chain)
    cmap = monotone_chain_map(rng, chains)
    ntag, nmap = monotone_number_map(rng, shift_only)
    out = []
    for r in residues:
        label = None if r.label is None else ResidueLabel(cmap[r.label.chain], nmap(r.label.number), r.label.name)
        auth = None if r.auth is None else ResidueAuth(cmap[r.auth.chain], nmap(r.auth.number), r.auth.icode, r.auth.name)
        atoms = tuple(Atom(a.entity_id, label, auth, a.model, a.name, a.x, a.y, a.z, a.occupancy) for a in r.atoms)
        out.append(Residue3D(label, auth, r.model, r.one_letter_name, atoms))
    return ntag, out, cmap


# ---------------------------------------------------------------------------------------------- tables / files

def table_of(residues):
    """token table (g4v1 records) of a presentation, or None when it does not fit the PDB columns.
    Chains are renamed order-preservingly to single characters (both texts come from the same table)."""
    chains = sorted({r.chain for r in residues})
    if len(chains) > len(PDB_CHAINS) or any(c is None for c in chains):
        return None
    order = sorted(PDB_CHAINS)
    cmap = {c: order[i] for i, c in enumerate(chains)}
    lchains = sorted({(r.label.chain if r.label is not None else r.chain) for r in residues})
    lmap = {c: "L%d" % i if len(lchains) > 1 else "L" for i, c in enumerate(lchains)}
    recs = []
    lnum = {}
    for r in residues:
        name = (r.auth.name if r.auth is not None else r.label.name) or "N"
        if not (1 <= len(name) <= 3) or " " in name or not (-999 <= r.number <= 9999):
            return None
        if r.icode is not None and (len(r.icode) != 1 or r.icode in "?. "):
            return None
        lc = lmap[r.label.chain if r.label is not None else r.chain]
        lnum[lc] = lnum.get(lc, 0) + 1
        for a in r.atoms:
            if not (1 <= len(a.name) <= 4) or " " in a.name or '"' in a.name:
                return None
            xyz = [int(round(v * 1000)) for v in (a.x, a.y, a.z)]
            if any(not (-999999 <= v <= 9999999) for v in xyz):
                return None
            recs.append(dict(model=1, chain=cmap[r.chain], lchain=lc, num=r.number, lnum=lnum[lc], icode=r.icode,
                             resname=name, name=a.name, alt=None, occ="1.00", x=xyz[0], y=xyz[1], z=xyz[2], het=False,
                             entity="1", nm_icode="?", nm_alt=".", nm_occ="?"))
    return recs


MODRES_PARENT = {"PSU": "U", "5MC": "C", "5MU": "U", "H2U": "U", "1MA": "A", "2MG": "G", "M2G": "G", "7MG": "G", "OMC": "C",
                 "OMG": "G", "YYG": "G", "4SU": "U", "MIA": "A", "6MZ": "A", "1MG": "G", "T6A": "A", "I": "G", "DHU": "U"}


def modres_lines(recs):
    """MODRES records (as deposited PDB entries carry them) for the modified residues of a table"""
    seen, out = set(), []
    for r in recs:
        k = (r["chain"], r["num"], r["icode"], r["resname"])
        if r["resname"] in MODRES_PARENT and k not in seen:
            seen.add(k)
            out.append("MODRES 1XYZ %3s %1s %4d%1s %3s  MODIFIED RESIDUE" % (r["resname"], r["chain"], r["num"], r["icode"] or " ",
                                                                            MODRES_PARENT[r["resname"]]))
    return out


def table_texts(recs):
    """(pdb text, cif text) with the same decimal strings; the PDB text carries MODRES records for modified residues"""
    out = []
    for r in recs:
        out.append(dict(r, x=g4v1.dec3(r["x"]), y=g4v1.dec3(r["y"]), z=g4v1.dec3(r["z"])))
    pdb = g4v1.to_pdb(out)
    mod = modres_lines(recs)
    if mod:
        pdb = "\n".join(mod) + "\n" + pdb
    return pdb, g4v1.to_cif(out)[0]


def table_axis_moved(rng, recs):
    """exact in decimals: signed permutation of the axes (proper) and a translation in thousandths"""
    M = AXIS_PERMS[rng.randrange(24)]
    t = [rng.randrange(-400000, 400001) for _ in range(3)]
    out = []
    for r in recs:
        v = [r["x"], r["y"], r["z"]]
        w = [sum(int(M[i][j]) * v[j] for j in range(3)) + t[i] for i in range(3)]
        if any(not (-999999 <= c <= 9999999) for c in w):
            return None
        out.append(dict(r, x=w[0], y=w[1], z=w[2]))
    return out


def table_atom_shuffled(rng, recs):
    out, group, key = [], [], None
    for r in recs + [None]:
        k = None if r is None else (r["chain"], r["num"], r["icode"])
        if k != key and group:
            rng.shuffle(group)
            out += group
            group = []
        key = k
        if r is not None:
            group.append(r)
    return out


def table_relabelled(rng, recs):
    """shift of the residue numbers and an order-preserving change of the chain letters"""
    chains = sorted({r["chain"] for r in recs})
    pool = sorted(rng.sample(sorted(PDB_CHAINS), len(chains)))
    cmap = dict(zip(chains, pool))
    lo = min(r["num"] for r in recs)
    hi = max(r["num"] for r in recs)
    c = rng.choice([d for d in (1, 7, 100, 1000, -50, -3, 4000) if -999 <= lo + d and hi + d <= 9999] or [0])
    return [dict(r, chain=cmap[r["chain"]], num=r["num"] + c, lchain=r["lchain"] + "q") for r in recs], cmap, c


def table_atom_at_origin(rng, recs):
    """the table translated (exactly, in thousandths) so that one base atom sits at 0.000 0.000 0.000"""
    cand = [r for r in recs if "'" not in r["name"] and not r["name"].startswith(("P", "OP", "O1P", "O2P", "H"))]
    if not cand:
        return None
    a = rng.choice(cand)
    t = [-a["x"], -a["y"], -a["z"]]
    out = [dict(r, x=r["x"] + t[0], y=r["y"] + t[1], z=r["z"] + t[2]) for r in recs]
    if any(not (-999999 <= c <= 9999999) for r in out for c in (r["x"], r["y"], r["z"])):
        return None
    return out


def table_icode_siblings(rng, recs, descending=False):
    """order-preserving renumbering in which runs of 2-3 consecutive residues of a chain share the number and differ
    only in the insertion code (n, nA, nB — conventional tRNA numbering); label numbering is left as it is"""
    # only for tables whose residues are listed in ascending (number, icode) order inside every chain: the new
    # numbers ascend in file order, so otherwise the renaming would not be order preserving
    last = {}
    prev = None
    for r in recs:
        k = (r["chain"], r["num"], r["icode"] or " ")
        if k == prev:
            continue
        prev = k
        if r["chain"] in last and not (last[r["chain"]] < k[1:]):
            return None
        last[r["chain"]] = k[1:]
    out = []
    state = {}   # chain -> (current number, position inside the run, run length)
    key, new = None, None
    for r in recs:
        k = (r["chain"], r["num"], r["icode"])
        if k != key:
            key = k
            num, pos, run = state.get(r["chain"], (rng.randint(1, 40), 0, 0))
            if pos >= run:
                num, pos, run = num + 1, 0, rng.choice([1, 2, 2, 3])
            # descending: the inserted residues come first (9B, 9A, 9) - file order is then not the library's residue order
            new = (num, ([None, "A", "B"][:run][::-1] if descending else [None, "A", "B"])[pos])
            state[r["chain"]] = (num, pos + 1, run)
        out.append(dict(r, num=new[0], icode=new[1]))
    return out


def table_modified_siblings(recs):
    """order-preserving renumbering in which every MODIFIED residue shares the number of the residue before it and is
    told apart by an insertion code (conventional tRNA numbering puts insertion codes exactly on such positions);
    None when the table is not listed in ascending order or has no modified residue"""
    if table_icode_siblings(__import__("random").Random(0), recs) is None or not any(r["resname"] in MODRES_PARENT for r in recs):
        return None
    out, state, key, new = [], {}, None, None
    for r in recs:
        k = (r["chain"], r["num"], r["icode"])
        if k != key:
            key = k
            num, ic = state.get(r["chain"], (0, None))
            if r["resname"] in MODRES_PARENT and r["chain"] in state and ic != "C":
                ic = {None: "A", "A": "B", "B": "C"}[ic]
            else:
                num, ic = num + 1, None
            state[r["chain"]] = (num, ic)
            new = (num, ic)
        out.append(dict(r, num=new[0], icode=new[1]))
    return out


def read_text(text, suffix):
    """Structure3D of a document through the real reader"""
    from rnapolis.parser import read_3d_structure
    with tempfile.NamedTemporaryFile("w+", suffix=suffix, dir=os.environ.get("TMPDIR")) as f:
        f.write(text)
        f.flush()
        f.seek(0)
        return read_3d_structure(f, None)

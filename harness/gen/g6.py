"""G6 — mmCIF documents and item-editing requests for C20.

* corpus: every non-empty ``/repo/tests/*.cif``;
* generated multi-category documents, written by a *local* serialiser so that all the lexical forms of
  mmCIF occur (key-value and ``loop_`` categories; bare, single-quoted, double-quoted and ``;``-text
  values; multi-word values, ``?`` and ``.``; several data blocks; a malformed stream: no data block,
  truncated loop, repeated item);
* requests: category / item choices including absent ones, new target items, source = target,
  alphabets (default, short = exhausted, with a repeated letter, empty).

The ``mmcif`` reader is the trusted tokeniser: a document *is* what ``parse_text`` returns for its text.
"""
import glob
import logging
import os
import string
import tempfile

TESTS = os.environ.get("RNAPOLIS_TESTS", "/repo/tests")

# ---------------------------------------------------------------- tokeniser (trusted): text <-> blocks


def _adapter():
    from mmcif.io.IoAdapterPy import IoAdapterPy
    logging.getLogger("mmcif").setLevel(logging.CRITICAL)
    logging.disable(logging.CRITICAL)
    return IoAdapterPy()


def parse_text(text):
    """[(block name, [(category name, [items], [[values]])])] exactly as the reader of the library sees it"""
    a = _adapter()
    with tempfile.NamedTemporaryFile(mode="wt", suffix=".cif") as f:
        f.write(text)
        f.flush()
        data = a.readFile(f.name)
    out = []
    for c in data or []:
        cats = []
        for n in c.getObjNameList():
            o = c.getObj(n)
            cats.append((n, [str(x) for x in o.getAttributeList()], [[str(v) for v in r] for r in o.getRowList()]))
        out.append((c.getName(), cats))
    return out


def write_blocks(blocks):
    """text of abstract blocks through the library's writer (used to test that the tokeniser can carry a value)"""
    from mmcif.api.DataCategory import DataCategory
    from mmcif.api.PdbxContainers import DataContainer
    cs = []
    for name, cats in blocks:
        c = DataContainer(name)
        for n, items, rows in cats:
            c.append(DataCategory(n, list(items), [list(r) for r in rows]))
        cs.append(c)
    a = _adapter()
    with tempfile.NamedTemporaryFile(mode="rt+", suffix=".cif") as f:
        a.writeFile(f.name, cs)
        f.seek(0)
        return f.read()


def as_map(blocks):
    """comparison form: per block, category name -> (items, rows in order); category order is not kept"""
    return [(name, {n: (list(items), [list(r) for r in rows]) for n, items, rows in cats}) for name, cats in blocks]


def faithful(blocks):
    """can the trusted writer/reader pair carry this document unchanged?"""
    try:
        return as_map(parse_text(write_blocks(blocks))) == as_map(blocks)
    except Exception:  # noqa: BLE001
        return False


def is_rect(blocks):
    return all(all(len(r) == len(items) for r in rows) for _, cats in blocks for _, items, rows in cats)


# ---------------------------------------------------------------- wire format of the driver (tbl.*)

def hx(s):
    return s.encode("utf-8").hex() if s else "-"


def unhx(s):
    return "" if s == "-" else bytes.fromhex(s).decode("utf-8")


def _enc_list(sep, f, l):
    return sep.join(f(x) for x in l) if l else "~"


def _dec_list(sep, f, s):
    return [] if s == "~" else [f(x) for x in s.split(sep)]


def enc_cells(r):
    return _enc_list(",", hx, r)


def enc_blocks(blocks):
    def cat(c):
        n, items, rows = c
        return hx(n) + "|" + enc_cells(items) + "|" + _enc_list("/", enc_cells, rows)
    return _enc_list("&", lambda b: hx(b[0]) + "!" + _enc_list(";", cat, b[1]), blocks)


def dec_blocks(s):
    def cells(x):
        return _dec_list(",", unhx, x)

    def cat(x):
        n, it, rs = x.split("|")
        return (unhx(n), cells(it), _dec_list("/", cells, rs))

    def block(x):
        n, d = x.split("!")
        return (unhx(n), _dec_list(";", cat, d))
    return _dec_list("&", block, s)


def enc_mapping(m):
    return _enc_list(",", lambda kv: hx(kv[0]) + ":" + hx(kv[1]), list(m.items()))


def dec_mapping(s):
    out = {}
    for kv in _dec_list(",", lambda x: x, s):
        k, v = kv.split(":")
        out[unhx(k)] = unhx(v)
    return out


def opt(s):
    return "N" if s is None else "S" + (s.encode("utf-8").hex())


# ---------------------------------------------------------------- corpus

def corpus():
    out = []
    for p in sorted(glob.glob(os.path.join(TESTS, "*.cif"))):
        try:
            t = open(p).read()
        except Exception:  # noqa: BLE001
            continue
        out.append((os.path.basename(p), t))
    return out


# ---------------------------------------------------------------- local serialiser

RESERVED = ("data_", "loop_", "save_", "global_", "stop_")
SIMPLE = ["A", "B", "C", "A-2", "B-2", "AA", "HA", "IA", "2", "i", "1", "17", "-3.250", "1.00", "HOH", "G", "U",
          "O5'", "C1'", "N", "P", "OP1", "1_555", "x,y,z", "ATOM", "HETATM"]
WORDY = ["two words", "it's", "a 'quoted' word", 'say "hi"', "5'-R(*GP*CP)-3'", "RNA (25-MER)", "x ray", "a  b",
         "trailing;semi", "#hash", "_under", "data_x", "loop_", "$dollar", "[bracket]", ";semi",
         " A", "A ", "  B", "B  "]                  # blanks inside the quotes are part of the value (' A' is not 'A')
NULLS = ["?", "."]
TEXTS = ["line one\nline two", "multi\nline\ntext", "first\n second indented", "with 'both' \"quotes\" inside",
         "paragraph one\n\nparagraph two", "a\n\n\nb c"]          # blank lines inside a text field belong to the value


def _bare_ok(v):
    if v == "" or any(c.isspace() for c in v):
        return False
    if v[0] in "_#$'\"[];":
        return False
    low = v.lower()
    if any(low.startswith(r) for r in RESERVED):
        return False
    return True


def quote(rng, v):
    """one of the lexical forms that can carry v; returns (token, form, needs_own_line)"""
    forms = []
    if "\n" not in v:
        if _bare_ok(v):
            forms += ["bare", "bare", "bare"]
        if v in NULLS:
            forms += ["bare"]
        # a quote character inside a quoted string is fine unless followed by white space
        if not any(v[i] == "'" and (i + 1 == len(v) or v[i + 1].isspace()) for i in range(len(v))):
            forms.append("single")
        if not any(v[i] == '"' and (i + 1 == len(v) or v[i + 1].isspace()) for i in range(len(v))):
            forms.append("double")
    if "\n;" not in v and not v.endswith("\n") and v != "" and (not forms or rng.random() < 0.2):
        forms.append("text")
    form = rng.choice(forms) if forms else "text"
    if form == "bare":
        return v, form
    if form == "single":
        return "'" + v + "'", form
    if form == "double":
        return '"' + v + '"', form
    return "\n;" + v + "\n;\n", form


def serialise(rng, blocks, stats=None):
    out = []
    for name, cats in blocks:
        out.append("data_%s\n#\n" % name)
        for cname, items, rows in cats:
            kv = len(rows) == 1 and rng.random() < 0.7
            if kv:
                for it, v in zip(items, rows[0]):
                    tok, form = quote(rng, v)
                    if stats is not None:
                        stats[form] = stats.get(form, 0) + 1
                    out.append("_%s.%s   %s\n" % (cname, it, tok) if form != "text" else "_%s.%s%s" % (cname, it, tok))
            else:
                out.append("loop_\n")
                for it in items:
                    out.append("_%s.%s\n" % (cname, it))
                for r in rows:
                    line = []
                    for v in r:
                        tok, form = quote(rng, v)
                        if stats is not None:
                            stats[form] = stats.get(form, 0) + 1
                        line.append(tok)
                    s = ""
                    for tok in line:
                        if tok.startswith("\n"):
                            s = s.rstrip(" ") + tok
                        else:
                            s += tok + " "
                    out.append(s.rstrip(" ") + ("\n" if not s.endswith("\n") else ""))
            out.append("#\n")
    return "".join(out)


CAT_NAMES = ["atom_site", "entity", "struct_asym", "entry", "cell", "pdbx_struct_assembly", "chem_comp", "exptl"]
ITEM_NAMES = ["id", "label_asym_id", "auth_asym_id", "type", "details", "label_comp_id", "auth_comp_id", "pdbx_PDB_ins_code",
              "Cartn_x", "name", "entity_id"]


def value(rng, few=None):
    r = rng.random()
    if few is not None and r < 0.75:
        return rng.choice(few)
    if r < 0.55:
        return rng.choice(SIMPLE)
    if r < 0.75:
        return rng.choice(WORDY)
    if r < 0.9:
        return rng.choice(NULLS)
    return rng.choice(TEXTS)


def gen_blocks(rng):
    nblocks = 1 if rng.random() < 0.88 else rng.randint(2, 3)
    blocks = []
    for b in range(nblocks):
        ncat = rng.randint(1, 5)
        names = rng.sample(CAT_NAMES, ncat)
        if rng.random() < 0.7 and "atom_site" not in names:
            names[rng.randrange(ncat)] = "atom_site"
        cats = []
        for n in names:
            nit = rng.randint(1, 5)
            items = rng.sample(ITEM_NAMES, nit)
            if n == "atom_site" and rng.random() < 0.8:
                for must in ("label_asym_id", "auth_asym_id"):
                    if must not in items and rng.random() < 0.85:
                        items.append(must)
                rng.shuffle(items)
            nrows = 1 if rng.random() < 0.3 else rng.randint(2, 9)
            # a column with few distinct values makes the first-seen mapping non-trivial
            pools = [rng.sample(SIMPLE + WORDY[:4] + NULLS, rng.randint(1, 4)) if rng.random() < 0.6 else None
                     for _ in items]
            rows = [[value(rng, pools[k]) for k in range(len(items))] for _ in range(nrows)]
            cats.append((n, items, rows))
        blocks.append(("blk%d" % b if b else rng.choice(["test", "1ABC", "x"]), cats))
    return blocks


MALFORMED = [
    ("empty", ""),
    ("no-data-block", "_c.x 1\n"),
    ("garbage", "this is not 'mmCIF at all\n"),
    ("truncated-loop", "data_a\nloop_\n_c.x\n_c.y\n1 2\n3\n"),
    ("repeated-item", "data_a\nloop_\n_c.x\n_c.x\n1 2\n3 4\n"),
    ("split-category", "data_a\n_c.x 1\n_d.y 2\n_c.z 3\n"),
    ("case-variants", "data_a\n_C.X 1\n_c.y 2\n"),
    ("two-blocks", "data_a\n_c.x 1\ndata_b\n_c.x 2\n"),
    ("looks-like-a-path", "/tmp/some/input.cif"),
    ("zero-row-loop", "data_a\nloop_\n_c.x\n_c.y\n#\n"),
]

DEFAULT_VALUES = "".join(c for c in string.printable if c not in string.whitespace)


def alphabets(rng, ndistinct):
    """(tag, values) choices around the number of distinct values of the item"""
    r = rng.random()
    if r < 0.25:
        return "default", None
    if r < 0.5:
        return "upper", string.ascii_uppercase
    if r < 0.65:
        k = max(0, ndistinct - rng.randint(1, 2))
        return "short", string.ascii_uppercase[:k]
    if r < 0.75:
        return "exact", string.ascii_lowercase[:max(1, ndistinct)]
    if r < 0.85:
        return "repeated-letter", "AAB" + string.ascii_uppercase
    if r < 0.92:
        return "special", "'\"#;?._$ " + string.ascii_uppercase
    return "empty", ""


def choose_request(rng, blocks):
    """a copy or replace request aimed at (mostly) the first block, with absent choices mixed in"""
    cats = blocks[0][1] if blocks else []
    r = rng.random()
    if cats and r < 0.85:
        pref = [c for c in cats if c[0] == "atom_site"]
        cat = (pref[0] if pref and rng.random() < 0.6 else rng.choice(cats))
        cname, items, rows = cat
    elif cats and r < 0.9:
        cname, items, rows = rng.choice(cats)
        cname = cname.upper()  # names are case-sensitive in the code
        items, rows = [], []
    else:
        cname, items, rows = rng.choice(["no_such_category", "atom_sites", ""]), [], []
    mode = "copy" if rng.random() < 0.5 else "replace"
    if mode == "copy":
        src = rng.choice(items) if items and rng.random() < 0.85 else rng.choice(["no_such_item", "ID", ""])
        r2 = rng.random()
        if items and r2 < 0.5:
            to = rng.choice(items)
        elif r2 < 0.9:
            to = rng.choice(["new_item", "auth_asym_id", "copy_of_" + (src or "x"), "B_iso"])
        else:
            to = src
        return {"mode": "copy", "category": cname, "src": src, "to": to}
    col = rng.choice(items) if items and rng.random() < 0.85 else rng.choice(["no_such_item", "ID", ""])
    nd = 0
    if col in items:
        k = items.index(col)
        nd = len({r[k] for r in rows if k < len(r)})
    tag, values = alphabets(rng, nd)
    return {"mode": "replace", "category": cname, "col": col, "values": values, "alphabet": tag}

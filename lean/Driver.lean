import RnaVerif.Driver.SecStrOps
import RnaVerif.Driver.TableOps
import RnaVerif.Driver.LabelsOps
import RnaVerif.Driver.TorsionOps
import RnaVerif.Driver.MappingOps
import RnaVerif.Driver.PdbOps
import RnaVerif.Driver.GeomOps
import RnaVerif.Driver.PdbV1Ops
import RnaVerif.Driver.GlueOps
import RnaVerif.Driver.PairsOps
import RnaVerif.Driver.ReadersOps
import RnaVerif.Driver.MotionOps
import RnaVerif.Driver.FindPairsOps
import RnaVerif.Driver.PureExtOps
import RnaVerif.Driver.ToolsOps
import RnaVerif.Driver.FnOps
import RnaVerif.Driver.AllDBImplOps
/-! Line protocol over stdin/stdout: one tab-separated request per line, one response line each.
Imports model modules only (core Lean) so that it links as a native executable. -/
open RnaVerif

def handlers : List (String → List String → Option String) :=
  [Driver.SecStrOps.handle, Driver.TableOps.handle, Driver.LabelsOps.handle, Driver.TorsionOps.handle, Driver.MappingOps.handle, Driver.PdbOps.handle, Driver.GeomOps.handle, Driver.PdbV1Ops.handle, Driver.GlueOps.handle, Driver.PairsOps.handle, Driver.ReadersOps.handle, Driver.MotionOps.handle, Driver.FindPairsOps.handle, Driver.PureExtOps.handle, Driver.ToolsOps.handle, Driver.FnOps.handle, Driver.FnOps.handleSpec, Driver.AllDBImplOps.handle]

def respond (line : String) : String :=
  let line := if line.endsWith "\n" then (line.dropEnd 1).toString else line
  match Proto.splitOn line '\t' with
  | [] => "bad-op"
  | op :: args =>
    match handlers.findSome? (fun h => h op args) with
    | some r => r
    | none => "bad-op"

partial def loop (hin hout : IO.FS.Stream) : IO Unit := do
  let line ← hin.getLine
  if line.isEmpty then return ()
  hout.putStrLn (respond line)
  loop hin hout

def main : IO Unit := do
  let hin ← IO.getStdin
  let hout ← IO.getStdout
  loop hin hout
  hout.flush

-- root of the library: models, generated tables, lemmas, property theorems
import RnaVerif.Generated.Common
import RnaVerif.Model.SecStr
import RnaVerif.Driver.Proto

import RnaVerif.Driver.Proto
import RnaVerif.Model.AllDBImpl
/-! driver ops for the step-by-step model of `BpSeq.all_dot_brackets` (`ss.alldb_impl*`)

The iteration orders are *inputs*: the harness measures, on CPython, the order in which equal sets built
by the same insertion sequence are iterated and hands them over as `sigma` / `tau`.

* `ss.alldb_impl.sets <seq> <pairs> <sigma>`
    → `graph=<v:a,b;…> comps=<a,b;c,d> sets=<r=o,r=o|r=o,r=o;…>`: the graph (keys and members in insertion
    order), the components in discovery order for that σ, and per component the members of `unique[i]` in the
    order in which the Python loop over `itertools.permutations(component)` inserts them (first occurrences);
* `ss.alldb_impl.list <seq> <pairs> <sigma> <tau>` → `ok s1,s2,…` (the returned list IN ORDER) | `err X` |
    `bad-tau` (a `tau` entry is not a permutation of the model's `unique[i]`);
* `ss.alldb_impl <seq> <pairs>` → the same two answers for the reference orders (σ ascending, τ insertion).

`sigma` = `-` (ascending) or `v:a,b,c;w:d,e`; `tau` = `-` (insertion order) or per component `fs|fs|…`
separated by `;`, `fs` = `r=o,r=o` by ascending region. -/
namespace RnaVerif.Driver.AllDBImplOps
open RnaVerif RnaVerif.SecStr RnaVerif.SecStr.Impl RnaVerif.Proto

def sortAsc (l : List Nat) : List Nat := (l.toArray.qsort (· < ·)).toList

/-- `itertools.permutations(l)`: lexicographic in positions -/
def pyPermsAux : Nat → List Nat → List (List Nat)
  | 0, _ => [[]]
  | fuel + 1, l =>
    if l.isEmpty then [[]]
    else (List.range l.length).flatMap (fun i => (pyPermsAux fuel (l.eraseIdx i)).map (l.getD i 0 :: ·))

def pyPerms (l : List Nat) : List (List Nat) := pyPermsAux l.length l

/-- members of `unique[i]` in the order of their first insertion by the Python loop -/
def pySet (g : Graph) (n : Nat) (comp : List Nat) : List (List (Nat × Nat)) :=
  dedupFirst ((pyPerms comp).filterMap (fun π =>
    match permOrders g comp π with
    | .ok o => some (frozenItems n comp o)
    | .error _ => none))

def parseSigma (s : String) : Option (List (Nat × List Nat)) :=
  if s == "-" || s == "" then some []
  else (splitOn s ';').mapM (fun e =>
    match splitOn e ':' with
    | [v, l] => do let v ← v.toNat?; let l ← parseNatList l; some (v, l)
    | _ => none)

/-- σ from a specification: listed members first (in the listed order), then the others; ascending when
the vertex is not listed — always a permutation of the set -/
def sigmaOf (spec : List (Nat × List Nat)) (v : Nat) (l : List Nat) : List Nat :=
  match spec.find? (fun p => p.1 == v) with
  | some p =>
    let o := dedupFirst (p.2.filter (fun w => l.contains w))
    o ++ l.filter (fun w => !o.contains w)
  | none => sortAsc l

def showFs (fs : List (Nat × Nat)) : String := ",".intercalate (fs.map (fun p => s!"{p.1}={p.2}"))

def parseFs (s : String) : Option (List (Nat × Nat)) :=
  if s == "" then some []
  else (splitOn s ',').mapM (fun e =>
    match splitOn e '=' with
    | [a, b] => do let a ← a.toNat?; let b ← b.toNat?; some (a, b)
    | _ => none)

def parseTau (s : String) : Option (List (List (List (Nat × Nat)))) :=
  (splitOn s ';').mapM (fun c => (splitOn c '|').mapM parseFs)

def isPermOf (a b : List (List (Nat × Nat))) : Bool :=
  a.length == b.length && a.all (fun x => b.contains x) && b.all (fun x => a.contains x)

def showGraph (g : Graph) : String :=
  ";".intercalate (g.map (fun p => s!"{p.1}:{showNatList p.2}"))

def setsAnswer (es : List Entry) (spec : List (Nat × List Nat)) : String :=
  let regs := regions es
  let g := buildGraph Gen.conflictAll regs
  let cs := components g (sigmaOf spec)
  s!"graph={showGraph g} comps={";".intercalate (cs.map showNatList)} sets=" ++
    ";".intercalate (cs.map (fun c => "|".intercalate ((pySet g regs.length c).map showFs)))

/-- the list in order.  After the early-return test this is `allDBImpl σ τ rhoId es` unfolded once
(`components`, `uniqueOf` per component, then `finishWith` on the iteration orders), with τ given by its
values `orders` on the sets actually met, so that `unique` is computed once. -/
def listAnswer (es : List Entry) (spec : List (Nat × List Nat))
    (tau : Option (List (List (List (Nat × Nat))))) : String :=
  let regs := regions es
  let g := buildGraph Gen.conflictAll regs
  let σ := sigmaOf spec
  let showL := showExcept (fun (l : List (List Char)) => ",".intercalate (l.map String.ofList))
  if (vertices g).isEmpty then showL (allDBImpl σ tauId rhoId es)
  else
    let cs := components g σ
    match cs.mapM (uniqueOf g regs.length) with
    | .error e => "err " ++ e.toString
    | .ok us =>
      let orders : List (List (List (Nat × Nat))) := match tau with
        | some t => t
        | none => cs.map (pySet g regs.length)
      if orders.length != us.length || !((orders.zip us).all (fun p => isPermOf p.1 p.2)) then "bad-tau"
      else showL (finishWith es rhoId orders)

def handle (op : String) (a : List String) : Option String :=
  match op, a with
  | "ss.alldb_impl.sets", [seq, ps, sg] => do
      let es ← parseEntries seq ps; let spec ← parseSigma sg
      some (setsAnswer es spec)
  | "ss.alldb_impl.list", [seq, ps, sg, tau] => do
      let es ← parseEntries seq ps; let spec ← parseSigma sg
      let t ← (if tau == "-" then some none else (parseTau tau).map some)
      some (listAnswer es spec t)
  | "ss.alldb_impl", [seq, ps] => do
      let es ← parseEntries seq ps
      some (setsAnswer es [] ++ " list=" ++ listAnswer es [] none)
  | _, _ => none

end RnaVerif.Driver.AllDBImplOps

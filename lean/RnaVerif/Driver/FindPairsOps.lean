import RnaVerif.Driver.PairsOps
import RnaVerif.Model.FindPairs
/-! driver ops for the functional model of the whole `find_pairs` loop (`fp.*`, C03 / C05 / C11).

Structure argument as in `pairs.*` (Driver/PairsOps.lean), but the WHOLE residue list of the structure is sent; the
second argument is the `model` argument of `find_pairs` (`~` = `None`). -/
namespace RnaVerif.Driver.FindPairsOps
open RnaVerif RnaVerif.Proto RnaVerif.Pairs RnaVerif.FindPairs RnaVerif.Driver.PairsOps

def parseModel (s : String) : Option (Option Int) :=
  if s == "~" || s == "" || s == "-" then some none else s.toInt?.map some

def showTriples (l : List (Nat × Nat × Nat)) : String :=
  ",".intercalate (l.map (fun t => s!"{t.1}-{t.2.1}-{t.2.2}"))

def showPairs (l : List (Nat × Nat × String × Option String)) : String :=
  ",".intercalate (l.map (fun p => s!"{p.1}-{p.2.1}-{p.2.2.1}-{p.2.2.2.getD "~"}"))

def showRec (r : Rec) : String :=
  s!"{if r.phos then "bph" else "br"}:{r.ci}:{r.cj}:{r.d}:{toHex r.dn}>{r.a}:{toHex r.an}:{r.k}"

def run (model : Option Int) (s : Array Res) : String :=
  let pts := points Params.gen model s
  let cands := candsFrom Params.gen 0 pts
  let canon := canonList pts
  let st := loopOn Params.gen s pts cands
  let o := output Params.gen model s st
  let collisions := ((List.range pts.length).zip canon).filter (fun p => p.1 != p.2) |>.length
  s!"wf={o.wf};und={o.und};keyed={Gen.Ann.pointsKeyedByCoordinates};points={pts.length};collisions={collisions};cands={cands.length};consumed={st.consumed};" ++
  s!"recorded={st.recs.length};fell={st.fell};hb={st.hb.length};pairs={showPairs o.pairs};bph={showTriples o.bph};br={showTriples o.br}"

/-- the trace of the loop: recorded donor → oxygen contacts and hydrogen bonds, in order -/
def trace (model : Option Int) (s : Array Res) : String :=
  let st := loop Params.gen model s
  "recs=" ++ ",".intercalate (st.recs.map showRec) ++ ";hb=" ++
    ",".intercalate (st.hb.map (fun h => s!"{h.ri}:{toHex h.ni}>{h.rj}:{toHex h.nj}"))

def handle (op : String) (a : List String) : Option String :=
  match op, a with
  | "fp.run", [st, m] => do
      let s ← parseStructure st; let m ← parseModel m
      some (run m s)
  | "fp.run", [st] => do
      let s ← parseStructure st
      some (run none s)
  | "fp.trace", [st, m] => do
      let s ← parseStructure st; let m ← parseModel m
      some (trace m s)
  | _, _ => none

end RnaVerif.Driver.FindPairsOps

import RnaVerif.Driver.Proto
import RnaVerif.Generated.Functions
import RnaVerif.Model.FnSpec
/-! driver ops `fn.*`: the functions REGENERATED from the source by tools/py2lean.py
(`Generated/Functions.lean`), evaluated on wire-encoded arguments; compared by
`harness/corr/fn_common.py` with the real Python functions (the behavioural backup of the translator).

Wire format: text = hex of the UTF-8 bytes (`-` = empty); optional = `N` | `S<text>`; int = decimal;
float = `nan` | `num/den`; a function translated in raising mode answers `raise` for `none`.
```
label   := N | chain:number:name                      (texts)
auth    := N | chain:number:icode(optional):name
residue := label;auth
atom    := name:x:y:z
res3d   := label;auth;model;letter;chi;atom,atom,…    (`~` = no atoms)
oracle  := key=value|key=value…   (`~` = empty)       keys: floats joined by `,`
```
-/
namespace RnaVerif.Driver.FnOps
open RnaVerif RnaVerif.Proto RnaVerif.Gen.Fn

def encStr (s : String) : String := if s.isEmpty then "-" else toHex s
def decStr (s : String) : Option String := if s == "-" then some "" else fromHex s

def decOptStr (s : String) : Option (Option String) :=
  if s == "N" then some none
  else if s.startsWith "S" then (decStr (String.ofList (s.toList.drop 1))).map some
  else none
def encOptStr : Option String → String
  | none => "N"
  | some s => "S" ++ encStr s

def parseRat (s : String) : Option Rat :=
  match splitOn s '/' with
  | [n] => n.toInt?.map (fun k => (k : Rat))
  | [n, d] => do
    let k ← n.toInt?
    let m ← d.toNat?
    if m == 0 then none else some (mkRat k m)
  | _ => none

def decFloat (s : String) : Option Py.PyFloat :=
  if s == "nan" then some none else (parseRat s).map some
def encFloat : Py.PyFloat → String
  | none => "nan"
  | some q => s!"{q.num}/{q.den}"

def decLabel (s : String) : Option (Option ResidueLabel) :=
  if s == "N" then some none else
  match splitOn s ':' with
  | [c, n, nm] => do
    let c ← decStr c; let n ← n.toInt?; let nm ← decStr nm
    some (some ⟨c, n, nm⟩)
  | _ => none

def decAuth (s : String) : Option (Option ResidueAuth) :=
  if s == "N" then some none else
  match splitOn s ':' with
  | [c, n, ic, nm] => do
    let c ← decStr c; let n ← n.toInt?; let ic ← decOptStr ic; let nm ← decStr nm
    some (some ⟨c, n, ic, nm⟩)
  | _ => none

def decResidue (s : String) : Option Residue :=
  match splitOn s ';' with
  | [l, a] => do
    let l ← decLabel l; let a ← decAuth a
    some ⟨l, a⟩
  | _ => none

def decAtom (s : String) : Option Atom :=
  match splitOn s ':' with
  | [n, x, y, z] => do
    let n ← decStr n; let x ← decFloat x; let y ← decFloat y; let z ← decFloat z
    some ⟨n, x, y, z⟩
  | _ => none
def encAtom (a : Atom) : String := encStr a.name ++ ":" ++ encFloat a.x ++ ":" ++ encFloat a.y ++ ":" ++ encFloat a.z

def decRes3D (s : String) : Option Residue3D :=
  match splitOn s ';' with
  | [l, a, m, letter, chi, atoms] => do
    let l ← decLabel l; let a ← decAuth a; let m ← m.toInt?; let letter ← decStr letter; let chi ← decFloat chi
    let ats ← if atoms == "~" then some [] else (splitOn atoms ',').mapM decAtom
    some { label := l, auth := a, model := m, one_letter_name := letter, atoms := ats, chi := chi }
  | _ => none

/-- a finite table standing for an abstract callee: key = the float arguments, `nan` for a missing key -/
def decOracle (s : String) : Option (List (List Py.PyFloat × Py.PyFloat)) :=
  if s == "~" then some [] else
  (splitOn s '|').mapM (fun kv =>
    match splitOn kv '=' with
    | [k, v] => do
      let ks ← (splitOn k ',').mapM decFloat
      let v ← decFloat v
      some (ks, v)
    | _ => none)

def lookupOracle (t : List (List Py.PyFloat × Py.PyFloat)) (k : List Py.PyFloat) : Py.PyFloat := (t.lookup k).getD none

def enumOf {α} (all : List α) (name : α → String) (s : String) : Option α := all.find? (fun m => name m == s)

def showBool (b : Bool) : String := if b then "true" else "false"
def showRaise {α} (f : α → String) : Option α → String
  | none => "raise"
  | some a => f a
def showOpt {α} (f : α → String) : Option α → String
  | none => "N"
  | some a => "S" ++ f a

/-- the float π of the interpreter (exact value of the double), for the default of the `math.radians` oracle -/
def piFloat : Rat := 884279719003555 / 281474976710656

def lw? := enumOf LeontisWesthof.all LeontisWesthof.name
def sa? := enumOf Saenger.all Saenger.name
def decOptSa (s : String) : Option (Option Saenger) := if s == "N" then some none else (sa? s).map some

def mkPair (lw : LeontisWesthof) (sa : Option Saenger) (r1 r2 : Residue) (l1 l2 : String) : BasePair3D :=
  { nt1 := r1, nt2 := r2, lw := lw, saenger := sa,
    nt1_3d := { r1 with model := 1, one_letter_name := l1, atoms := [], chi := none },
    nt2_3d := { r2 with model := 1, one_letter_name := l2, atoms := [], chi := none } }

def torsOracle (t : List (List Py.PyFloat × Py.PyFloat)) (a b c d : Atom) : Py.PyFloat :=
  lookupOracle t [a.x, a.y, a.z, b.x, b.y, b.z, c.x, c.y, c.z, d.x, d.y, d.z]

def handle (op : String) (args : List String) : Option String :=
  match op, args with
  | "fn.lwReverse", [a] => some ((lw? a).elim "bad" (fun m => showRaise LeontisWesthof.name (lwReverse m)))
  | "fn.lwLt", [a, b] => some (match lw? a, lw? b with
      | some x, some y => showBool (lwLt x y)
      | _, _ => "bad")
  | "fn.saengerIsCanonical", [a] => some ((sa? a).elim "bad" (fun m => showBool (saengerIsCanonical m)))
  | "fn.stackingReverse", [a] => some ((enumOf StackingTopology.all StackingTopology.name a).elim "bad"
      (fun m => (stackingReverse m).name))
  | "fn.residueChain", [r] => some ((decResidue r).elim "bad" (fun r => encOptStr (residueChain r)))
  | "fn.residueNumber", [r] => some ((decResidue r).elim "bad" (fun r => showOpt toString (residueNumber r)))
  | "fn.residueIcode", [r] => some ((decResidue r).elim "bad" (fun r => encOptStr (residueIcode r)))
  | "fn.residueName", [r] => some ((decResidue r).elim "bad" (fun r => encOptStr (residueName r)))
  | "fn.moleculeType", [r] => some ((decResidue r).elim "bad" (fun r => (moleculeType r).name))
  | "fn.residueLt", [a, b] => some (match decResidue a, decResidue b with
      | some x, some y => showRaise showBool (residueLt x y)
      | _, _ => "bad")
  | "fn.residue3dLt", [a, b] => some (match decRes3D a, decRes3D b with
      | some x, some y => showRaise showBool (residue3dLt x y)
      | _, _ => "bad")
  | "fn.chiClass", [chi, tbl] => some (match decFloat chi, decOracle tbl with
      | some c, some t =>
        let radians : Py.PyFloat → Py.PyFloat := fun x =>
          match t.lookup [x] with
          | some v => v
          | none => x.map (fun d => d * piFloat / 180)
        let r : Residue3D := { label := none, auth := none, model := 1, one_letter_name := "", atoms := [], chi := c }
        showOpt GlycosidicBond.name (chiClass radians r)
      | _, _ => "bad")
  | "fn.findAtom", [r, n] => some (match decRes3D r, decStr n with
      | some r, some n => showOpt encAtom (findAtom r n)
      | _, _ => "bad")
  | "fn.bpScore", [lw] => some ((lw? lw).elim "bad" (fun m =>
      toString (bpScore (mkPair m none ⟨none, none⟩ ⟨none, none⟩ "" ""))))
  | "fn.bpIsCanonical", [lw, sa, l1, l2] => some (match lw? lw, decOptSa sa, decStr l1, decStr l2 with
      | some m, some s, some a, some b => showBool (bpIsCanonical (mkPair m s ⟨none, none⟩ ⟨none, none⟩ a b))
      | _, _, _, _ => "bad")
  | "fn.pairScore", [which, sa, l1, l2, r1, r2] =>
      some (match decOptSa sa, decStr l1, decStr l2, decResidue r1, decResidue r2 with
      | some s, some a, some b, some x, some y =>
        let p := mkPair .cWW s x y a b
        let r := if which == "bpseq" then pairScoreBpseq p else pairScoreData p
        toString r.1 ++ ":" ++ showBool (r.2.1 == x) ++ ":" ++ showBool (r.2.2 == y)
      | _, _, _, _, _ => "bad")
  | "fn.cisTrans", [ri, rj, tbl] => some (match decRes3D ri, decRes3D rj, decOracle tbl with
      | some a, some b, some t => encOptStr (cisTrans (torsOracle t) id a b)
      | _, _, _ => "bad")
  | "fn.bphClass", [r, donor, acc, tbl] => some (match decRes3D r, decAtom donor, decAtom acc, decOracle tbl with
      | some r, some d, some a, some t => showOpt toString (bphClass (torsOracle t) id r d a)
      | _, _, _, _ => "bad")
  | "fn.angleClamp", [c] => some ((decFloat c).elim "bad" (fun c => encFloat (angleClamp id c)))
  | "fn.detectSaenger", [l1, l2, lw] => some (match decStr l1, decStr l2, lw? lw with
      | some a, some b, some m =>
        let mk (l : String) : Residue3D := { label := none, auth := none, model := 1, one_letter_name := l, atoms := [], chi := none }
        showRaise (showOpt Saenger.name) (detectSaenger (mk a) (mk b) m)
      | _, _, _ => "bad")
  | "fn.matchDssrLw", [s] => some ((decOptStr s).elim "bad" (fun s => showRaise (showOpt LeontisWesthof.name) (matchDssrLw s)))
  | "fn.atomRadius", [t] => some ((enumOf AtomType.all AtomType.name t).elim "bad" (fun m => showRaise encFloat (atomRadius m)))
  | "fn.atomMatches", [t, n] => some (match enumOf AtomType.all AtomType.name t, decStr n with
      | some m, some n => showBool (atomMatches m ⟨n, none, none, none⟩)
      | _, _ => "bad")
  | "fn.classifyClash", [a, b] => some (match decStr a, decStr b with
      | some a, some b => encOptStr (classifyClash ⟨a, none, none, none⟩ ⟨b, none, none, none⟩ none)
      | _, _ => "bad")
  | "fn.pdbAtomName", [n] => some ((decStr n).elim "bad" (fun n => encStr (pdbAtomName n)))
  | _, _ => none

/-! ### `fns.*`: the MODEL SIDE of each bridge theorem (`Model/FnSpec.lean`, hand models, pinned values) on the same
arguments; `undef` where the bridge has a hypothesis that the argument does not meet -/

def handleSpec (op : String) (args : List String) : Option String :=
  match op, args with
  | "fns.lwReverse", [a] => some ((Pairs.lwReverse a).getD "raise")
  | "fns.lwLt", [a, b] => some (match lw? a, lw? b with
      | some x, some y => showBool (decide (x.value < y.value))
      | _, _ => "bad")
  | "fns.saengerIsCanonical", [a] => some ((sa? a).elim "bad" (fun m => showBool (Gen.mapSaengerCanonical.getD (FnSpec.saIdx m) false)))
  | "fns.stackingReverse", [a] => some ((Gen.stackingReverse.lookup a).getD "bad")
  | "fns.moleculeType", [r] => some ((decResidue r).elim "bad" (fun r => (FnSpec.moleculeType r).name))
  | "fns.residueLt", [a, b] => some (match decResidue a, decResidue b with
      | some x, some y => (match FnSpec.keyOf x, FnSpec.keyOf y with
        | some kx, some ky => showBool (Pairs.RKey.lt kx ky)
        | _, _ => "undef")
      | _, _ => "bad")
  | "fns.residue3dLt", [a, b] => some (match decRes3D a, decRes3D b with
      | some x, some y => (match FnSpec.toRes x, FnSpec.toRes y with
        | some mx, some my => showBool (Pairs.resLt mx my)
        | _, _ => "undef")
      | _, _ => "bad")
  | "fns.chiClass", [chi, _] => some (match decFloat chi with
      | some (some c) =>
        let d := c * 180 / piFloat
        -- the real bounds are the doubles nearest to ∓30°·π/180: no verdict within 1e-9° of a bound
        if (d + 30).abs < 1 / 1000000000 || (d - 120).abs < 1 / 1000000000 then "undef"
        else "S" ++ (FnSpec.chiRule (-30) 120 d).name
      | some none => "N"
      | none => "bad")
  | "fns.findAtom", [r, n] => some (match decRes3D r, decStr n with
      | some r, some n => showOpt encAtom (r.atoms.find? (fun a => a.name == n))
      | _, _ => "bad")
  | "fns.bpScore", [lw] => some ((lw? lw).elim "bad" (fun m => toString (Gen.mapScoreTable.getD (FnSpec.lwIdx m) 20)))
  | "fns.bpIsCanonical", [lw, sa, l1, l2] => some (match lw? lw, decOptSa sa, decStr l1, decStr l2 with
      | some m, some s, some a, some b =>
        (match FnSpec.asciiLetter a, FnSpec.asciiLetter b with
        | some c1, some c2 =>
          showBool (Mapping.isCanonical (FnSpec.modelNts c1 c2) (FnSpec.modelPair (mkPair m s ⟨none, none⟩ ⟨none, none⟩ a b)))
        | _, _ => "undef")
      | _, _, _, _ => "bad")
  | "fns.pairScore", [_, sa, l1, l2, r1, r2] =>
      some (match decOptSa sa, decStr l1, decStr l2, decResidue r1, decResidue r2 with
      | some s, some a, some b, some x, some y =>
        (match FnSpec.asciiLetter a, FnSpec.asciiLetter b with
        | some c1, some c2 =>
          toString (Mapping.pairScore (FnSpec.modelNts c1 c2) (FnSpec.modelPair (mkPair .cWW s x y a b))) ++ ":true:true"
        | _, _ => "undef")
      | _, _, _, _, _ => "bad")
  | "fns.cisTrans", [ri, rj, tbl] => some (match decRes3D ri, decRes3D rj, decOracle tbl with
      | some a, some b, some t => encOptStr (FnSpec.cisTrans "C1'" "AG" "N9" "N1" (-90) 90 (torsOracle t) id a b)
      | _, _, _ => "bad")
  | "fns.bphClass", [r, donor, acc, tbl] => some (match decRes3D r, decAtom donor, decAtom acc, decOracle tbl with
      | some r, some d, some a, some t =>
        showOpt toString (FnSpec.tableClass Pairs.Params.spec (-90) 90 (findAtom r) (fun x y => torsOracle t x y d a) r.one_letter_name d.name)
      | _, _, _, _ => "bad")
  | "fns.angleClamp", [c] => some ((decFloat c).elim "bad" (fun c => encFloat (some (FnSpec.clamp c))))
  | "fns.detectSaenger", [l1, l2, lw] => some (match decStr l1, decStr l2, lw? lw with
      | some a, some b, some m => showOpt Saenger.name (FnSpec.saengerOf Gen.saengerTable a b m)
      | _, _, _ => "bad")
  | "fns.matchDssrLw", [s] => some ((decOptStr s).elim "bad" (fun s => match Labels.matchLw s with
      | .ok v => showOpt id v
      | .error _ => "raise"))
  | "fns.atomRadius", [t] => some (((Gen.clashRadii.lookup t).map (fun q => encFloat (some q))).getD "raise")
  | "fns.atomMatches", [t, n] => some (match decStr n with
      | some n => showBool (t.toList.isPrefixOf (Py.strip n).toList)
      | none => "bad")
  | "fns.classifyClash", [a, b] => some (match decStr a, decStr b with
      | some a, some b => encOptStr (FnSpec.clashClass a b)
      | _, _ => "bad")
  | "fns.pdbAtomName", [n] => some ((decStr n).elim "bad" (fun n =>
      match n.toList.head? with
      | some c => if c.toNat < 128 then encStr (String.ofList (Pdb.atomNameFmt 4 4 n.toList)) else "undef"
      | none => encStr (String.ofList (Pdb.atomNameFmt 4 4 n.toList))))
  | _, _ => none

end RnaVerif.Driver.FnOps

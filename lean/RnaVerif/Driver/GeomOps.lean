import RnaVerif.Driver.Proto
import RnaVerif.Model.Stacking
import RnaVerif.Model.Clash
/-!
driver ops for the exact-geometry models: `stk.*` (find_stackings) and `clash.*` (clashfinder)

Structures travel as one argument: residues separated by `;`, fields of a residue by `|`:
`model,chainHex,number,icodeHex,letterHex,nameHex,isNucleotide(0/1)` then one field per atom
`nameHex:x:y:z:occ` with exact rationals `num/den` (`float.as_integer_ratio()`), `occ` = `-` for None.
Hex of the empty string is `-`.
-/
namespace RnaVerif.Driver.GeomOps
open RnaVerif RnaVerif.Proto

def unhex (s : String) : Option String := if s == "-" then some "" else fromHex s

def parseRat (s : String) : Option Rat :=
  match splitOn s '/' with
  | [n] => n.toInt?.map (fun k => (k : Rat))
  | [n, d] => do
    let k ← n.toInt?
    let m ← d.toNat?
    if m == 0 then none else some (mkRat k m)
  | _ => none

def showRat (q : Rat) : String := if q.den == 1 then toString q.num else s!"{q.num}/{q.den}"

structure PAtom where
  name : String
  pos : V3 Rat
  occ : Option Rat

structure PRes where
  model : Int
  chain : String
  number : Int
  icode : String
  letter : String
  name : String
  nucleotide : Bool
  atoms : List PAtom

def parseAtom (s : String) : Option PAtom :=
  match splitOn s ':' with
  | [n, x, y, z, o] => do
    let n ← unhex n; let x ← parseRat x; let y ← parseRat y; let z ← parseRat z
    let o ← (if o == "-" then some none else (parseRat o).map some)
    some ⟨n, ⟨x, y, z⟩, o⟩
  | _ => none

def parseRes (s : String) : Option PRes :=
  match splitOn s '|' with
  | [] => none
  | h :: atoms =>
    match splitOn h ',' with
    | [m, c, n, ic, l, nm, nt] => do
      let m ← m.toInt?; let c ← unhex c; let n ← n.toInt?; let ic ← unhex ic; let l ← unhex l
      let nm ← unhex nm
      let as ← atoms.mapM parseAtom
      some ⟨m, c, n, ic, l, nm, nt == "1", as⟩
    | _ => none

def parseStructure (s : String) : Option (List PRes) :=
  if s == "" || s == "-" then some [] else (splitOn s ';').mapM parseRes

def toStackRes (r : PRes) : Stacking.Res :=
  ⟨r.model, r.chain, r.number, r.icode, r.letter, r.atoms.map (fun a => ⟨a.name, a.pos⟩)⟩

def showTri (t : Tri) : String := t.toString

def showStk (s : Stacking.Stk) : String := s!"{s.r1.idx}-{s.r2.idx}:{s.topo.toString}"

def joinOr (l : List String) : String := if l.isEmpty then "-" else ",".intercalate l

/-- flatten residues into the atom list of the clash model -/
def toClashAtoms (rs : List PRes) : List Clash.CAtom :=
  let rec go (ri k : Nat) : List PRes → List Clash.CAtom
    | [] => []
    | r :: rest =>
      (enumFrom' k r.atoms).map (fun p =>
        ({ idx := p.1, res := ri, chain := r.chain, resName := r.name, nucleotide := r.nucleotide,
           name := p.2.name, pos := p.2.pos, occ := p.2.occ } : Clash.CAtom)) ++ go (ri + 1) (k + r.atoms.length) rest
  go 0 0 rs

def parseOpts (s : String) : Option Clash.Opts :=
  match s.toList with
  | [a, b, c, d, e] =>
    if [a, b, c, d, e].all (fun x => x == '0' || x == '1') then
      some ⟨a == '1', b == '1', c == '1', d == '1', e == '1'⟩ else none
  | _ => none

def showClash (c : Clash.Clash) : String := s!"{c.a.idx}-{c.b.idx}:{showRat c.occ}"

def parsePairs (s : String) : Option (List (Nat × Nat)) :=
  if s == "" || s == "-" then some [] else (splitOn s ',').mapM (fun t =>
    match splitOn t '-' with
    | [a, b] => do let x ← a.toNat?; let y ← b.toNat?; some (x, y)
    | _ => none)

/-- clash records for index pairs, with the occupancy sum the model computes -/
def mkClashes (atoms : Array Clash.CAtom) (ps : List (Nat × Nat)) : Option (List Clash.Clash) :=
  ps.mapM (fun p => do
    let a ← atoms[p.1]?; let b ← atoms[p.2]?
    some ⟨a, b, Clash.effOcc a.occ + Clash.effOcc b.occ⟩)

def showReport (rep : List Clash.ChainGroup) : String :=
  joinOr (rep.flatMap (fun cg =>
    s!"C:{toHex cg.ci}:{toHex cg.cj}:{showRat cg.maxOcc}" ::
      cg.groups.flatMap (fun rg =>
        s!"R:{rg.ri}:{rg.rj}:{showRat rg.maxOcc}" ::
          rg.atoms.map (fun c => s!"A:{c.a.idx}:{c.b.idx}:{showRat c.occ}"))))

def showCsv (rows : List Clash.CsvRow) : String :=
  joinOr (rows.map (fun r => s!"{toHex r.atom1}:{toHex r.atom2}:{showRat r.occ}"))

def handle (op : String) (a : List String) : Option String :=
  match op, a with
  | "stk.find", [model, body] => do
      let m ← (if model == "-" then some none else model.toInt?.map some)
      let rs ← parseStructure body
      let srs := rs.map toStackRes
      let found := Stacking.stackings m srs
      let und := Stacking.undecided m srs
      some ("ok " ++ joinOr (found.map showStk) ++ " " ++ joinOr (und.map (fun p => s!"{p.1.idx}-{p.2.idx}")))
  | "stk.pair", [body] => do
      -- diagnostics for one ordered pair of residues: the three verdicts
      let rs ← parseStructure body
      match Stacking.prepare none (rs.map toStackRes) with
      | [x, y] =>
        match x.n, y.n with
        | some n, some m =>
          let v := V3.sub x.c y.c
          some s!"dist={showTri (Stacking.distTri (V3.norm2 v))} normals={showTri (Stacking.normTri n m)} vec_i={showTri (Stacking.vecTri v n)} vec_j={showTri (Stacking.vecTri v m)} pair={showTri (Stacking.pairTri x y)} same={Stacking.sameDirection x y}"
        | _, _ => some "no-normal"
      | l => some s!"prepared={l.length}"
  | "clash.find", [opts, body] => do
      -- one or several option combinations (comma separated) on one structure; answers joined by `|`
      let os ← (splitOn opts ',').mapM parseOpts
      let rs ← parseStructure body
      let atoms := toClashAtoms rs
      some ("ok " ++ "|".intercalate (os.map (fun o =>
        let found := Clash.clashes o atoms
        let und := Clash.undecided o atoms
        joinOr (found.map showClash) ++ " " ++ joinOr (und.map (fun p => s!"{p.1.atom.idx}-{p.2.atom.idx}")))))
  | "clash.spec", [opts, body] => do
      -- the same with occupancies read literally (None = 1, nothing else replaced)
      let os ← (splitOn opts ',').mapM parseOpts
      let rs ← parseStructure body
      let atoms := toClashAtoms rs
      some ("ok " ++ "|".intercalate (os.map (fun o =>
        let found := Clash.clashesSpec o atoms
        let und := Clash.undecided o atoms
        joinOr (found.map showClash) ++ " " ++ joinOr (und.map (fun p => s!"{p.1.atom.idx}-{p.2.atom.idx}")))))
  | "clash.report", [body, pairs] => do
      -- report and CSV rows of `main` for the clash list in the given order (atom index pairs)
      let rs ← parseStructure body
      let ps ← parsePairs pairs
      let cl ← mkClashes (toClashAtoms rs).toArray ps
      some ("ok " ++ showReport (Clash.report cl) ++ " " ++ showCsv (Clash.csvRows cl))
  | "clash.consts", [] =>
      some (joinOr (Gen.clashRadii.map (fun p => s!"{p.1}={showRat p.2}")) ++
        s!" mpOn={showRat Gen.molprobityOn} mpOff={showRat Gen.molprobityOff} factor={showRat Gen.kdQueryFactor} maxr={showRat Clash.maxRadius}")
  | _, _ => none

end RnaVerif.Driver.GeomOps

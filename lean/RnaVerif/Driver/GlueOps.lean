import RnaVerif.Driver.Proto
import RnaVerif.Model.Writer
import RnaVerif.Model.Text
/-! driver ops for the glue around C01: faithful writer (`ss.mkdbw`), BPSEQ text (`ss.print`,
`ss.parse`), dot-bracket text (`ss.dbstr`, `ss.dbfile`, `ss.dbprint`), multi-strand text
(`ss.multi`, `ss.printmulti`).  Text that may contain separators travels hex-encoded (`-` = empty). -/
namespace RnaVerif.Driver.GlueOps
open RnaVerif RnaVerif.SecStr RnaVerif.Proto RnaVerif.Text

def unhex (s : String) : Option String := if s == "-" then some "" else fromHex s
def hex (s : String) : String := if s.isEmpty then "-" else toHex s
def hexL (cs : List Char) : String := hex (String.ofList cs)

/-- `j:k:n;j:k:n` with signed integers; `-` = none -/
def parseRegionsZ (s : String) : Option (List RegionZ) :=
  if s == "" || s == "-" then some [] else
  (splitOn s ';').mapM (fun t =>
    match splitOn t ':' with
    | [a, b, c] => do let x ← a.toInt?; let y ← b.toInt?; let z ← c.toInt?; some (x, y, z)
    | _ => none)

/-- `idx,hex(token),pair;…` -/
def parseEntriesS (s : String) : Option (List EntryS) :=
  if s == "" || s == "-" then some [] else
  (splitOn s ';').mapM (fun t =>
    match splitOn t ',' with
    | [a, b, c] => do let x ← a.toInt?; let y ← unhex b; let z ← c.toInt?; some ⟨x, y, z⟩
    | _ => none)

def showEntriesS (es : List EntryS) : String :=
  ";".intercalate (es.map (fun e => s!"{e.idx},{hex e.tok},{e.pair}"))

def showDB (r : List Char × List Char × List (Nat × Nat)) : String :=
  hexL r.1 ++ " " ++ hexL r.2.1 ++ " " ++ showPairs r.2.2

def showStrands (ss : List StrandS) : String :=
  ";".intercalate (ss.map (fun s =>
    s!"{s.first}:{s.last}:{hexL s.seq}:{hexL s.str}"))

/-- `hex(header)|*,hex(seq),hex(str);…` (`*` = no header line) -/
def parseRecords (s : String) : Option (List Record) :=
  if s == "" || s == "-" then some [] else
  (splitOn s ';').mapM (fun t =>
    match splitOn t ',' with
    | [h, a, b] => do
      let hd ← (if h == "*" then some none else (unhex h).map (fun x => some x.toList))
      let x ← unhex a; let y ← unhex b
      some ⟨hd, x.toList, y.toList⟩
    | _ => none)

def handle (op : String) (a : List String) : Option String :=
  match op, a with
  | "ss.mkdbw", [n, regs, orders] => do
      let n ← n.toNat?; let rs ← parseRegionsZ regs; let os ← parseIntList orders
      some (showExcept (fun cs => String.ofList cs) (mkDBwZ n rs os))
  | "ss.print", [es] => (parseEntriesS es).map (fun l => hex (printBpseqS l))
  | "ss.parse", [t] => (unhex t).map (fun s =>
      showExcept (fun r => showEntriesS r.1 ++ "|" ++ toString r.2) (parseBpseqW s))
  | "ss.wf", [es] => (parseEntriesS es).map (fun l => toString (wellFormedEntries l))
  | "ss.dbstr", [s, t] => do
      let x ← unhex s; let y ← unhex t
      some (showExcept showDB (dbFromString x.toList y.toList))
  | "ss.dbfile", [t] => (unhex t).map (fun s => showExcept showDB (dbFromFile s.toList))
  | "ss.dbprint", [s, t] => do
      let x ← unhex s; let y ← unhex t
      some (hexL (printDB x.toList y.toList))
  | "ss.multi", [t] => (unhex t).map (fun s => showExcept showStrands (parseMulti s.toList))
  | "ss.printmulti", [rs] => (parseRecords rs).map (fun l =>
      hexL (printMulti l) ++ " " ++ toString (wellFormedRecords l) ++ " " ++ showStrands (number l 1))
  | _, _ => none

end RnaVerif.Driver.GlueOps

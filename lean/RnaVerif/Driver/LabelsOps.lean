import RnaVerif.Driver.Proto
import RnaVerif.Model.Labels
/-! driver ops for the FR3D / DSSR label model (`lab.*`).

Text arguments are hex of the UTF-8 bytes (`-` = empty string, `~` = Python `None`).
A residue is `chain.number.icode.name` with hex fields; an interaction `res>res>tag:member`. -/
namespace RnaVerif.Driver.LabelsOps
open RnaVerif RnaVerif.Labels RnaVerif.Proto

def dec (s : String) : Option String := if s == "-" then some "" else fromHex s
def enc (s : String) : String := if s == "" then "-" else toHex s
def decOpt (s : String) : Option (Option String) := if s == "~" then some none else (dec s).map some
def encOpt : Option String → String
  | none => "~"
  | some s => enc s

def showCat (c : Category) : String := c.tag ++ ":" ++ c.member

def showRes (r : Residue) : String :=
  enc r.chain ++ "." ++ toString r.number ++ "." ++ encOpt r.icode ++ "." ++ enc r.name

def readRes (s : String) : Option Residue :=
  match splitOn s '.' with
  | [c, n, i, m] => do
    let c ← dec c; let n ← n.toInt?; let i ← decOpt i; let m ← dec m
    some ⟨c, n, i, m⟩
  | _ => none

def readList {α} (f : String → Option α) (sep : Char) (s : String) : Option (List α) :=
  if s == "" then some [] else (splitOn s sep).mapM f

def showInter (i : Interaction) : String := showRes i.nt1 ++ ">" ++ showRes i.nt2 ++ ">" ++ showCat i.cat

def showListing (l : Listing) : String :=
  ";".intercalate ([l.basePairs, l.stackings, l.baseRibose, l.basePhosphate, l.other].map
    (fun xs => ",".intercalate (xs.map showInter)))

def showErr {α} (f : α → String) : Except Err α → String
  | .ok a => "ok " ++ f a
  | .error e => "err " ++ e.toString

/-- `nt1:nt2:lw` (each `~` or hex) -/
def readPair (s : String) : Option DssrPair :=
  match splitOn s ':' with
  | [a, b, c] => do
    let a ← decOpt a; let b ← decOpt b; let c ← decOpt c
    some ⟨a, b, c⟩
  | _ => none

/-- `pairs;stacks` -/
def readParams (s : String) : Option DssrParams :=
  match splitOn s ';' with
  | [p, k] => do
    let ps ← readList readPair ',' p
    let ks ← readList dec ',' k
    some ⟨ps, ks⟩
  | _ => none

def readOptInt (s : String) : Option (Option Int) := if s == "~" then some none else s.toInt?.map some

/-- `~` (no "models" key) or `/`-separated `num@params` -/
def readModels (s : String) : Option (Option (List (Option Int × DssrParams))) :=
  if s == "~" then some none
  else (readList (fun e => match splitOn e '@' with
      | [n, p] => do let n ← readOptInt n; let p ← readParams p; some (n, p)
      | _ => none) '/' s).map some

def handle (op : String) (a : List String) : Option String :=
  match op, a with
  | "lab.unify", [h] => (dec h).map (fun s => showCat (unify s))
  | "lab.unifymany", [hs] => (readList dec ',' hs).map (fun l => ",".intercalate (l.map (fun s => showCat (unify s))))
  | "lab.int", [h] => (dec h).map (fun s => showErr toString (pyInt s.toList))
  | "lab.unit", [h] => (dec h).map (fun s => showErr showRes (parseUnitId s))
  | "lab.strip", [h] => (dec h).map (fun s => enc (String.ofList (pyStrip s.toList)))
  | "lab.line", [h] => (dec h).map (fun s =>
      match processLine s with
      | .added i => "added " ++ showInter i ++ " " ++ (fieldOf i.cat).getD "~"
      | .skipped => "skipped"
      | .raised e => "raised " ++ e.toString)
  | "lab.listing", [h] => (dec h).map (fun s => showErr showListing (parseListing s))
  | "lab.fullname", [r] => (readRes r).map (fun r => enc (fullName r))
  | "lab.dssr", [st, model, top, models] => do
      let st ← readList readRes ',' st
      let model ← readOptInt model
      let top ← readParams top
      let models ← readModels models
      some (showErr (fun (r : List PairOut × List StackOut) =>
          ",".intercalate (r.1.map (fun (x, y, c) => showRes x ++ ">" ++ showRes y ++ ">" ++ c)) ++ ";" ++
          ",".intercalate (r.2.map (fun (x, y) => showRes x ++ ">" ++ showRes y)))
        (parseDssr st ⟨top, models⟩ model))
  | _, _ => none

end RnaVerif.Driver.LabelsOps

import RnaVerif.Driver.Proto
import RnaVerif.Model.Mapping
/-! driver ops for M2 (`map.*`): the 3D → 2D mapping model and the C06 specification predicates

Encodings: nucleotides `chainhex:number:icodehex:lettercode:conn` joined by `;` (`-` = empty);
pair records `r1:r2:lw:sa` joined by `,` (`-` = dangling residue / no Saenger class; `lw`, `sa` are
indices into `Gen.mapLwNames` / `Gen.mapSaengerNames`); BPSEQ = hex of the sequence + comma list of
partners. -/
namespace RnaVerif.Driver.MappingOps
open RnaVerif RnaVerif.Mapping RnaVerif.Proto

def unhex (s : String) : Option String := if s == "-" || s == "" then some "" else fromHex s

def hexOf (s : String) : String := if s == "" then "-" else toHex s

def parseNt (s : String) : Option Nt :=
  match splitOn s ':' with
  | [c, n, ic, l, cn] => do
    let c ← unhex c; let n ← n.toInt?; let ic ← unhex ic; let l ← l.toNat?
    some ⟨c.toList, n, ic.toList, Char.ofNat l, cn == "1"⟩
  | _ => none

def parseNts (s : String) : Option (List Nt) :=
  if s == "-" || s == "" then some [] else (splitOn s ';').mapM parseNt

def optNat (s : String) : Option (Option Nat) := if s == "-" then some none else s.toNat?.map some

def parsePair (s : String) : Option PairIn :=
  match splitOn s ':' with
  | [a, b, lw, sa] => do
    let a ← optNat a; let b ← optNat b; let lw ← lw.toNat?; let sa ← optNat sa
    some ⟨a, b, lw, sa⟩
  | _ => none

def parsePairs (s : String) : Option (List PairIn) :=
  if s == "-" || s == "" then some [] else (splitOn s ',').mapM parsePair

def parseBpseq (seqhex ps : String) : Option (List Entry) := do
  let seq ← unhex seqhex
  parseEntries seq ps

def showBpseq (es : List Entry) : String :=
  hexOf (String.ofList (es.map (·.ch))) ++ " " ++ showNatList (es.map (·.pair))

def showBP (b : BP) : String :=
  s!"{b.i}:{b.j}:{b.lw}:" ++ (match b.sa with | some s => toString s | none => "-")

def parseRat (s : String) : Option Rat :=
  match splitOn s '/' with
  | [a] => a.toInt?.map (fun n => (n : Rat))
  | [a, b] => do let n ← a.toInt?; let d ← b.toNat?; if d == 0 then none else some ((n : Rat) / (d : Rat))
  | _ => none

/-- `chainhex=seqhex=db;…` -/
def parseStrands (s : String) : Option (List (List Char × List Char)) :=
  if s == "-" || s == "" then some [] else
  (splitOn s ';').mapM (fun t =>
    match splitOn t '=' with
    | [_, q, d] => do let q ← unhex q; let d ← unhex d; some (q.toList, d.toList)
    | _ => none)

/-- `lw=text;…` -/
def parseRows (s : String) : Option (List (Nat × List Char)) :=
  if s == "-" || s == "" then some [] else
  (splitOn s ';').mapM (fun t =>
    match splitOn t '=' with
    | [lw, d] => do let lw ← lw.toNat?; some (lw, d.toList)
    | _ => none)

def handle (op : String) (a : List String) : Option String :=
  match op, a with
  | "map.model", [fg, nts, ps] => do
      let nts ← parseNts nts; let inp ← parsePairs ps
      let fg := fg == "1"
      let lifted := liftPairs nts.length inp
      let canon := canonicalPairs nts lifted
      let tie := resolveTie nts canon.length canon
      let rows := extRows Gen.mapExtRowLimit fg nts inp
      some ("|".intercalate [
        showBpseq (bpseq fg nts inp),
        ";".intercalate ((strandSequences fg nts).map (fun s => hexOf (String.ofList s.1) ++ "=" ++ hexOf (String.ofList s.2))),
        (if tie then "1" else "0"),
        ";".intercalate (rows.map (fun (lw, es) => s!"{lw}=" ++ showNatList (es.map (·.pair)))),
        ",".intercalate (lifted.map showBP)])
  | "map.rowmatch", [seqhex, ps, text] => do
      let es ← parseBpseq seqhex ps
      some (toString (matchesModuloLevels es text.toList))
  | "map.text", [fg, nts, db] => do
      let nts ← parseNts nts
      some (hexOf (dotBracketText (fg == "1") nts db.toList))
  | "map.conn", [d2] =>
      if d2 == "-" then some (toString (isConnected none)) else (parseRat d2).map (fun d => toString (isConnected (some d)))
  | "map.spec_bpseq", [fg, nts, ps, seqhex, partners] => do
      let nts ← parseNts nts; let inp ← parsePairs ps; let es ← parseBpseq seqhex partners
      some (specBpseq (fg == "1") nts inp es)
  | "map.spec_text", [seqhex, partners, strands] => do
      let es ← parseBpseq seqhex partners; let st ← parseStrands strands
      some (specText es st)
  | "map.spec_ext", [fg, nts, ps, rows] => do
      let nts ← parseNts nts; let inp ← parsePairs ps; let rows ← parseRows rows
      some (specExt (fg == "1") nts inp rows)
  | _, _ => none

end RnaVerif.Driver.MappingOps

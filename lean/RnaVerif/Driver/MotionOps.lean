import RnaVerif.Driver.PairsOps
import RnaVerif.Model.Motion
/-! driver ops for C05 (`c05.*`): margins of every decision quantity of one presentation, and an executable
replay of the invariance theorems for an exact rational motion.

Structure argument as in `pairs.*` (Driver/PairsOps.lean). -/
namespace RnaVerif.Driver.MotionOps
open RnaVerif RnaVerif.Proto RnaVerif.Pairs RnaVerif.Driver.PairsOps

def toStk (r : Pairs.Res) : Stacking.Res :=
  ⟨r.model, r.chain, r.number, if r.icode == " " then "" else r.icode, r.base, r.atoms.map (fun a => ⟨a.name, a.pos⟩)⟩

/-- donor–oxygen contacts that `find_pairs` can consume (a class exists), both kinds -/
def consumable (s : Array Res) : List BContact :=
  (bcontacts Params.gen Params.gen.phosphateAcceptors s ++ bcontacts Params.gen Params.gen.riboseAcceptors s).filter
    (fun c => !c.classes.isEmpty)

/-- atoms (residue position, name) that take part in at least two consumable contacts: which contact consumes the
atom depends on the iteration order of the set returned by `KDTree.query_pairs` -/
def contested (s : Array Res) : List (Nat × String) :=
  let atoms := (consumable s).flatMap (fun c => [(c.d, c.dn), (c.a, c.an)])
  (atoms.eraseDups).filter (fun a => atoms.count a ≥ 2)

def showContested (l : List (Nat × String)) : String :=
  if l.isEmpty then "-" else ",".intercalate (l.map (fun a => s!"{a.1}:{toHex a.2}"))

def margins (s : Array Res) : String :=
  let cs := contacts Params.gen s
  let undC := (cs.filter (fun c => c.tri == .undecided)).length
  let pairsIJ := (cs.map (fun c => (c.i, c.j))).eraseDups
  let undT := (pairsIJ.filter (fun p => match s[p.1]?, s[p.2]? with
    | some ri, some rj => cisTri Params.gen ri rj == some .undecided
    | _, _ => false)).length
  let bundOf (names : List String) : Nat :=
    ((bcontacts Params.gen names s).filter (fun c => c.tri == .undecided || c.classes.length ≥ 2)).length
  let undP := bundOf Params.gen.phosphateAcceptors
  let undR := bundOf Params.gen.riboseAcceptors
  let undS := (Stacking.undecided none (s.toList.map toStk)).length
  let undN := Connect.undecided s.toList
  let yes := cs.filter (fun c => c.tri == .yes)
  let labsAll := modelLabels Params.gen s yes
  let labsBB := modelLabels Params.gen s (yes.filter (fun c => !c.sp))
  let cand := (dedupL labsAll).filter (fun l => labsAll.count l ≥ Params.gen.minCount)
  let stable := cand.all (fun l => labsBB.count l == labsAll.count l) &&
    ((dedupL labsBB).filter (fun l => labsBB.count l ≥ Params.gen.minCount)).length == cand.length
  let tied := !(noTiedConflicts Params.gen labsAll)
  let cont := contested s
  s!"und={undC + undT + undP + undR + undS + undN};contact={undC};torsion={undT};bph={undP};br={undR};stk={undS};conn={undN};" ++
  s!"tied={tied};stable={stable};cand={cand.length};contested={showContested cont}"

def parseM3 (a : List String) : Option (M3 Rat) :=
  match a.mapM parseRat with
  | some [a, b, c, d, e, f, g, h, i] => some ⟨⟨a, b, c⟩, ⟨d, e, f⟩, ⟨g, h, i⟩⟩
  | _ => none

/-- compare the model's answers on a structure and on its exact image under `p ↦ R p + t` -/
def replayMotion (s : Array Res) (R : M3 Rat) (t : Q3) : String :=
  let s' := moveStruct R t s
  let showC (l : List Contact) := l.map showContact
  let showB (l : List BContact) := l.map (fun c => s!"{c.d},{c.a},{c.dn},{c.an},{c.tri.toString},{showNatList c.classes}")
  let c1 := contacts Params.gen s; let c2 := contacts Params.gen s'
  let sameC := showC c1 == showC c2
  let sameP := (modelPairs Params.gen s c1).map showLabel == (modelPairs Params.gen s' c2).map showLabel
  let sameB := showB (bcontacts Params.gen Params.gen.phosphateAcceptors s) == showB (bcontacts Params.gen Params.gen.phosphateAcceptors s') &&
    showB (bcontacts Params.gen Params.gen.riboseAcceptors s) == showB (bcontacts Params.gen Params.gen.riboseAcceptors s')
  let l := s.toList.map toStk; let l' := s'.toList.map toStk
  let view (x : List Stacking.Stk) := x.map (fun k => (k.r1.idx, k.r2.idx, k.topo.toString))
  let sameS := view (Stacking.stackings none l) == view (Stacking.stackings none l') &&
    (Stacking.undecided none l).map (fun p => (p.1.idx, p.2.idx)) == (Stacking.undecided none l').map (fun p => (p.1.idx, p.2.idx))
  let sameN := Connect.undecided s.toList == Connect.undecided s'.toList
  s!"proper={M3.isProper R};mirror={M3.isMirror R};contacts={sameC};pairs={sameP};bcontacts={sameB};stackings={sameS};conn={sameN};n={c1.length}"

def handle (op : String) (a : List String) : Option String :=
  match op, a with
  | "c05.margins", [st] => do
      let s ← parseStructure st
      some (margins s)
  | "c05.motion", [st, m, tr] => do
      -- m = nine rationals (rows) separated by `,`; tr = three rationals
      let s ← parseStructure st
      let R ← parseM3 (splitOn m ',')
      let t ← match (splitOn tr ',').mapM parseRat with
        | some [x, y, z] => some (⟨x, y, z⟩ : Q3)
        | _ => none
      some (replayMotion s R t)
  | "c05.consts", [] =>
      some s!"nucl={Gen.nuclConnThreshold.num}/{Gen.nuclConnThreshold.den};link={(Gen.mapConnFactor * Gen.mapConnOP).num}/{(Gen.mapConnFactor * Gen.mapConnOP).den}"
  | _, _ => none

end RnaVerif.Driver.MotionOps

import RnaVerif.Driver.Proto
import RnaVerif.Model.Pairs
/-! driver ops for the exact decision layer of `find_pairs` (`pairs.*`, C03) and for the interaction-list
well-formedness checks (`ann.*`, C11).

Structure argument `S`: residues joined by `;`, each
`model|chainHex|number|icodeHex|labHex|authHex|baseHex|atoms`, `~` for an absent label/auth, atoms joined
by `,`, each `nameHex:x:y:z` with exact rationals `num/den` or `num`. -/
namespace RnaVerif.Driver.PairsOps
open RnaVerif RnaVerif.Proto RnaVerif.Pairs

def unhex (s : String) : Option String := if s == "" then some "" else fromHex s

def parseRat (s : String) : Option Rat :=
  match splitOn s '/' with
  | [n] => n.toInt?.map (fun z => (z : Rat))
  | [n, d] => do
    let z ← n.toInt?; let k ← d.toNat?
    if k == 0 then none else some (mkRat z k)
  | _ => none

def parseV3 (x y z : String) : Option Q3 := do
  let a ← parseRat x; let b ← parseRat y; let c ← parseRat z
  some ⟨a, b, c⟩

def parseAtom (s : String) : Option Atom :=
  match splitOn s ':' with
  | [n, x, y, z] => do
    let name ← unhex n; let p ← parseV3 x y z
    some ⟨name, p⟩
  | _ => none

def parseOptId (s : String) : Option (Option String) :=
  if s == "~" then some none else (unhex s).map some

def parseRes (s : String) : Option Res :=
  match splitOn s '|' with
  | [m, ch, num, ic, lab, auth, base, atoms] => do
    let m ← m.toInt?; let ch ← unhex ch; let num ← num.toInt?; let ic ← unhex ic
    let lab ← parseOptId lab; let auth ← parseOptId auth; let base ← unhex base
    let ats ← if atoms == "" then some [] else (splitOn atoms ',').mapM parseAtom
    some ⟨m, ch, num, ic, lab, auth, base, ats⟩
  | _ => none

def parseStructure (s : String) : Option (Array Res) :=
  if s == "" || s == "-" then some #[] else ((splitOn s ';').mapM parseRes).map List.toArray

def parseLW (s : String) : Option (Bool × Char × Char) :=
  match s.toList with
  | [c, e1, e2] => if c == 'c' then some (true, e1, e2) else if c == 't' then some (false, e1, e2) else none
  | _ => none

def parseReported (s : String) : Option (List Reported) :=
  if s == "" || s == "-" then some [] else
  (splitOn s ',').mapM (fun t =>
    match splitOn t '-' with
    | [i, j, lw] => do
      let i ← i.toNat?; let j ← j.toNat?; let (c, e1, e2) ← parseLW lw
      some ⟨i, j, c, e1, e2⟩
    | _ => none)

def parseRepB (s : String) : Option (List RepB) :=
  if s == "" || s == "-" then some [] else
  (splitOn s ',').mapM (fun t =>
    match splitOn t '-' with
    | [d, a, k] => do
      let d ← d.toNat?; let a ← a.toNat?; let k ← k.toNat?
      some ⟨d, a, k⟩
    | _ => none)

def showVerdict (v : Verdict) : String :=
  let head := if v.fails.isEmpty then "ok" else "fail"
  ";".intercalate ([head, s!"und={v.undecided}"] ++ v.notes ++ v.fails.map (fun f => "F:" ++ f))

def showContact (c : Contact) : String :=
  s!"{c.i},{c.j},{toHex c.a},{toHex c.b},{String.ofList c.ea},{String.ofList c.eb},{c.tri.toString},{c.sp}"

def showLabel (l : Label) : String := s!"{l.lo}-{l.hi}-{l.lwName}"

def showCis : Option Tri → String
  | none => "none"
  | some .yes => "c"
  | some .no => "t"
  | some .undecided => "undecided"

/-- the model's own annotation from every decided contact (canonical `most_common` order).
`det` = the implementation has no freedom: no undecided contact or torsion, every candidate label has
the same count with and without the contacts through O2' (so it does not matter which of those reach the
base-base stage), and no two competing candidates tie -/
def modelAnnotation (s : Array Res) : String :=
  let cs := contacts Params.gen s
  let yes := cs.filter (fun c => c.tri == .yes)
  let labsAll := modelLabels Params.gen s yes
  let labsBB := modelLabels Params.gen s (yes.filter (fun c => !c.sp))
  let cand := (dedupL labsAll).filter (fun l => labsAll.count l ≥ Params.gen.minCount)
  let stable := cand.all (fun l => labsBB.count l == labsAll.count l)
  let undC := cs.any (fun c => c.tri == .undecided)
  let undT := cs.any (fun c => match s[c.i]?, s[c.j]? with
    | some ri, some rj => cisTri Params.gen ri rj == some .undecided
    | _, _ => false)
  let det := !undC && !undT && stable && noTiedConflicts Params.gen labsAll
  s!"det={det};cand={cand.length};pairs=" ++ ",".intercalate ((modelPairs Params.gen s yes).map showLabel)

def parseRKey (c n i : String) : Option RKey := do
  let c ← unhex c; let n ← n.toInt?; let i ← unhex i
  some ⟨c, n, i⟩

def parseRow (s : String) : Option Row :=
  match splitOn s ':' with
  | [c1, n1, i1, c2, n2, i2, b1, b2, cls, sae] => do
    let k1 ← parseRKey c1 n1 i1; let k2 ← parseRKey c2 n2 i2
    let b1 ← unhex b1; let b2 ← unhex b2
    some ⟨k1, k2, b1, b2, cls, if sae == "~" then none else some sae⟩
  | _ => none

def parseRows (s : String) : Option (List Row) :=
  if s == "" || s == "-" then some [] else (splitOn s ',').mapM parseRow

def showFails (l : List String) : String := if l.isEmpty then "ok" else "fail;" ++ ";".intercalate l

def handle (op : String) (a : List String) : Option String :=
  match op, a with
  | "pairs.check", [st, rep] => do
      let s ← parseStructure st; let r ← parseReported rep
      some (showVerdict (specPairs Params.spec s r))
  | "pairs.contacts", [st] => do
      let s ← parseStructure st
      some ("|".intercalate ((contacts Params.spec s).map showContact))
  | "pairs.prefilter", [st] => do
      let s ← parseStructure st
      let a := (contacts Params.spec s).map showContact
      let b := (contactsAll Params.spec s).map showContact
      some (if a == b then s!"same {a.length}" else s!"differ {a.length} {b.length}")
  | "pairs.cis", [st, i, j] => do
      let s ← parseStructure st; let i ← i.toNat?; let j ← j.toNat?
      let ri ← s[i]?; let rj ← s[j]?
      some (showCis (cisTri Params.spec ri rj))
  | "pairs.model", [st] => do
      let s ← parseStructure st
      some (modelAnnotation s)
  | "pairs.greedy", [labs, order] => do
      -- labels `lo-hi-lw,...`; order "mc" (most_common) or "rev" (reverse of it) or "in" (as listed, distinct)
      let ls ← parseReported labs
      let ls : List Label := ls.map (fun p => ⟨p.i, p.j, p.cis, p.e1, p.e2⟩)
      let ord := if order == "mc" then mostCommonOrder ls
                 else if order == "rev" then (mostCommonOrder ls).reverse else dedupL ls
      some (s!"det={noTiedConflicts Params.gen ls};" ++ ",".intercalate ((greedyOccupy Params.gen ord ls).map showLabel))
  | "ann.bph", [st, kind, rep] => do
      let s ← parseStructure st; let r ← parseRepB rep
      let names ← if kind == "bph" then some Params.spec.phosphateAcceptors
                  else if kind == "br" then some Params.spec.riboseAcceptors else none
      some (showVerdict (specBph Params.spec kind names s r))
  | "ann.bcontacts", [st, kind] => do
      let s ← parseStructure st
      let names ← if kind == "bph" then some Params.spec.phosphateAcceptors
                  else if kind == "br" then some Params.spec.riboseAcceptors else none
      some ("|".intercalate ((bcontacts Params.spec names s).map (fun c =>
        s!"{c.d},{c.a},{toHex c.dn},{toHex c.an},{c.tri.toString},{showNatList c.classes}")))
  | "ann.bphclass", [res, donor, x, y, z] => do
      let r ← parseRes res; let dn ← unhex donor; let ap ← parseV3 x y z
      match findAtom r dn with
      | some dp => some (showNatList (bphClasses Params.gen r dn dp ap))
      | none => some "no-donor"
  | "ann.merge", [rows] => do
      let ps ← if rows == "" || rows == "-" then some [] else
        (splitOn rows ',').mapM (fun t => match splitOn t ':' with
          | [k, c] => do let k ← k.toNat?; let c ← c.toNat?; some (k, c)
          | _ => none)
      some (";".intercalate ((mergeClean Params.gen ps).map (fun e => s!"{e.1}:{showNatList e.2}")))
  | "ann.implied", [cs, k] => do
      -- C11 spec: is class k implied by the classes cs of the donor atoms in contact (pinned rules)?
      let cs ← parseNatList cs; let k ← k.toNat?
      some (toString (impliedBy Params.spec cs k))
  | "ann.wf", [rows] => do
      let rs ← parseRows rows
      some (showFails (specWF rs))
  | "ann.saenger", [rows] => do
      let rs ← parseRows rows
      some (showFails (specSaenger rs))
  | "ann.saenger1", [b1, b2, lw] => do
      let b1 ← unhex b1; let b2 ← unhex b2
      match b1.toList, b2.toList with
      | [c1], [c2] =>
        let fwd := saenger c1 c2 lw
        let bwd := (lwReverse lw).bind (saenger c2 c1)
        some (s!"{fwd.getD "~"} {bwd.getD "~"}")
      | _, _ => some "~ ~"
  | _, _ => none

end RnaVerif.Driver.PairsOps

import RnaVerif.Driver.Proto
import RnaVerif.Model.Pdb
import RnaVerif.Model.Fit
/-! driver ops for M6/M7 (`pdb.*`, `fit.*`).

A row is one argument: 16 comma-separated fields in the order of `Field.all`; text fields hex-encoded
(`-` = empty), numbers decimal integers (fixed point: coordinates ×1000, occupancy / B ×100). -/
namespace RnaVerif.Driver.PdbOps
open RnaVerif RnaVerif.Proto RnaVerif.Pdb

def unhex (s : String) : Option Str :=
  if s == "-" || s == "" then some [] else (fromHex s).map (·.toList)

def hex (s : Str) : String := if s.isEmpty then "-" else toHex (String.ofList s)

def parseRow (s : String) : Option Atom :=
  match splitOn s ',' with
  | [rec, ser, nm, alt, rn, ch, rs, ic, x, y, z, oc, b, el, cg, md] => do
    some { record := ← unhex rec, serial := ← ser.toInt?, name := ← unhex nm, altLoc := ← unhex alt,
           resName := ← unhex rn, chain := ← unhex ch, resSeq := ← rs.toInt?, iCode := ← unhex ic,
           x := ← x.toInt?, y := ← y.toInt?, z := ← z.toInt?, occ := ← oc.toInt?, b := ← b.toInt?,
           element := ← unhex el, charge := ← unhex cg, model := ← md.toInt? }
  | _ => none

def showRow (a : Atom) : String :=
  ",".intercalate [hex a.record, toString a.serial, hex a.name, hex a.altLoc, hex a.resName, hex a.chain,
    toString a.resSeq, hex a.iCode, toString a.x, toString a.y, toString a.z, toString a.occ, toString a.b,
    hex a.element, hex a.charge, toString a.model]

def showOptRow : Option Atom → String
  | some a => showRow a
  | none => "none"

def showLines (ls : List Str) : String := ",".intercalate (ls.map hex)

def showKind : Kind → String
  | .model m => s!"M{m}"
  | .endmdl => "E"
  | .ter c => s!"T{hex c}"
  | .atom m c => s!"A{m}:{hex c}"
  | .fin => "F"

def parseKind (s : String) : Option Kind :=
  match s.toList with
  | ['E'] => some .endmdl
  | ['F'] => some .fin
  | 'M' :: r => (String.ofList r).toInt?.map .model
  | 'T' :: r => (unhex (String.ofList r)).map .ter
  | 'A' :: r =>
    match splitOn (String.ofList r) ':' with
    | [m, c] => do some (.atom (← m.toInt?) (← unhex c))
    | _ => none
  | _ => none

def stateName : DocState → String
  | .outside => "outside" | .opened _ => "after-MODEL" | .inChain _ _ => "inside-chain"
  | .closedChain _ => "after-TER" | .done => "after-END"

def kindName : Kind → String
  | .model _ => "MODEL" | .endmdl => "ENDMDL" | .ter _ => "TER" | .atom _ _ => "ATOM" | .fin => "END"

/-- `ok`, or where the acceptor `docStep` stops: `fail:<state>:<record>` -/
def runTrace : DocState → List Kind → String
  | s, [] => if s == .done then "ok" else "fail:" ++ stateName s ++ ":end-of-text"
  | s, k :: ks => match docStep s k with
    | some s' => runTrace s' ks
    | none => "fail:" ++ stateName s ++ ":" ++ kindName k

def showTable (t : List Atom) : String := ";".intercalate (t.map showRow)

def showExceptTable : Except Err (List Atom) → String
  | .ok t => "ok " ++ showTable t
  | .error e => "err " ++ e.toString

def parseFmt (s : String) : Option Fit.Format :=
  if s == "PDB" then some .pdb else if s == "mmCIF" then some .cif else none

def handle (op : String) (a : List String) : Option String :=
  match op, a with
  | "pdb.format", [r] => (parseRow r).map (fun x => hex (formatAtom x))
  | "pdb.ter", [r] => (parseRow r).map (fun x => hex (formatTer x))
  | "pdb.within", [r] => (parseRow r).map (fun x => toString (withinPdbLimits x))
  | "pdb.write", rows => (rows.mapM parseRow).map (fun t => showLines (writePdb t))
  | "pdb.writefixed", rows => (rows.mapM parseRow).map (fun t => showLines (writePdbFixed t))
  | "pdb.kinds", rows => (rows.mapM parseRow).map (fun t =>
      " ".intercalate ((writePdbLines t).map (fun l => showKind l.kind)))
  | "pdb.kindsfixed", rows => (rows.mapM parseRow).map (fun t =>
      " ".intercalate ((writePdbLinesFixed t).map (fun l => showKind l.kind)))
  | "pdb.bracketed", ks => (ks.mapM parseKind).map (fun k =>
      if wellBracketed k then "ok" else runTrace .outside k)
  | "pdb.parse", [m, l] => do
      let m ← m.toInt?; let l ← unhex l
      some (showOptRow (parseAtomV2 m l))
  | "pdb.parsedoc", ls => (ls.mapM unhex).map (fun d => ";".intercalate ((parsePdb d).map showOptRow))
  | "pdb.tocif", [fx, r] => (parseRow r).map (fun x =>
      showLines (if fx == "code" then toCifRowCode x else toCifRow (fx == "1") x))
  | "pdb.ofcif", [attrs, toks] => do
      let row ← (splitOn toks ',').mapM unhex
      some (showOptRow (ofCifRow (splitOn attrs ',') row))
  | "fit.canwrite", fmt :: rows => do
      let f ← parseFmt fmt; let t ← rows.mapM parseRow
      some (toString (Fit.canWritePdb f t))
  | "fit.fit", fmt :: rows => do
      let f ← parseFmt fmt; let t ← rows.mapM parseRow
      some (showExceptTable (Fit.fitToPdb f t))
  | "fit.spec", fmt :: rows => do
      -- first half of the rows: the input table, second half: the table the implementation returned
      let f ← parseFmt fmt; let t ← rows.mapM parseRow
      let n := t.length / 2
      some (Fit.specCheck f (t.take n) (t.drop n))
  | "fit.refuses", fmt :: rows => do
      let f ← parseFmt fmt; let t ← rows.mapM parseRow
      some (toString (Fit.refuses f t))
  | _, _ => none

end RnaVerif.Driver.PdbOps

import RnaVerif.Driver.Proto
import RnaVerif.Model.PdbV1
/-! driver ops for the reader-v1 part of M6 (`pdb1.*`).

Text arguments are hex-encoded (`-` = empty string, `~` = absent).  Residues are printed as
`model,LABEL,AUTH@atom+atom+…` joined by `|`, with `LABEL = ~ | hex(chain):number:hex(name)`,
`AUTH = ~ | hex(chain):number:(~|hex(icode)):hex(name)`, `atom = hex(name),x,y,z,occ,entity` where numbers
are exact fractions `mantissa/10^k` and an absent occupancy / entity is `~`. -/
namespace RnaVerif.Driver.PdbV1Ops
open RnaVerif RnaVerif.PdbV1 RnaVerif.Proto

def hx (s : String) : String := if s.isEmpty then "-" else toHex s
def unhx (s : String) : Option String := if s == "-" then some "" else fromHex s
def hxo : Option String → String
  | none => "~"
  | some s => hx s
def unhxo (s : String) : Option (Option String) := if s == "~" then some none else (unhx s).map some

def showFrac (m : Int) (k : Nat) : String := s!"{m}/{10 ^ k}"

def showAtom (k ko : Nat) (t : Tok) : String :=
  let occ := match t.occ with | none => "~" | some o => showFrac o ko
  s!"{hx t.name},{showFrac t.x k},{showFrac t.y k},{showFrac t.z k},{occ},{hxo t.entity}"

def showLabel : Option Label → String
  | none => "~"
  | some l => s!"{hx l.chain}:{l.number}:{hx l.name}"

def showAuth : Option Auth → String
  | none => "~"
  | some a => s!"{hx a.chain}:{a.number}:{hxo a.icode}:{hx a.name}"

def showRes (k ko : Nat) (g : List Tok) : String :=
  match g with
  | [] => "empty"
  | h :: _ => s!"{h.model},{showLabel h.label},{showAuth h.auth}@" ++ "+".intercalate (g.map (showAtom k ko))

def showResidues (k ko : Nat) (r : List (List Tok)) : String := "|".intercalate (r.map (showRes k ko))

def parseReq (s : String) : Option (Option Int) := if s == "-" then some none else s.toInt?.map some

def runRaw (cfg : Cfg) (req : Option Int) (raw : Except Err (List RawTok)) : String :=
  match raw with
  | .error e => "err " ++ e.toString
  | .ok ts =>
    let (k, ko, toks) := toToks ts
    match read cfg (10 ^ k) req toks with
    | .error e => "err " ++ e.toString
    | .ok r => "ok " ++ showResidues k ko r

def parseCfg (s : String) : Option Cfg :=
  match s with
  | "code" => some codeCfg
  | "fixed" => some cfgFixed
  | "legacy" => some cfgLegacy
  | _ => none

/-- rows: `;`-separated, values `,`-separated hex -/
def parseRows (s : String) : Option (List (List String)) :=
  if s == "-" || s == "" then some [] else (splitOn s ';').mapM (fun r => (splitOn r ',').mapM unhx)

def parseTokRow (r : String) : Option RawTok :=
  match splitOn r ',' with
  | [model, ent, lch, lnum, lname, ach, anum, aic, aname, name, alt, occ, x, y, z, het] => do
    let model ← model.toInt?
    let ent ← unhxo ent
    let lch ← unhxo lch
    let lname ← unhxo lname
    let lnum ← (if lnum == "~" then some none else lnum.toInt?.map some)
    let ach ← unhxo ach
    let aname ← unhxo aname
    let anum ← (if anum == "~" then some none else anum.toInt?.map some)
    let aic ← unhxo aic
    let name ← unhx name
    let alt ← unhx alt
    let occ ← (if occ == "~" then some none else (pyFloat occ.toList).map some)
    let x ← pyFloat x.toList
    let y ← pyFloat y.toList
    let z ← pyFloat z.toList
    let label : Option Label := match lch, lnum, lname with
      | some c, some n, some m => some ⟨c, n, m⟩
      | _, _, _ => none
    let auth : Option Auth := match ach, anum, aname with
      | some c, some n, some m => some ⟨c, n, aic, m⟩
      | _, _, _ => none
    some { model := model, entity := ent, label := label, auth := auth, name := name, alt := alt, occ := occ,
           x := x, y := y, z := z, het := het == "1" }
  | _ => none

def parseToks (s : String) : Option (List RawTok) :=
  if s == "-" || s == "" then some [] else (splitOn s ';').mapM parseTokRow

def parseGroups (s : String) : Option (List (List Nat)) :=
  if s == "-" || s == "" then some [] else (splitOn s '|').mapM parseNatList

def distanceClause (c : String) : Bool := c == "close-pair-kept" || c == "atom-lost"

def specAnswer (req : Option Int) (raw : List RawTok) (groups : List (List Nat)) : String :=
  let (k, _, toks) := toToks raw
  let arr := toks.toArray
  if groups.any (fun g => g.any (fun i => decide (arr.size ≤ i))) then "bad-index" else
  let r := groups.map (fun g => g.map (fun i => arr[i]!))
  let rep := spec (10 ^ k) req toks r
  if rep.ok then "ok"
  else
    let c := rep.firstFail
    let detail :=
      if c == "atom-lost" then
        match targetModel req toks with
        | some m =>
          let lm := toks.filter (fun t => t.model == m)
          match toks.findIdx? (fun b => b.model == m && !excused (10 ^ k) r.flatten lm b) with
          | some i => s!":record={i}"
          | none => ""
        | none => ""
      else ""
    if distanceClause c && nearThreshold (10 ^ k) req toks then "undecided:" ++ c else "fail:" ++ c ++ detail

def showLine : Except Err LineV1 → String
  | .error e => "err " ++ e.toString
  | .ok .skip => "skip"
  | .ok (.model m) => s!"model {m}"
  | .ok (.atom t) =>
    let (k, ko, toks) := toToks [t]
    "atom " ++ showResidues k ko [toks]

def handle (op : String) (a : List String) : Option String :=
  match op, a with
  | "pdb1.attrs", [] => some (",".intercalate Gen.Parser.cifAttrs)
  | "pdb1.cfg", [] =>
      some s!"keyModel={codeCfg.keyModel} clashPerModel={codeCfg.clashPerModel} noneSafe={codeCfg.noneSafe} icodeNull={",".intercalate (Gen.Parser.cifIcodeNull.map hx)} occNull={",".intercalate (Gen.Parser.cifOccNull.map hx)} authNameFallback={Gen.Parser.cifAuthNameFallback}"
  | "pdb1.read", [cfg, req, text] => do
      let cfg ← parseCfg cfg; let req ← parseReq req; let text ← unhx text
      some (runRaw cfg req (parsePdb text.toList))
  | "pdb1.cif", [cfg, req, attrs, rows] => do
      let cfg ← parseCfg cfg; let req ← parseReq req; let rows ← parseRows rows
      let attrs := if attrs == "-" then [] else splitOn attrs ','
      some (runRaw cfg req (decodeCifRows Gen.Parser.cifIcodeNull Gen.Parser.cifOccNull Gen.Parser.cifAuthNameFallback attrs rows))
  | "pdb1.toks", [cfg, req, toks] => do
      let cfg ← parseCfg cfg; let req ← parseReq req; let raw ← parseToks toks
      some (runRaw cfg req (.ok raw))
  | "pdb1.spec", [req, toks, groups] => do
      let req ← parseReq req; let raw ← parseToks toks; let gs ← parseGroups groups
      some (specAnswer req raw gs)
  | "pdb1.near", [toks] => do
      let raw ← parseToks toks
      let (k, _, ts) := toToks raw
      some (toString (nearThresholdL (10 ^ k) ts))
  | "pdb1.parseline", [cur, line] => do
      let cur ← cur.toInt?; let line ← unhx line
      some (showLine (parseLineV1 cur line.toList))
  | "pdb1.fmt", [het, serial, name, alt, resn, chain, num, icode, x, y, z, occ] => do
      let name ← unhx name; let alt ← unhx alt; let resn ← unhx resn; let chain ← unhx chain; let icode ← unhx icode
      let a : PdbAtom := { het := het == "1", serial := (← serial.toNat?), name := name.toList,
                           alt := alt.toList.headD ' ', resName := resn.toList, chain := chain.toList.headD ' ',
                           num := (← num.toInt?), icode := icode.toList.headD ' ', x := (← x.toInt?), y := (← y.toInt?),
                           z := (← z.toInt?), occ := (← occ.toInt?), model := 1 }
      some (hx (str (formatAtom a)))
  | _, _ => none

end RnaVerif.Driver.PdbV1Ops

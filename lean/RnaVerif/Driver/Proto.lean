import RnaVerif.Model.SecStr
/-! Line-protocol helpers shared by the driver op modules (core only). -/
namespace RnaVerif.Proto

def splitOn (s : String) (sep : Char) : List String := s.split (· == sep) |>.toList.map (·.toString)

def parseNatList (s : String) : Option (List Nat) :=
  if s == "" || s == "-" then some [] else (splitOn s ',').mapM (·.toNat?)

def showNatList (l : List Nat) : String := ",".intercalate (l.map toString)

def parseIntList (s : String) : Option (List Int) :=
  if s == "" || s == "-" then some [] else (splitOn s ',').mapM (·.toInt?)

/-- entries from a sequence string and a comma list of partners (0 = unpaired), indices 1..N -/
def parseEntries (seq : String) (pairs : String) : Option (List Entry) := do
  let ps ← parseNatList pairs
  let cs := seq.toList
  if cs.length != ps.length then none
  else some ((List.range cs.length).map (fun k => ⟨k + 1, cs.getD k '?', ps.getD k 0⟩))

def showPairs (l : List (Nat × Nat)) : String :=
  ",".intercalate (l.map (fun p => s!"{p.1}-{p.2}"))

def showExcept {α} (f : α → String) : Except Err α → String
  | .ok a => "ok " ++ f a
  | .error e => "err " ++ e.toString

def hexDigit (n : Nat) : Char := if n < 10 then Char.ofNat (48 + n) else Char.ofNat (87 + n)

/-- hex of the UTF-8 bytes -/
def toHex (s : String) : String :=
  String.ofList (s.toUTF8.toList.flatMap (fun b => [hexDigit (b.toNat / 16), hexDigit (b.toNat % 16)]))

def hexVal (c : Char) : Option Nat :=
  if '0' ≤ c && c ≤ '9' then some (c.toNat - 48)
  else if 'a' ≤ c && c ≤ 'f' then some (c.toNat - 87)
  else if 'A' ≤ c && c ≤ 'F' then some (c.toNat - 55) else none

def fromHexBytes : List Char → Option (List UInt8)
  | [] => some []
  | [_] => none
  | a :: b :: rest => do
    let x ← hexVal a; let y ← hexVal b; let r ← fromHexBytes rest
    some (UInt8.ofNat (x * 16 + y) :: r)

def fromHex (s : String) : Option String := do
  let bs ← fromHexBytes s.toList
  String.fromUTF8? (ByteArray.mk bs.toArray)

end RnaVerif.Proto

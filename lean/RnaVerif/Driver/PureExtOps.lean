import RnaVerif.Driver.Proto
import RnaVerif.Driver.SecStrOps
import RnaVerif.Model.PureExt
/-! driver op for the extended BpSeq object model (`ss.history_ext`, C12) -/
namespace RnaVerif.Driver.PureExtOps
open RnaVerif RnaVerif.SecStr RnaVerif.Proto

/-- `ones` of a solver that returned the assignment written in the structure line `db`
(region index, level), in region order -/
def onesOfDB (es : List Entry) (db : List Char) : List (Nat × Nat) :=
  let lv := SecStrOps.levelsFromDB (regions es) db
  (List.range lv.length).filterMap (fun i => match lv.getD i none with
    | some t => some (i, t)
    | none => none)

/-- op names: the eight of `ss.history`, and
`convert_none` (solver argument `None`), `convert_raises`, `convert_notopt` (a present solver that
raises / reports a non-optimal status), `convert_default` (a working solver: it returns the
assignment of the structure line `db`, i.e. what the same solver gives a fresh object),
`sequence`, `pairs_dict`, `roundtrip`, `eq~SEQ~p1.p2.…` (`__eq__` against that structure) -/
def parseOp (es : List Entry) (db : String) (s : String) : Option OpX :=
  match s with
  | "str" => some (.base .str) | "pairs" => some (.base .pairs) | "dot_bracket" => some (.base .dotBracket)
  | "fcfs" => some (.base .fcfs) | "all_dot_brackets" => some (.base .allDB) | "elements" => some (.base .elements)
  | "without_isolated" => some (.base .withoutIsolated) | "without_pseudoknots" => some (.base .withoutPseudoknots)
  | "convert_none" => some (.convert false .raises)
  | "convert_raises" => some (.convert true .raises)
  | "convert_notopt" => some (.convert true .notOptimal)
  | "convert_default" =>
    if db.startsWith "err:" then none else some (.convert true (.optimal (onesOfDB es db.toList)))
  | "sequence" => some .sequence
  | "pairs_dict" => some .pairsDict
  | "roundtrip" => some .roundTrip
  | _ =>
    match splitOn s '~' with
    | ["eq", seq, ps] =>
      (parseEntries seq (",".intercalate (splitOn ps '.'))).map OpX.eq
    | _ => none

def handle (op : String) (a : List String) : Option String :=
  match op, a with
  | "ss.history_ext", [seq, ps, db, ops] => do
      -- like `ss.history`; `db` = structure line a fresh object's `dot_bracket` gives (or "err:<Name>")
      let es ← parseEntries seq ps
      let opt : List Entry → Except Err (List Char) := fun _ =>
        if db.startsWith "err:" then .error .other else .ok db.toList
      let ol ← (if ops == "-" then some [] else (splitOn ops ',').mapM (parseOp es db))
      some (";".intercalate ((runX opt (freshX es) ol).map (fun a => match a with
        | .text t => "ok:" ++ toHex t
        | .err e => "err:" ++ e.toString)))
  | _, _ => none

end RnaVerif.Driver.PureExtOps

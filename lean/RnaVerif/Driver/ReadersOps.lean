import RnaVerif.Driver.Proto
import RnaVerif.Driver.PdbOps
import RnaVerif.Model.Readers
/-! driver ops for the comparison of the two reader generations (`rd.*`, C15).

Text arguments are hex-encoded (`-` = empty).  A residue list is printed as residues joined by `|`, a residue as
`hex(chain):number:(~|hex(icode)):hex(name)@atom+atom+…`, an atom as `hex(name),x,y,z` with exact fractions `num/den`.
A report of one reader is

    res=<residues> seg=<segments> pairs=<pairs> chi=<chi>

* `seg`: segments joined by `;`, a segment = indices (into `res`) joined by `,`;
* `pairs`: for every two residues that follow each other in a chain sorted by (number, insertion code):
  `i-j:<connected v1 predicate>:<connected v2 predicate>:<squared O3'…P distance or ~>` joined by `,`;
* `chi`: per residue `~` (no χ / one-letter name not modelled), `deg`, or `sx sy tan²`, joined by `,`.
-/
namespace RnaVerif.Driver.ReadersOps
open RnaVerif RnaVerif.Proto RnaVerif.Readers

def hx (s : String) : String := if s.isEmpty then "-" else toHex s

def showRat (q : Rat) : String := s!"{q.num}/{q.den}"

def showAtom (a : RAtom) : String := s!"{hx a.name},{showRat a.pos.x},{showRat a.pos.y},{showRat a.pos.z}"

def showRes (r : Res) : String :=
  let ic := match r.icode with | none => "~" | some i => hx i
  s!"{hx r.chain}:{r.number}:{ic}:{hx r.name}@" ++ "+".intercalate (r.atoms.map showAtom)

def showResidues (rs : List Res) : String := if rs.isEmpty then "-" else "|".intercalate (rs.map showRes)

def showSegments (rs : List Res) (segs : List (List Res)) : String :=
  if segs.isEmpty then "-" else
    ";".intercalate (segs.map (fun g => ",".intercalate (g.map (fun r => toString (rs.idxOf r)))))

def consecutive : List Res → List (Res × Res)
  | a :: b :: rest => (a, b) :: consecutive (b :: rest)
  | _ => []

def showPairs (rs : List Res) : String :=
  let ps := (chainsOf rs).flatMap (fun c => consecutive ((rs.filter (fun r => r.chain == c)).mergeSort sortKeyLe))
  if ps.isEmpty then "-" else
    ",".intercalate (ps.map (fun (a, b) =>
      let d := match connDist2 Gen.Readers.v1ConnAtomPrev Gen.Readers.v1ConnAtomNext a b with
        | some q => showRat q
        | none => "~"
      s!"{rs.idxOf a}-{rs.idxOf b}:{isConnectedV1 a b}:{isConnectedV2 a b}:{d}"))

def showOut : Option Torsion.Out → String
  | none => "~"
  | some .degenerate => "deg"
  | some (.val sx sy t) => s!"{sx} {sy} " ++ (match t with | none => "inf" | some q => showRat q)

/-- `gen = 1`: χ as `Residue3D.chi` takes it (one-letter name by `oneLetterStd`); `gen = 2`: as `torsion_angles` does -/
def showChi (gen : Nat) (rs : List Res) : String :=
  if rs.isEmpty then "-" else
    ",".intercalate (rs.map (fun r =>
      if gen == 1 then
        match oneLetterStd r.name with
        | some l => showOut (chiV1 l r)
        | none => "~"
      else showOut (chiV2 r)))

def report (gen : Nat) (rs : List Res) : String :=
  let segs := if gen == 1 then segmentsV1 rs else segmentsV2 rs
  s!"res={showResidues rs} seg={showSegments rs segs} pairs={showPairs rs} chi={showChi gen rs}"

def reportE (gen : Nat) : Except Err (List Res) → String
  | .error e => "err " ++ e.toString
  | .ok rs => "ok " ++ report gen rs

def unhexRows (s : String) : Option (List (List Pdb.Str)) :=
  if s == "-" || s == "" then some [] else (splitOn s ';').mapM (fun r => (splitOn r ',').mapM PdbOps.unhex)

def handle (op : String) (a : List String) : Option String :=
  match op, a with
  -- both readers on the lines of a PDB file
  | "rd.pdb", ls => (ls.mapM PdbOps.unhex).map (fun d =>
      reportE 1 (residuesV1Pdb d) ++ " ## " ++ reportE 2 (.ok (residuesV2Pdb d)))
  -- both readers on an `_atom_site` token table: attribute names `,`-separated, rows `;`-separated, values `,`-separated hex
  | "rd.cif", [attrs, rows] => do
      let rows ← unhexRows rows
      let attrs := if attrs == "-" then [] else splitOn attrs ','
      some (reportE 1 (residuesV1Cif attrs rows) ++ " ## " ++ reportE 2 (.ok (residuesV2Cif attrs rows)))
  -- the table itself: residues as the table defines them, and the well-formedness predicates
  | "rd.table", rows => (rows.mapM PdbOps.parseRow).map (fun t =>
      s!"noAltLoc={noAltLoc t} singleModel={singleModel t} noDupNames={noDupNames t} noClash={noClash t} " ++
      s!"contiguous={contiguous key3 t} nameConsistent={nameConsistent t} within={t.all Pdb.withinPdbLimits} " ++
      s!"noNull={t.all noNullRow} ## " ++ report 2 (residuesOfRows t))
  -- the model's own emitters
  | "rd.emitpdb", rows => (rows.mapM PdbOps.parseRow).map (fun t => PdbOps.showLines (emitPdb t))
  | "rd.emitcif", rows => (rows.mapM PdbOps.parseRow).map (fun t =>
      ",".intercalate emitCifAttrs ++ " " ++ ";".intercalate ((emitCif t).map PdbOps.showLines))
  | "rd.consts", [] =>
      some (s!"v1={showRat Gen.Readers.v1ConnFactor}*{showRat Gen.Readers.v1ConnOP}:{Gen.Readers.v1ConnStrict}:" ++
            s!"{hx Gen.Readers.v1ConnAtomPrev}:{hx Gen.Readers.v1ConnAtomNext} " ++
            s!"v2={showRat Gen.Readers.v2ConnFactor}*{showRat Gen.Readers.v2ConnOP}:{Gen.Readers.v2ConnStrict}:" ++
            s!"{hx Gen.Readers.v2ConnAtomPrev}:{hx Gen.Readers.v2ConnAtomNext} minSegment={Gen.Readers.v2MinSegment}")
  | _, _ => none

end RnaVerif.Driver.ReadersOps

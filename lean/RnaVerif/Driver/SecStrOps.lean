import RnaVerif.Driver.Proto
import RnaVerif.Model.Elements
import RnaVerif.Model.Levels
import RnaVerif.Model.ElementsSpec
import RnaVerif.Model.Convert
import RnaVerif.Model.Pure
import RnaVerif.Model.Optimum
/-! driver ops for M1 (`ss.*`) -/
namespace RnaVerif.Driver.SecStrOps
open RnaVerif RnaVerif.SecStr RnaVerif.Proto

def showRegions (rs : List Region) : String :=
  ";".intercalate (rs.map (fun r => s!"{r.i}:{r.j}:{r.len}"))

def showStr (cs : List Char) : String := String.ofList cs

def showEntries (es : List Entry) : String :=
  String.ofList (es.map (·.ch)) ++ " " ++ showNatList (es.map (·.pair))

/-- levels (bracket type index) read off a structure line for each region's first position -/
def levelsFromDB (regs : List Region) (db : List Char) : List (Option Nat) :=
  regs.map (fun r => match tokOfChar (db.getD (r.i - 1) '.') with
    | .op t => some t
    | _ => none)

def sortPairs (l : List (Nat × Nat)) : List (Nat × Nat) :=
  (l.toArray.qsort (fun a b => a.1 < b.1 || (a.1 == b.1 && a.2 < b.2))).toList

/-- C01 specification predicate evaluated on a structure line produced by the implementation -/
def lossless (es : List Entry) (db : List Char) : String :=
  if db.length != es.length then "fail:length" else
  if !(db.all (fun c => c == '.' || Gen.decOpening.contains c || Gen.decClosing.contains c)) then "fail:alphabet" else
  match decodeChars db with
  | none => "fail:unbalanced-pop"
  | some st =>
    if !((List.range Gen.decOpening.length).all (fun t => (st.stacks t).isEmpty)) then "fail:unbalanced-open" else
    if sortPairs st.out != sortPairs (pairs0 es) then "fail:pairs" else
    -- no two crossing pairs on the same bracket type
    let typed := st.out.map (fun p => (p, tokOfChar (db.getD p.1 '.')))
    if typed.any (fun a => typed.any (fun b => a.2 == b.2 &&
        conflictSpec a.1.1 a.1.2 b.1.1 b.1.2)) then "fail:crossing-same-type" else "ok"

def handle (op : String) (a : List String) : Option String :=
  match op, a with
  | "ss.valid", [seq, ps] => (parseEntries seq ps).map (fun es => toString (valid es))
  | "ss.regions", [seq, ps] => (parseEntries seq ps).map (fun es => showRegions (regions es))
  | "ss.fcfs", [seq, ps] => (parseEntries seq ps).map (fun es => showExcept showStr (fcfs es))
  | "ss.mkdb", [seq, ps, lv] => do
      let es ← parseEntries seq ps; let lvs ← parseNatList lv
      some (showExcept showStr (mkDB es.length (regions es) lvs))
  | "ss.decode", [db] => some (showExcept showPairs (decodePairs db.toList))
  | "ss.fromdb", [seq, db] =>
      some (showExcept showEntries ((decodePairs db.toList).map (fromDB seq.toList)))
  | "ss.lossless", [seq, ps, db] => (parseEntries seq ps).map (fun es => lossless es db.toList)
  | "ss.alldb", [seq, ps] => (parseEntries seq ps).map (fun es =>
      showExcept (fun l => ",".intercalate (l.map showStr)) (allDB es))
  | "ss.elements", [seq, ps, db] => (parseEntries seq ps).map (fun es =>
      "|".intercalate (elements es db.toList).describe)
  | "ss.elements_spec", [seq, ps, stems, singles, hairpins, loops] => do
      -- C07 spec predicate on element numbers: stems "a,b,c,d;…" singles "f,l,k;…" hairpins "f,l;…" loops "f,l|f,l;…"
      let es ← parseEntries seq ps
      let rows (s : String) (sep : Char) : Option (List (List Nat)) :=
        if s == "-" || s == "" then some [] else (splitOn s sep).mapM parseNatList
      let st ← rows stems ';'; let si ← rows singles ';'; let ha ← rows hairpins ';'
      let lo ← (if loops == "-" || loops == "" then some [] else (splitOn loops ';').mapM (fun l => rows l '|'))
      let q4 (l : List Nat) : Nat × Nat × Nat × Nat := (l.getD 0 0, l.getD 1 0, l.getD 2 0, l.getD 3 0)
      let q3 (l : List Nat) : Nat × Nat × Nat := (l.getD 0 0, l.getD 1 0, l.getD 2 0)
      let q2 (l : List Nat) : Nat × Nat := (l.getD 0 0, l.getD 1 0)
      some (specAll es { stems := st.map q4, singles := si.map q3, hairpins := ha.map q2, loops := lo.map (·.map q2) })
  | "ss.nopk", [seq, ps, db] => (parseEntries seq ps).map (fun es =>
      showExcept showEntries (withoutPseudoknots es db.toList))
  | "ss.noiso", [seq, ps] => (parseEntries seq ps).map (fun es => showEntries (withoutIsolated es))
  | "ss.levels", [seq, ps, db] => (parseEntries seq ps).map (fun es =>
      ",".intercalate ((levelsFromDB (regions es) db.toList).map (fun o => match o with | some t => toString t | none => "-")))
  | "ss.graph", [seq, ps] => (parseEntries seq ps).map (fun es =>
      let regs := regions es
      let adj := adjOf Gen.conflictConvert regs
      s!"{regs.length} {maxDegree adj regs.length} " ++ showPairs (edges Gen.conflictConvert regs))
  | "ss.check_levels", [seq, ps, lv] => do
      -- C02 spec: proper, grundy, score, exact optimum
      let es ← parseEntries seq ps; let lvs ← parseNatList lv
      let regs := regions es
      let adj := adjOf conflictSpec regs
      let lens := regs.map (·.len)
      some s!"proper={proper adj lvs} grundy={grundy adj lvs} score={scoreSpec lens lvs} opt={optimumParts conflictSpec regs}"
  | "ss.check_levels_noopt", [seq, ps, lv] => do
      -- C16 spec: proper and greedy-stable (the exact optimum is not needed there and is exponential in the group size)
      let es ← parseEntries seq ps; let lvs ← parseNatList lv
      let regs := regions es
      let adj := adjOf conflictSpec regs
      let lens := regs.map (·.len)
      some s!"proper={proper adj lvs} grundy={grundy adj lvs} score={scoreSpec lens lvs}"
  | "ss.milp", [seq, ps] => (parseEntries seq ps).map (fun es =>
      match milp Gen.conflictConvert (regions es) with
      | none => "none"
      | some m =>
        let so (p : Nat × Nat) := s!"{p.1}_{p.2}"
        s!"{m.nRegions} {m.maxOrder} " ++
        ",".intercalate (m.obj.map (fun (p, c) => s!"{so p}:{c}")) ++ " " ++
        ";".intercalate (m.oneLevel.map (fun l => ",".intercalate (l.map so))) ++ " " ++
        ";".intercalate (m.adjC.map (fun (p, q) => s!"{so p}+{so q}")))
  | "ss.convert", [seq, ps, solver, outcome, ones] => do
      -- C13: solver = "1"/"0"; outcome = raises|notopt|optimal ; ones = "i_o,i_o" (problem.variables() order)
      let es ← parseEntries seq ps
      let l ← (if ones == "-" || ones == "" then some [] else (splitOn ones ',').mapM (fun s =>
        match splitOn s '_' with
        | [a, b] => do let x ← a.toNat?; let y ← b.toNat?; some (x, y)
        | _ => none))
      let o ← (match outcome with
        | "raises" => some Outcome.raises | "notopt" => some Outcome.notOptimal
        | "optimal" => some (Outcome.optimal l) | _ => none)
      some (showExcept showStr (convert es (solver == "1") o))
  | "ss.history", [seq, ps, db, ops] => do
      -- C12: run a call sequence on the object model; `db` = structure line a fresh object's solver gives
      -- (or "err:<Name>"); ops = comma list of op names; answers joined by U+001F, text hex-encoded
      let es ← parseEntries seq ps
      let opt : List Entry → Except Err (List Char) := fun _ =>
        if db.startsWith "err:" then .error .other else .ok db.toList
      let ol ← (if ops == "-" then some [] else (splitOn ops ',').mapM (fun s => match s with
        | "str" => some Op.str | "pairs" => some Op.pairs | "dot_bracket" => some Op.dotBracket
        | "fcfs" => some Op.fcfs | "all_dot_brackets" => some Op.allDB | "elements" => some Op.elements
        | "without_isolated" => some Op.withoutIsolated | "without_pseudoknots" => some Op.withoutPseudoknots
        | _ => none))
      some (";".intercalate ((run opt { entries := es } ol).map (fun a => match a with
        | .text t => "ok:" ++ toHex t
        | .err e => "err:" ++ e.toString)))
  | "ss.readback", [n, ones] => do
      let n ← n.toNat?
      let l ← (if ones == "-" || ones == "" then some [] else (splitOn ones ',').mapM (fun s =>
        match splitOn s '_' with
        | [a, b] => do let x ← a.toNat?; let y ← b.toNat?; some (x, y)
        | _ => none))
      some (showNatList (readBack n l))
  | _, _ => none

end RnaVerif.Driver.SecStrOps

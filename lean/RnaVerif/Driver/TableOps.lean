import RnaVerif.Driver.Proto
import RnaVerif.Model.Table
/-! driver ops for M7 (`tbl.*`): mmCIF item editing.

Wire format (every text is hex of its UTF-8 bytes, `-` = empty text, `~` = empty list):
```
cells   := hex , hex , …
rows    := cells / cells / …
cat     := name | items(cells) | rows
doc     := cat ; cat ; …
block   := name ! doc
blocks  := block & block & …
mapping := key:letter , key:letter , …
optstr  := N | S<hex>
```
-/
namespace RnaVerif.Driver.TableOps
open RnaVerif RnaVerif.Table RnaVerif.Proto

def encStr (s : String) : String := if s.isEmpty then "-" else toHex s

def decStr (s : String) : Option String := if s == "-" then some "" else fromHex s

def encList {α} (sep : String) (f : α → String) (l : List α) : String :=
  if l.isEmpty then "~" else sep.intercalate (l.map f)

def decList {α} (sep : Char) (f : String → Option α) (s : String) : Option (List α) :=
  if s == "~" then some [] else (splitOn s sep).mapM f

def encCells (r : Row) : String := encList "," encStr r
def decCells (s : String) : Option Row := decList ',' decStr s

def encCat (c : Category) : String :=
  encStr c.name ++ "|" ++ encCells c.items ++ "|" ++ encList "/" encCells c.rows

def decCat (s : String) : Option Category :=
  match splitOn s '|' with
  | [n, it, rs] => do
    let n ← decStr n; let it ← decCells it; let rs ← decList '/' decCells rs
    some ⟨n, it, rs⟩
  | _ => none

def encDoc (d : Document) : String := encList ";" encCat d
def decDoc (s : String) : Option Document := decList ';' decCat s

def encBlock (b : Block) : String := encStr b.name ++ "!" ++ encDoc b.cats
def decBlock (s : String) : Option Block :=
  match splitOn s '!' with
  | [n, d] => do let n ← decStr n; let d ← decDoc d; some ⟨n, d⟩
  | _ => none

def encBlocks (f : List Block) : String := encList "&" encBlock f
def decBlocks (s : String) : Option (List Block) := decList '&' decBlock s

def encMapping (m : Mapping) : String :=
  encList "," (fun p => encStr p.1 ++ ":" ++ encStr (String.singleton p.2)) m

/-- the mapping returned by the real code: text ↦ text; a letter must be one character -/
def decMapping (s : String) : Option (List (String × String)) :=
  decList ',' (fun kv => match splitOn kv ':' with
    | [k, v] => do let k ← decStr k; let v ← decStr v; some (k, v)
    | _ => none) s

def decOpt (s : String) : Option (Option String) :=
  if s == "N" then some none
  else if s.startsWith "S" then
    let r := (s.drop 1).toString
    if r.isEmpty then some (some "") else (fromHex r).map some
  else none

def showErr (e : Err) : String := "err " ++ e.toString

/-! ### specification predicates, evaluated on what the real code returned

Categories are looked up *by name* (the statement does not fix the order of categories in the file). -/

/-- first failing check, or `ok` -/
def firstFail (checks : List (Bool × String)) : String :=
  match checks.find? (fun c => !c.1) with
  | some c => "fail:" ++ c.2
  | none => "ok"

/-- two data blocks with the same name and the same categories, looked up by name -/
def blockEqv (b b' : Block) : Bool :=
  b'.name == b.name && b'.cats.length == b.cats.length &&
  b.cats.all (fun x => getCat b'.cats x.name == some x) && b'.cats.all (fun x => getCat b.cats x.name == some x)

def blocksEqv : List Block → List Block → Bool
  | [], [] => true
  | b :: bs, b' :: bs' => blockEqv b b' && blocksEqv bs bs'
  | _, _ => false

/-- frame outside the edited category: other blocks, block name, other categories (by name), count -/
def frameOutside (b b' : Block) (bs bs' : List Block) (cat : String) : List (Bool × String) :=
  [(blocksEqv bs bs', "frame:other-block"),
   (b'.name == b.name, "frame:block-name"),
   (b'.cats.length == b.cats.length, "frame:category-count"),
   (b.cats.all (fun x => x.name == cat || getCat b'.cats x.name == some x), "frame:other-category"),
   (b'.cats.all (fun x => (getCat b.cats x.name).isSome), "frame:new-category")]

def specCopy (fin fout : List Block) (cat src to : String) : String :=
  match fin, fout with
  | b :: bs, b' :: bs' =>
    match getCat b.cats cat, getCat b'.cats cat with
    | some c, some c' =>
      firstFail (frameOutside b b' bs bs' cat ++
        [(c'.rows.length == c.rows.length, "frame:row-count"),
         (c'.items == itemsWith c.items to, "frame:items"),
         (c.items.all (fun it => it == to || c'.col it == c.col it), "frame:other-item"),
         (c'.col to == c.col src, "target-ne-source")])
    | _, _ => "fail:frame:category-lost"
  | _, _ => "fail:frame:blocks"

def specReplace (fin fout : List Block) (cat col : String) (values : List Char)
    (ret : List (String × String)) : String :=
  match fin, fout with
  | b :: bs, b' :: bs' =>
    match getCat b.cats cat, getCat b'.cats cat with
    | some c, some c' =>
      let old := c.col col
      let new := c'.col col
      let look (v : String) : Option String := (ret.find? (fun p => p.1 == v)).map (·.2)
      let m : Mapping := ret.filterMap (fun p => match p.2.toList with | [ch] => some (p.1, ch) | _ => none)
      firstFail (frameOutside b b' bs bs' cat ++
        [(c'.rows.length == c.rows.length, "frame:row-count"),
         (c'.items == c.items, "frame:items"),
         (c.items.all (fun it => it == col || c'.col it == c.col it), "frame:other-item"),
         (m.length == ret.length, "mapping:letter-not-one-char"),
         (new == old.map (fun o => o.bind look), "image:new-column-is-not-the-image-of-the-returned-mapping"),
         (decide (ret.map (·.1)).Nodup, "mapping:repeated-key"),
         (!(decide values.Nodup) || decide (ret.map (·.2)).Nodup, "mapping:not-injective"),
         (m == firstSeenMap values (valsAt c.rows (c.items.idxOf col)), "mapping:not-first-seen")])
    | _, _ => "fail:frame:category-lost"
  | _, _ => "fail:frame:blocks"

/-- marker put in front of a rendered document by the driver's codec -/
def renderMark : String := "\x01doc "

def handle (op : String) (a : List String) : Option String :=
  match op, a with
  | "tbl.copy", [f, cat, src, to] => do
      let f ← decBlocks f; let cat ← decStr cat; let src ← decStr src; let to ← decStr to
      some (match copyFile f cat src to with
        | .error e => showErr e
        | .ok .unchanged => "unchanged"
        | .ok (.rewritten f') => "ok " ++ encBlocks f')
  | "tbl.replace", [f, cat, col, values] => do
      let f ← decBlocks f; let cat ← decStr cat; let col ← decStr col; let values ← decStr values
      some (match replaceFile f cat col values.toList with
        | .error e => showErr e
        | .ok (.unchanged, m) => "unchanged " ++ encMapping m
        | .ok (.rewritten f', m) => "ok " ++ encBlocks f' ++ " " ++ encMapping m)
  | "tbl.copyspec", [fin, fout, cat, src, to] => do
      let fin ← decBlocks fin; let fout ← decBlocks fout
      let cat ← decStr cat; let src ← decStr src; let to ← decStr to
      some (specCopy fin fout cat src to)
  | "tbl.replacespec", [fin, fout, cat, col, values, ret] => do
      let fin ← decBlocks fin; let fout ← decBlocks fout
      let cat ← decStr cat; let col ← decStr col; let values ← decStr values; let ret ← decMapping ret
      some (specReplace fin fout cat col values.toList ret)
  | "tbl.rect", [f] => do
      let f ← decBlocks f
      some (toString (f.all (fun b => b.cats.all (fun c => decide c.Rect))))
  | "tbl.flags", [] =>
      some s!"readsFirst={currentFlags.readsFirst} copyPassesPath={currentFlags.copyPassesPath} replacePassesPath={currentFlags.replacePassesPath} replaceWritesTuple={currentFlags.replaceWritesTuple}"
  | "tbl.defaults", [] =>
      some (" ".intercalate ([Gen.trDefaultCopyCategory, Gen.trDefaultCopyFrom, Gen.trDefaultCopyTo,
        Gen.trDefaultReplaceCategory, Gen.trDefaultReplaceColumn, Gen.trDefaultValues].map encStr))
  | "tbl.cli", [which, input, output, cat, cfrom, cto, repl, values, content, parsedPath, parsedContent] => do
      -- `which`: "cur" = flags of the present tree, "spec" = the statement (`cliSpec`)
      let input ← decStr input; let output ← decStr output
      let cat ← decOpt cat; let cfrom ← decOpt cfrom; let cto ← decOpt cto
      let repl ← decOpt repl; let values ← decOpt values; let content ← decOpt content
      let pp ← decBlocks parsedPath; let pc ← decBlocks parsedContent
      let cd : Codec :=
        { parse := fun s => if some s == content then pc else if s == input then pp else []
          render := fun f => renderMark ++ encBlocks f }
      let fs : String → Option String := fun p => if p == input then content else none
      let args : Args := { input := input, output := output, category := cat, copyFrom := cfrom,
                           copyTo := cto, replace := repl, values := values }
      let out ← (if which == "cur" then some (cliMain currentFlags cd fs args)
                 else if which == "spec" then content.map (fun c => cliSpec cd c args) else none)
      some (match out with
        | .help => "help"
        | .failed e t => s!"failed {e.toString} {t}"
        | .wrote p txt =>
          if txt.startsWith renderMark then "wrote " ++ encStr p ++ " doc " ++ (txt.drop renderMark.length).toString
          else "wrote " ++ encStr p ++ " raw " ++ encStr txt)
  | _, _ => none

end RnaVerif.Driver.TableOps

import RnaVerif.Driver.Proto
import RnaVerif.Driver.PdbOps
import RnaVerif.Model.Splitter
import RnaVerif.Model.Unifier
/-! driver ops for the two command-line tools (`split.run`, `uni.run`, `uni.residues`).

Rows as in `pdb.*` (16 comma-separated fields).  Output tables: rows joined by `;`. -/
namespace RnaVerif.Driver.ToolsOps
open RnaVerif RnaVerif.Proto RnaVerif.Pdb RnaVerif.Driver.PdbOps

def parseOut (s : String) : Option Splitter.OutFmt :=
  match s.toUpper with
  | "KEEP" => some .keep
  | "PDB" => some .pdb
  | "MMCIF" => some .cif
  | _ => none

def showContent : Splitter.Content → String
  | .pdb t => "pdb:" ++ showTable t
  | .cif t => "cif:" ++ showTable t
  | .skipped e => "skipped:" ++ e.toString

def fmtName : Fit.Format → String
  | .pdb => "PDB"
  | .cif => "mmCIF"

/-- files of `uni.run`: a new file starts at an argument `@PDB` / `@mmCIF`; a row is `<hex numbering text>:<row>` -/
def parseFiles (args : List String) : Option (List Unifier.UFile) :=
  (args.foldlM (fun (acc : List Unifier.UFile) (s : String) =>
    if s.startsWith "@" then
      (parseFmt (s.drop 1).toString).map (fun fmt => { fmt := fmt, rows := [] } :: acc)
    else
      match acc, splitOn s ':' with
      | cur :: done, [n, r] => do
        let nt ← unhex n
        let x ← parseRow r
        some ({ cur with rows := (String.ofList nt, x) :: cur.rows } :: done)
      | _, _ => none) []).map (fun acc => (acc.map (fun f => { f with rows := f.rows.reverse })).reverse)

def showRes (r : Unifier.URes) : String := hex r.name ++ "=" ++ showTable r.atoms

def handle (op : String) (a : List String) : Option String :=
  match op, a with
  | "split.run", infmt :: outfmt :: rows => do
      let f ← parseFmt infmt; let o ← parseOut outfmt; let t ← rows.mapM parseRow
      some ("|".intercalate ((Splitter.split f o "x" t).map (fun x =>
        s!"{x.model}{x.ext}=" ++ showContent x.content)))
  | "uni.run", outfmt :: files => do
      let o ← parseOut outfmt; let fs ← parseFiles files
      some (match Unifier.unify Unifier.codeCfg o fs with
        | .exit1 => "exit1"
        | .crash e => "crash " ++ e.toString
        | .files out => "files " ++ "|".intercalate (out.map (fun x =>
            s!"{x.index}.{fmtName x.fmt}=" ++ showContent x.content)))
  | "uni.residues", files => do
      -- the residue lists after unification (before the output loop)
      let fs ← parseFiles files
      some (match Unifier.unifyResidues Unifier.codeCfg fs with
        | .exit1 => "exit1"
        | .crash e => "crash " ++ e.toString
        | .ok out => "ok " ++ "|".intercalate (out.map (fun p =>
            fmtName p.1 ++ "/" ++ "+".intercalate (p.2.map showRes))))
  | _, _ => none

end RnaVerif.Driver.ToolsOps

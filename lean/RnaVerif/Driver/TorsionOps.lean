import RnaVerif.Driver.Proto
import RnaVerif.Model.Torsion
/-! driver ops for M9 (`tor.*`): points are `x,y,z` with exact rationals `num/den` (or integers) -/
namespace RnaVerif.Driver.TorsionOps
open RnaVerif RnaVerif.Proto RnaVerif.Torsion

def parseRat (s : String) : Option Rat :=
  match splitOn s '/' with
  | [n] => n.toInt?.map (fun i => (i : Rat))
  | [n, d] => do
      let i ← n.toInt?
      let k ← d.toNat?
      if k == 0 then none else some (mkRat i k)
  | _ => none

def showRat (q : Rat) : String := s!"{q.num}/{q.den}"

def parsePoint (s : String) : Option (V3 Rat) :=
  match splitOn s ',' with
  | [a, b, c] => do
      let x ← parseRat a; let y ← parseRat b; let z ← parseRat c
      some ⟨x, y, z⟩
  | _ => none

def showOut : Out → String
  | .degenerate => "deg"
  | .val sx sy t => s!"{sx} {sy} " ++ (match t with | none => "inf" | some q => showRat q)

def showArgs (a : Args Rat) : String := s!"{showRat a.x} {showRat a.w} {showRat a.n}"

def four (a b c d : String) : Option (V3 Rat × V3 Rat × V3 Rat × V3 Rat) := do
  let p1 ← parsePoint a; let p2 ← parsePoint b; let p3 ← parsePoint c; let p4 ← parsePoint d
  some (p1, p2, p3, p4)

def strs (l : List String) : String := ",".intercalate l

def handle (op : String) (a : List String) : Option String :=
  match op, a with
  | "tor.v1", [a, b, c, d] => (four a b c d).map (fun (p1, p2, p3, p4) => showOut (torsion1Rat p1 p2 p3 p4))
  | "tor.v2", [a, b, c, d] => (four a b c d).map (fun (p1, p2, p3, p4) => showOut (torsion2Rat p1 p2 p3 p4))
  | "tor.both", [a, b, c, d] => (four a b c d).map (fun (p1, p2, p3, p4) =>
      showOut (torsion1Rat p1 p2 p3 p4) ++ "|" ++ showOut (torsion2Rat p1 p2 p3 p4))
  | "tor.args", [a, b, c, d] => (four a b c d).map (fun (p1, p2, p3, p4) =>
      showArgs (args1 p1 p2 p3 p4) ++ "|" ++ showArgs (args2 p1 p2 p3 p4))
  | "tor.margin", [a, b, c, d] => (four a b c d).map (fun (p1, p2, p3, p4) =>
      showRat (margin1 p1 p2 p3 p4) ++ " " ++ showRat (margin2 p1 p2 p3 p4))
  -- quadrant / tan² of a prescribed angle given by (cos φ, sin φ) up to a positive factor
  | "tor.expect", [c, s] => do
      let c ← parseRat c; let s ← parseRat s
      some (showOut (quadTan ⟨c, s, 1⟩))
  | "tor.tables", [] =>
      some (strs Gen.Tor.v1ChiPurine ++ "|" ++ strs Gen.Tor.v1ChiPyrimidine ++ "|" ++
            strs Gen.Tor.v2ChiPurine ++ "|" ++ strs Gen.Tor.v2ChiPyrimidine ++ "|" ++
            strs Gen.Tor.v1PurineLetters ++ "|" ++ strs Gen.Tor.v1PyrimidineLetters ++ "|" ++
            strs Gen.Tor.v2PurineNames ++ "|" ++ strs Gen.Tor.v2PyrimidineNames ++ "|" ++
            ";".intercalate (Gen.Tor.v2Definitions.map (fun (n, l) =>
              n ++ "=" ++ ",".intercalate (l.map (fun (nm, o) => s!"{nm}:{o}")))) ++ "|" ++
            showRat Gen.Tor.v1SynLoDeg ++ "," ++ showRat Gen.Tor.v1SynHiDeg ++ "|" ++
            showRat Gen.Tor.v1NormEps ++ "," ++ showRat Gen.Tor.v1CrossEps ++ "," ++ showRat Gen.Tor.v2CrossEps)
  | _, _ => none

end RnaVerif.Driver.TorsionOps

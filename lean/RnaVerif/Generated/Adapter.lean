-- GENERATED on every run by /verif/tools/gen_tables.py from /repo/src/rnapolis — do not edit

namespace RnaVerif.Gen

/-! ### `unify_classification` -/
def fr3dPrefix : String := "n"
def fr3dSuffix : String := "a"
def fr3dSuffixMinLen : Nat := 3

def brLen : Nat := 3
def brTail : String := "BR"
def brKeyPrefix : String := "_"
def brCategory : String := "base-ribose"
/-- (member name, value) of the enum, live -/
def brMembers : List (String × String) := [("_0", "0BR"), ("_1", "1BR"), ("_2", "2BR"), ("_3", "3BR"), ("_4", "4BR"),
   ("_5", "5BR"), ("_6", "6BR"), ("_7", "7BR"), ("_8", "8BR"), ("_9", "9BR")]

def bphLen : Nat := 4
def bphTail : String := "BPh"
def bphKeyPrefix : String := "_"
def bphCategory : String := "base-phosphate"
/-- (member name, value) of the enum, live -/
def bphMembers : List (String × String) := [("_0", "0BPh"), ("_1", "1BPh"), ("_2", "2BPh"), ("_3", "3BPh"), ("_4", "4BPh"),
   ("_5", "5BPh"), ("_6", "6BPh"), ("_7", "7BPh"), ("_8", "8BPh"), ("_9", "9BPh")]

def stackLen : Nat := 3
def stackHead : String := "s"
def stackSecond : List String := ["3", "5"]
def stackThird : List String := ["3", "5"]
def stackMap : List (String × String) := [("s33", "downward"), ("s55", "upward"), ("s35", "outward"), ("s53", "inward")]
def stackingNames : List String := ["upward", "downward", "inward", "outward"]

def lwLen : Nat := 3
def lwOrient : List String := ["c", "t"]

/-- live table: `unify_classification` on representative labels -> (category, member name or "") -/
def unifyProbe : List (String × String × String) := [("cWW", "base-pair", "cWW"), ("cWH", "base-pair", "cWH"), ("cWS", "base-pair", "cWS"),
   ("cHW", "base-pair", "cHW"), ("cHH", "base-pair", "cHH"), ("cHS", "base-pair", "cHS"),
   ("cSW", "base-pair", "cSW"), ("cSH", "base-pair", "cSH"), ("cSS", "base-pair", "cSS"),
   ("tWW", "base-pair", "tWW"), ("tWH", "base-pair", "tWH"), ("tWS", "base-pair", "tWS"),
   ("tHW", "base-pair", "tHW"), ("tHH", "base-pair", "tHH"), ("tHS", "base-pair", "tHS"),
   ("tSW", "base-pair", "tSW"), ("tSH", "base-pair", "tSH"), ("tSS", "base-pair", "tSS"),
   ("s33", "stacking", "downward"), ("s35", "stacking", "outward"), ("s53", "stacking", "inward"),
   ("s55", "stacking", "upward"), ("0BR", "base-ribose", "_0"), ("1BR", "base-ribose", "_1"),
   ("2BR", "base-ribose", "_2"), ("3BR", "base-ribose", "_3"), ("4BR", "base-ribose", "_4"),
   ("5BR", "base-ribose", "_5"), ("6BR", "base-ribose", "_6"), ("7BR", "base-ribose", "_7"),
   ("8BR", "base-ribose", "_8"), ("9BR", "base-ribose", "_9"), ("0BPh", "base-phosphate", "_0"),
   ("1BPh", "base-phosphate", "_1"), ("2BPh", "base-phosphate", "_2"), ("3BPh", "base-phosphate", "_3"),
   ("4BPh", "base-phosphate", "_4"), ("5BPh", "base-phosphate", "_5"), ("6BPh", "base-phosphate", "_6"),
   ("7BPh", "base-phosphate", "_7"), ("8BPh", "base-phosphate", "_8"), ("9BPh", "base-phosphate", "_9"),
   ("ncWW", "base-pair", "cWW"), ("cWWa", "base-pair", "cWW"), ("ncWWa", "base-pair", "cWW"),
   ("cww", "base-pair", "cWW"), ("Tsh", "base-pair", "tSH"), ("ns35", "stacking", "outward"),
   ("s55a", "stacking", "upward"), ("n0BR", "base-ribose", "_0"), ("3BPha", "base-phosphate", "_3"),
   ("tHSa", "base-pair", "tHS"), ("", "other", ""), ("n", "other", ""),
   ("a", "other", ""), ("na", "other", ""), ("cW", "other", ""),
   ("cWa", "other", ""), ("cWX", "other", ""), ("xWW", "other", ""),
   ("S35", "other", ""), ("s34", "other", ""), ("s3", "other", ""),
   ("BR", "other", ""), ("aBR", "other", ""), ("0Br", "other", ""),
   ("0BPH", "other", ""), ("0BP", "other", ""), ("nn", "other", ""),
   ("nncWW", "other", ""), ("cWWaa", "other", ""), ("perp", "other", ""),
   ("cWWn", "other", ""), ("acWW", "other", ""), ("10BR", "other", ""),
   ("s333", "other", "")]

/-! ### `parse_unit_id`, `_process_interaction_line`, `parse_fr3d_output` -/
def unitSep : Char := '|'
def unitChainIdx : Nat := 2
def unitNumberIdx : Nat := 4
def unitNameIdx : Nat := 3
def unitIcodeIdx : Nat := 7
def unitIcodeMinLen : Nat := 8

def lineSep : Char := (Char.ofNat 9)
def lineMinParts : Nat := 3
def lineNt1Idx : Nat := 0
def lineLabelIdx : Nat := 1
def lineNt2Idx : Nat := 2
/-- exception classes contained by the `try` of the line processor -/
def lineContained : List String := ["ValueError", "IndexError"]
def commentPrefix : String := "#"

/-- field order of `BaseInteractions`, live -/
def biFields : List String := ["basePairs", "stackings", "baseRiboseInteractions", "basePhosphateInteractions", "otherInteractions"]
/-- live routing: category -> (BaseInteractions field, interaction class) -/
def fr3dRouting : List (String × String × String) := [("base-pair", "basePairs", "BasePair"), ("stacking", "stackings", "Stacking"),
   ("base-ribose", "baseRiboseInteractions", "BaseRibose"), ("base-phosphate", "basePhosphateInteractions", "BasePhosphate"),
   ("other", "otherInteractions", "OtherInteraction")]

/-! ### DSSR -/
def dssrNameSep : Char := ':'
def dssrStackSep : Char := ','
/-- the strings for which the `LW` membership test of `match_dssr_lw` is true -/
def dssrLwAccepted : List String := ["cHH", "cHS", "cHW", "cSH", "cSS", "cSW",
   "cWH", "cWS", "cWW", "tHH", "tHS", "tHW",
   "tSH", "tSS", "tSW", "tWH", "tWS", "tWW"]

/-- CPython: sys.get_int_max_str_digits() of the interpreter that runs the code (0 = unlimited) -/
def pyIntMaxStrDigits : Nat := 4300

end RnaVerif.Gen

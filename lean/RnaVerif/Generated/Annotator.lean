-- GENERATED on every run by /verif/tools/gen_tables.py from /repo/src/rnapolis — do not edit

/-! tables and thresholds of annotator.py / tertiary.py used by the pair model; own namespace `Gen.Ann` so that
names cannot collide with other generated files -/
namespace RnaVerif.Gen.Ann

/-- tertiary.BASE_ATOMS -/
def baseAtoms : List (String × List String) :=
  [("A", ["N1", "C2", "N3", "C4", "C5", "C6", "N6", "N7", "C8", "N9"]),
   ("G", ["N1", "C2", "N2", "N3", "C4", "C5", "C6", "O6", "N7", "C8", "N9"]),
   ("C", ["N1", "C2", "O2", "N3", "C4", "N4", "C5", "C6"]),
   ("U", ["N1", "C2", "O2", "N3", "C4", "O4", "C5", "C6"]),
   ("T", ["N1", "C2", "O2", "N3", "C4", "O4", "C5", "C6", "C7"])]

/-- tertiary.BASE_DONORS -/
def baseDonors : List (String × List String) :=
  [("A", ["C2", "N6", "C8", "O2'"]),
   ("G", ["N1", "N2", "C8", "O2'"]),
   ("C", ["N4", "C5", "C6", "O2'"]),
   ("U", ["N3", "C5", "C6", "O2'"]),
   ("T", ["N3", "C6", "C7"])]

/-- tertiary.BASE_ACCEPTORS -/
def baseAcceptors : List (String × List String) :=
  [("A", ["N1", "N3", "N7"]),
   ("G", ["N3", "O6", "N7"]),
   ("C", ["O2", "N3"]),
   ("U", ["O2", "O4"]),
   ("T", ["O2", "O4"])]

/-- tertiary.PHOSPHATE_ACCEPTORS -/
def phosphateAcceptors : List String := ["OP1", "OP2", "O5'", "O3'"]

/-- tertiary.RIBOSE_ACCEPTORS -/
def riboseAcceptors : List String := ["O4'", "O2'"]

/-- tertiary.BASE_EDGES: base -> atom -> edge letters -/
def baseEdges : List (String × List (String × String)) :=
  [("A", [("N1", "W"), ("C2", "WS"), ("N3", "S"), ("N6", "WH"), ("N7", "H"), ("C8", "H"), ("O2'", "S")]),
   ("G", [("N1", "W"), ("N2", "WS"), ("N3", "S"), ("O6", "WH"), ("N7", "H"), ("C8", "H"), ("O2'", "S")]),
   ("C", [("O2", "WS"), ("N3", "W"), ("N4", "WH"), ("C5", "H"), ("C6", "H"), ("O2'", "S")]),
   ("U", [("O2", "WS"), ("N3", "W"), ("O4", "WH"), ("C5", "H"), ("C6", "H"), ("O2'", "S")]),
   ("T", [("O2", "WS"), ("N3", "W"), ("O4", "WH"), ("C6", "H"), ("C7", "H")])]

/-- HYDROGEN_BOND_MAX_DISTANCE (the radius handed to KDTree.query_pairs) -/
def hbondMaxDistance : Rat := (4 : Rat)

/-- HYDROGEN_BOND_ANGLE_RANGE, degrees, both ends exclusive -/
def hbondAngleLo : Rat := (50 : Rat)
def hbondAngleHi : Rat := (130 : Rat)

/-- rational enclosure (width <= 4e-30) of cos^2(hbondAngleLo degrees), computed by the translator from
alternating Taylor sums and a 50-digit enclosure of pi -/
def cosSqLoEnc : Rat × Rat := ((82635182233306965114828337323 / 200000000000000000000000000000 : Rat), (51646988895816853196767710827 / 125000000000000000000000000000 : Rat))

/-- the same for cos^2(hbondAngleHi degrees) -/
def cosSqHiEnc : Rat × Rat := ((82635182233306965114828337323 / 200000000000000000000000000000 : Rat), (51646988895816853196767710827 / 125000000000000000000000000000 : Rat))

/-- `if hydrogen_bond_count < K: continue` -/
def minHbondCount : Nat := 2

/-- find_pairs looks up atom / type / residue of a KD-tree point through dictionaries keyed by the coordinate
tuple (two points with identical coordinates collide; the later one wins for both indices); false = keyed by
point index (live probe with two atoms on the same coordinates) -/
def pointsKeyedByCoordinates : Bool := false

/-- find_pairs iterates the atom names of a residue without repetition (`dict.fromkeys(acceptors + donors)`);
false = `acceptors + donors` with a name listed in both inserted twice -/
def pointsDeduplicated : Bool := true

/-- `"c" if LO < torsion < HI else "t"` (degrees) in detect_cis_trans -/
def cisLo : Rat := (-90 : Rat)
def cisHi : Rat := (90 : Rat)

/-- detect_cis_trans: letters tested with `one_letter_name in …`, the base atom for them, the base atom otherwise, the sugar atom -/
def purineLetters : String := "AG"
def glycoPurine : String := "N9"
def glycoOther : String := "N1"
def glycoSugar : String := "C1'"

/-- base_normal_vector: letters tested with `in`, then (origin, arm1, arm2) with normal = (arm1-origin)×(arm2-origin) -/
def normalPurineLetters : String := "AG"
def normalPurine : List String := ["N9", "N7", "N3"]
def normalOther : List String := ["N1", "C4", "O2"]

/-- detect_bph_br_classification: (base, donor atom, reference atom 1, reference atom 2, class when the torsion
(ref1, ref2, donor, acceptor) lies in (bphLo, bphHi), class otherwise); empty reference names = class does not
depend on geometry.  A torsion-dependent entry without its reference atoms gives no class. -/
def bphTable : List (String × String × String × String × Nat × Nat) :=
  [("A", "C2", "", "", 2, 2), ("A", "C8", "", "", 0, 0),
   ("A", "N6", "N1", "C6", 6, 7), ("G", "C8", "", "", 0, 0),
   ("G", "N1", "", "", 5, 5), ("G", "N2", "N3", "C2", 1, 3),
   ("C", "C5", "", "", 9, 9), ("C", "C6", "", "", 0, 0),
   ("C", "N4", "N3", "C4", 6, 7), ("U", "C5", "", "", 9, 9),
   ("U", "C6", "", "", 0, 0), ("U", "N3", "", "", 5, 5),
   ("T", "C6", "", "", 0, 0), ("T", "C7", "", "", 9, 9),
   ("T", "N3", "", "", 5, 5)]

def bphLo : Rat := (-90 : Rat)
def bphHi : Rat := (90 : Rat)

/-- merge_and_clean_bph_br: (a, b, c) = classes a and b on one residue pair are replaced by c; applied in this order;
afterwards only the first remaining class is kept -/
def mergeRules : List (Nat × Nat × Nat) := [(3, 5, 4), (7, 9, 8)]

/-- class numbers that have a BPh and a BR enum member (`BPh[f"_{k}"]`) -/
def bphClassNumbers : List Nat := [0, 1, 2, 3, 4, 5, 6, 7, 8, 9]

end RnaVerif.Gen.Ann

-- GENERATED on every run by /verif/tools/gen_tables.py from /repo/src/rnapolis — do not edit

namespace RnaVerif.Gen

def encBrackets : List (Char × Char) :=
  [('(', ')'), ('[', ']'), ('{', '}'), ('<', '>'), ('A', 'a'), ('B', 'b'),
   ('C', 'c'), ('D', 'd'), ('E', 'e'), ('F', 'f'), ('G', 'g'), ('H', 'h'),
   ('I', 'i'), ('J', 'j'), ('K', 'k'), ('L', 'l'), ('M', 'm'), ('N', 'n'),
   ('O', 'o'), ('P', 'p'), ('Q', 'q'), ('R', 'r'), ('S', 's'), ('T', 't'),
   ('U', 'u'), ('V', 'v'), ('W', 'w'), ('X', 'x'), ('Y', 'y'), ('Z', 'z')]

def decOpening : List Char := ['(', '[', '{', '<', 'A', 'B', 'C', 'D', 'E', 'F',
   'G', 'H', 'I', 'J', 'K', 'L', 'M', 'N', 'O', 'P',
   'Q', 'R', 'S', 'T', 'U', 'V', 'W', 'X', 'Y', 'Z']

def decClosing : List Char := [')', ']', '}', '>', 'a', 'b', 'c', 'd', 'e', 'f',
   'g', 'h', 'i', 'j', 'k', 'l', 'm', 'n', 'o', 'p',
   'q', 'r', 's', 't', 'u', 'v', 'w', 'x', 'y', 'z']

def fcfsAvail : Nat := 30

def pkStripped : List Char := ['<', '>', 'A', 'B', 'C', 'D', 'E', 'F', 'G', 'H',
   'I', 'J', 'K', 'L', 'M', 'N', 'O', 'P', 'Q', 'R',
   'S', 'T', 'U', 'V', 'W', 'X', 'Y', 'Z', '[', ']',
   'a', 'b', 'c', 'd', 'e', 'f', 'g', 'h', 'i', 'j',
   'k', 'l', 'm', 'n', 'o', 'p', 'q', 'r', 's', 't',
   'u', 'v', 'w', 'x', 'y', 'z', '{', '}']

def pkRepl : List Char := ['.']

/-- conflict test of `BpSeq.convert_to_dot_bracket`; (k,l) = first unpacked region, (m,n) = second -/
def conflictConvert (k l m n : Nat) : Bool :=
  ((decide (k < m) && decide (m < l) && decide (l < n)) || (decide (m < k) && decide (k < n) && decide (n < l)))

/-- conflict test of `BpSeq.fcfs`; (k,l) = first unpacked region, (m,n) = second -/
def conflictFcfs (k l m n : Nat) : Bool :=
  ((decide (k < m) && decide (m < l) && decide (l < n)) || (decide (m < k) && decide (k < n) && decide (n < l)))

/-- conflict test of `BpSeq.all_dot_brackets`; (k,l) = first unpacked region, (m,n) = second -/
def conflictAll (k l m n : Nat) : Bool :=
  ((decide (k < m) && decide (m < l) && decide (l < n)) || (decide (m < k) && decide (k < n) && decide (n < l)))

/-- objective coefficient of variable x(region, order) for a region of the given length -/
def objCoeff (length order : Int) : Int :=
  if order = 0 then ((1 : Int) * length) else ((((-(1)) * (1 : Int)) * length) * order)

/-- max_order = (maximum degree) + maxOrderOffset -/
def maxOrderOffset : Nat := 1

/-- `BpSeq.fcfs` is declared as a (cached) property -/
def fcfsIsProperty : Bool := true

/-- the three fall-backs of convert_to_dot_bracket (no solver, PulpSolverError, status not optimal): written as a call `self.fcfs()`? -/
def fallbackCalls : List Bool := [false, false, false]

def lwNames : List String := ["cWW", "cWH", "cWS", "cHW", "cHH", "cHS", "cSW", "cSH", "cSS",
   "tWW", "tWH", "tWS", "tHW", "tHH", "tHS", "tSW", "tSH", "tSS"]

def lwValues : List String := ["cWW", "cWH", "cWS", "cHW", "cHH", "cHS", "cSW", "cSH", "cSS",
   "tWW", "tWH", "tWS", "tHW", "tHH", "tHS", "tSW", "tSH", "tSS"]

def lwReverse : List (String × String) := [("cWW", "cWW"), ("cWH", "cHW"), ("cWS", "cSW"), ("cHW", "cWH"),
   ("cHH", "cHH"), ("cHS", "cSH"), ("cSW", "cWS"), ("cSH", "cHS"),
   ("cSS", "cSS"), ("tWW", "tWW"), ("tWH", "tHW"), ("tWS", "tSW"),
   ("tHW", "tWH"), ("tHH", "tHH"), ("tHS", "tSH"), ("tSW", "tWS"),
   ("tSH", "tHS"), ("tSS", "tSS")]

def saengerTable : List ((String × String) × String) := [(("AA", "tWW"), "I"), (("AA", "tHH"), "II"), (("GG", "tWW"), "III"),
   (("GG", "tSS"), "IV"), (("AA", "tWH"), "V"), (("AA", "tHW"), "V"),
   (("GG", "cWH"), "VI"), (("GG", "cHW"), "VI"), (("GG", "tWH"), "VII"),
   (("GG", "tHW"), "VII"), (("AG", "cWW"), "VIII"), (("GA", "cWW"), "VIII"),
   (("AG", "cHW"), "IX"), (("GA", "cWH"), "IX"), (("AG", "tWS"), "X"),
   (("GA", "tSW"), "X"), (("AG", "tHS"), "XI"), (("GA", "tSH"), "XI"),
   (("UU", "tWW"), "XII"), (("TT", "tWW"), "XII"), (("UU", "cWW"), "XVI"),
   (("TT", "cWW"), "XVI"), (("CU", "tWW"), "XVII"), (("UC", "tWW"), "XVII"),
   (("CU", "cWW"), "XVIII"), (("UC", "cWW"), "XVIII"), (("CG", "cWW"), "XIX"),
   (("GC", "cWW"), "XIX"), (("AU", "cWW"), "XX"), (("UA", "cWW"), "XX"),
   (("AT", "cWW"), "XX"), (("TA", "cWW"), "XX"), (("AU", "tWW"), "XXI"),
   (("UA", "tWW"), "XXI"), (("AT", "tWW"), "XXI"), (("TA", "tWW"), "XXI"),
   (("CG", "tWW"), "XXII"), (("GC", "tWW"), "XXII"), (("AU", "cHW"), "XXIII"),
   (("UA", "cWH"), "XXIII"), (("AT", "cHW"), "XXIII"), (("TA", "cWH"), "XXIII"),
   (("AU", "tHW"), "XXIV"), (("UA", "tWH"), "XXIV"), (("AT", "tHW"), "XXIV"),
   (("TA", "tWH"), "XXIV"), (("AC", "tHW"), "XXV"), (("CA", "tWH"), "XXV"),
   (("AC", "tWW"), "XXVI"), (("CA", "tWW"), "XXVI"), (("GU", "tWW"), "XXVII"),
   (("UG", "tWW"), "XXVII"), (("GT", "tWW"), "XXVII"), (("TG", "tWW"), "XXVII"),
   (("GU", "cWW"), "XXVIII"), (("UG", "cWW"), "XXVIII"), (("GT", "cWW"), "XXVIII"),
   (("TG", "cWW"), "XXVIII")]

def saengerNames : List String := ["I", "II", "III", "IV", "V", "VI", "VII", "VIII",
   "IX", "X", "XI", "XII", "XIII", "XIV", "XV", "XVI",
   "XVII", "XVIII", "XIX", "XX", "XXI", "XXII", "XXIII", "XXIV",
   "XXV", "XXVI", "XXVII", "XXVIII"]

def saengerCanonical : List String := ["XIX", "XX", "XXVIII"]

def stackingReverse : List (String × String) := [("upward", "downward"), ("downward", "upward"), ("inward", "inward"), ("outward", "outward")]

def brValues : List String := ["0BR", "1BR", "2BR", "3BR", "4BR", "5BR", "6BR", "7BR", "8BR", "9BR"]

def bphValues : List String := ["0BPh", "1BPh", "2BPh", "3BPh", "4BPh", "5BPh", "6BPh", "7BPh", "8BPh", "9BPh"]

end RnaVerif.Gen

-- GENERATED on every run by /verif/tools/gen_tables.py from /repo/src/rnapolis — do not edit

namespace RnaVerif.Gen

/-- `BpSeq.from_string`: a line is kept iff `len(fields)` equals this -/
def bpseqFields : Nat := 3

/-- `BpSeq.__str__`: the format string of one entry split at its three `{}` -/
def bpseqFmtPieces : List String := ["", " ", " ", ""]

/-- `BpSeq.__str__`: what the entries are joined with -/
def bpseqJoin : String := "\n"

/-- `DotBracket.__str__`: text between sequence and structure -/
def dbStrSep : String := "\n"

/-- `DotBracket.from_file`: (number of lines, index of the sequence line, index of the structure line); any other number of lines raises -/
def dbFileCases : List (Nat × Nat × Nat) := [(2, 0, 1), (3, 1, 2)]

/-- the pattern given to `re.finditer` in `MultiStrandDotBracket.from_string` -/
def multiRegex : String := "((>.*?\\n)?([ACGTURYSWKMBDHVNacgturyswkmbdhvn.-]+)\\n([.()\\[\\]{}<>A-Za-z]+))"

/-- does the pattern have the shape `((>.*?\n)?([SEQ]+)\n([STR]+))` (groups 3, 4; no flags)? -/
def multiShapeOk : Bool := true

/-- character class of group 3 (sequence line) -/
def multiSeqClass : List Char := ['A', 'C', 'G', 'T', 'U', 'R', 'Y', 'S', 'W', 'K',
   'M', 'B', 'D', 'H', 'V', 'N', 'a', 'c', 'g', 't',
   'u', 'r', 'y', 's', 'w', 'k', 'm', 'b', 'd', 'h',
   'v', 'n', '.', '-']

/-- character class of group 4 (structure line) -/
def multiStrClass : List Char := ['.', '(', ')', '[', ']', '{', '}', '<', '>', 'A',
   'B', 'C', 'D', 'E', 'F', 'G', 'H', 'I', 'J', 'K',
   'L', 'M', 'N', 'O', 'P', 'Q', 'R', 'S', 'T', 'U',
   'V', 'W', 'X', 'Y', 'Z', 'a', 'b', 'c', 'd', 'e',
   'f', 'g', 'h', 'i', 'j', 'k', 'l', 'm', 'n', 'o',
   'p', 'q', 'r', 's', 't', 'u', 'v', 'w', 'x', 'y',
   'z']

end RnaVerif.Gen
